"""Independent evaluation of the numeric facts of the importance nested
sampler (C03 C05 C15): booleans for the traces."""

from __future__ import annotations

import math

import numpy as np
from scipy.special import logsumexp

F32 = 2e-4      # float32 accuracy of flow densities (relative/absolute on log-densities)
F64 = 1e-9


def _close(a, b, tol):
    a = np.asarray(a, dtype=float)
    b = np.asarray(b, dtype=float)
    both_inf = np.isinf(a) & np.isinf(b) & (np.sign(a) == np.sign(b))
    with np.errstate(invalid="ignore"):
        ok = np.abs(a - b) <= tol * np.maximum(1.0, np.maximum(np.abs(a), np.abs(b)))
    return bool(np.all(ok | both_inf))


def store_facts(ns, store, model, obs, tol_q=F64):
    """Projection of one OrderedSamples store plus the C03/C04 booleans,
    computed without the sampler's bookkeeping."""
    smp = store.samples
    n = int(smp.size)
    lq = store.log_q
    prop = ns.proposal
    live = store.live_points_indices
    nested = store.nested_samples_indices
    f = {
        "n": n,
        "n_live": -1 if live is None else int(len(live)),
        "n_nested": int(len(nested)),
        "ncols": -1 if lq is None else int(lq.shape[1]),
        "rows": -1 if lq is None else int(lq.shape[0]),
    }
    L = smp["logL"].astype(float)
    f["sorted"] = bool(np.all(L[:-1] <= L[1:])) if n > 1 else True
    li = np.asarray([] if live is None else live, dtype=int)
    ni = np.asarray(nested, dtype=int)
    f["partition"] = bool(
        np.all(np.diff(li) > 0) and np.all(np.diff(ni) > 0)
        and np.array_equal(np.sort(np.concatenate([li, ni])), np.arange(n)))
    thr = store.log_likelihood_threshold
    f["thr_set"] = thr is not None
    # with a strict threshold (the SAMPLER's setting) the live set is exactly the samples at or above it
    strict = bool(getattr(ns, "strict_threshold", False))
    if strict and thr is not None and live is not None and n:
        is_live = np.zeros(n, dtype=bool)
        is_live[li] = True
        f["strict_ok"] = bool(np.all(L[is_live] >= thr) and np.all(L[~is_live] < thr))
    else:
        f["strict_ok"] = True
    # per-iteration draw counts from the samples actually present
    its = smp["it"].astype(int)
    f["it_counts"] = np.bincount(its + 1, minlength=max(1, int(its.max()) + 2) if n else 1).tolist()
    # (d) unit hypercube
    obs.in_observer = True
    try:
        f["in_unit"] = bool(np.all(model.in_unit_hypercube(smp)))
        # (e) stored logL = model at the physical point
        phys = model.from_unit_hypercube(smp)
        ll = np.atleast_1d(model.log_likelihood(phys)).astype(float)
        f["logL_ok"] = _close(L, ll, 1e-12)
        # (c') stored logU = unit-hypercube prior
        lu = np.atleast_1d(model.log_prior_unit_hypercube(smp)).astype(float)
        f["logU_ok"] = _close(smp["logU"], lu, 1e-12)
    finally:
        obs.in_observer = False
    # (a) per-proposal densities: re-evaluate the saved proposals at the samples
    ok_a = None
    if lq is not None and getattr(prop, "flow", None) is not None:
        try:
            x_prime, log_j = prop.rescale(smp)

            def table(xp):
                cols = [np.zeros(n)]
                for i in range(len(prop.flow.models)):
                    cols.append(np.asarray(prop.flow.log_prob_ith(xp, i), dtype=float) + log_j)
                return np.stack(cols, axis=1)

            ref = table(x_prime)
            f["ncols_ref"] = int(ref.shape[1])
            if ref.shape != lq.shape:
                ok_a = False
            else:
                # float32 accuracy: the flows compute in float32 and the stored x' went through a
                # sigmoid/logit round trip, so each density is only defined up to its own sensitivity to a
                # float32-ulp perturbation of x' (large in the tails of an autoregressive flow)
                xp = np.asarray(x_prime, dtype=float)
                d = 2e-6 * np.maximum(1.0, np.abs(xp))
                with np.errstate(invalid="ignore"):
                    sens = np.maximum(np.abs(table(xp + d) - ref), np.abs(table(xp - d) - ref))
                sens = np.where(np.isfinite(sens), sens, 0.0)
                both_inf = np.isinf(lq) & np.isinf(ref) & (np.sign(lq) == np.sign(ref))
                with np.errstate(invalid="ignore"):
                    okm = np.abs(lq - ref) <= F32 * np.maximum(1.0, np.maximum(np.abs(lq), np.abs(ref))) + 4.0 * sens
                okrow = np.all(okm | both_inf, axis=1)
                # samples closer than eps to a face of the unit hypercube: the forward map clips them
                # (logit(x, eps)) while they were generated, and their densities stored, at the unclipped x'
                near = np.zeros(n, dtype=bool)
                if getattr(prop, "reparameterisation", None) == "logit":
                    from nessai import config as _cfg

                    eps = float(_cfg.general.eps)
                    xu = np.stack([smp[nm] for nm in model.names], axis=1).astype(float)
                    near = np.any((xu < eps) | (xu > 1.0 - eps), axis=1)
                ok_a = bool(np.all(okrow | near))
                f["clip_ok"] = bool(np.all(okrow | ~near))
                f["n_near_boundary"] = int(near.sum())
                f["n_ill_conditioned"] = int(np.sum(sens > F32))
        except Exception as ex:  # noqa
            f["density_error"] = f"{type(ex).__name__}: {ex}"[:200]
            ok_a = False
    f.setdefault("clip_ok", True)
    f["densities_ok"] = ok_a if ok_a is not None else (lq is not None and lq.shape[1] == 1 and bool(np.all(lq == 0)))
    # (b) meta-proposal = mixture with weights = fraction drawn from each proposal
    if lq is not None:
        w = np.asarray([float(v) for _, v in sorted(prop._weights.items())])
        if len(w) == lq.shape[1] and not np.any(np.isnan(w)):
            logQ = logsumexp(lq, b=w, axis=1)
            f["logQ_ok"] = _close(smp["logQ"], logQ, tol_q)
        else:
            f["logQ_ok"] = False
        f["logW_ok"] = _close(smp["logW"], smp["logU"].astype(float) - smp["logQ"].astype(float), F64)
    else:
        f["logQ_ok"] = f["logW_ok"] = False
    f["digest"] = int(hash(smp.tobytes()) & 0x3FFFFFFF)
    return f


def criteria_facts(ns):
    """C15: the criterion values equal their standard definitions recomputed
    from the samples of the main store."""
    # the main store, chosen here (not through the sampler's own alias): the independent set when it is drawn
    st = ns.iid_samples if getattr(ns, "draw_iid_live", False) and ns.iid_samples is not None else ns.training_samples
    smp = st.samples
    out = {}
    lw = smp["logL"].astype(np.longdouble) + smp["logW"].astype(np.longdouble)
    n = lw.size
    m = np.max(lw)
    logZ = float(m + np.log(np.sum(np.exp(lw - m))) - np.log(n))
    out["logZ_ok"] = _close(ns.log_evidence, logZ, F64)
    # Kish ESS of the posterior weights
    p = np.exp(lw - m)
    ess = float(np.sum(p) ** 2 / np.sum(p ** 2))
    out["ess_ok"] = _close(ns.ess, ess, 1e-7)
    # |delta log Z|
    h = ns.history["logZ"]
    prev = h[-2] if len(h) >= 2 else None   # update_history already appended the current value
    if ns.iteration > 0 and prev is not None:
        out["log_dZ_ok"] = _close(ns.log_dZ, abs(ns.log_evidence - prev), F64)
    else:
        out["log_dZ_ok"] = bool(np.isinf(ns.log_dZ)) if ns.iteration == 0 else True
    # standard error of the mean importance weight relative to the mean (scale free: from the ratios Z_i / Z)
    rel = float(np.sqrt(np.sum((np.exp(lw - np.longdouble(logZ)) - 1) ** 2) / (n * (n - 1))))
    out["frac_err_ok"] = _close(float(ns.fractional_error), rel, 1e-7)
    # (the reported value is not a number although the definition gives one: exp(ln Z) is not representable)
    ev_ = float(ns.state.evidence)
    out["frac_err_nan_unrepresentable_evidence"] = bool(math.isnan(float(ns.fractional_error))
                                                        and (ev_ == 0.0 or math.isinf(ev_)) and math.isfinite(rel))
    out["Z_err_ok"] = _close(float(ns.Z_err), float(np.exp(rel)), 1e-7)
    # evidence above the threshold over the total
    thr = st.log_likelihood_threshold
    above = smp["logL"] >= thr
    if np.any(above):
        la = lw[above]
        ma = np.max(la)
        log_z_above = float(ma + np.log(np.sum(np.exp(la - ma))) - np.log(la.size))
        out["ratio_ok"] = _close(ns.ratio, log_z_above - logZ, 1e-7)
    else:
        out["ratio_ok"] = True
    # reported in the history
    sc = ns.history["stopping_criteria"]
    out["reported_ok"] = bool(all(
        (not sc[k]) or _same(sc[k][-1], getattr(ns, k, np.nan)) for k in sc))
    out["compared_is_reported"] = bool(all(
        _same(c, sc[name][-1]) for c, name in zip(ns.criterion, ns.stopping_criterion) if sc[name]))
    return out


def _same(a, b):
    a, b = float(a), float(b)
    return (math.isnan(a) and math.isnan(b)) or a == b


def result_facts_ins(fs, obs):
    """C05 for a finished INS run."""
    ns = fs.ns
    model = obs.model
    smp_unit = ns.samples_unit
    n = int(smp_unit.size)
    f = {"n_returned": n}
    L = smp_unit["logL"].astype(float)
    f["ascending"] = bool(np.all(L[:-1] <= L[1:]))
    lw = smp_unit["logL"].astype(np.longdouble) + smp_unit["logW"].astype(np.longdouble)
    m = np.max(lw)
    logZ = float(m + np.log(np.sum(np.exp(lw - m))) - np.log(n))
    f["logZ_ok"] = _close(fs.logZ, logZ, F64) and _close(ns.log_evidence, logZ, F64)
    rel = float(np.sqrt(np.sum((np.exp(lw - np.longdouble(logZ)) - 1) ** 2) / (n * (n - 1))))
    f["logZ_err_ok"] = _close(fs.logZ_error, rel, 1e-7)
    lpw = np.asarray(ns.state.log_posterior_weights, dtype=float)
    f["weights_ok"] = bool(lpw.size == n and _close(lpw, np.asarray(lw, dtype=float) - logZ, 1e-8))
    # sum of the draws of every level
    counts = [int(v) for _, v in sorted(ns.sample_counts.items())]
    f["count_ok"] = bool(n == sum(counts))
    its = smp_unit["it"].astype(int)
    f["counts_match_samples"] = bool(np.bincount(its + 1, minlength=len(counts)).tolist() == counts)
    obs.in_observer = True
    try:
        phys = model.from_unit_hypercube(smp_unit)
        ll = np.atleast_1d(model.log_likelihood(phys)).astype(float)
        lp = np.atleast_1d(model.log_prior(phys)).astype(float)
    finally:
        obs.in_observer = False
    f["logL_model_ok"] = _close(L, ll, 1e-12)
    f["logP_model_ok"] = _close(smp_unit["logP"], lp, 1e-12)
    ret = np.asarray(fs.nested_samples)
    f["returned_are_physical"] = bool(ret.size == n and all(
        _close(ret[k], phys[k], 1e-12) for k in model.names))
    d = ns.get_result_dictionary()
    f["dict_ok"] = bool(
        _close(d["log_evidence"], fs.logZ, F64) and _close(d["log_evidence_error"], fs.logZ_error, F64)
        and np.asarray(d["samples"]).size == n
        and _close(np.asarray(d["log_posterior_weights"], float), lpw, F64)
        and int(d["total_likelihood_evaluations"]) == int(ns.model.likelihood_evaluations))
    ps = np.asarray(fs.posterior_samples)
    f["n_posterior"] = int(ps.size)
    from .common import digest31

    f["res_digest"] = digest31(smp_unit.tobytes(), repr(float(fs.logZ)), lpw.tobytes(),
                               int(ns.model.likelihood_evaluations))
    f["logZ"] = float(fs.logZ)
    return f
