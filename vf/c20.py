"""C20 — every algorithmic option runs to completion or is rejected up front.

spec/Config.tla lists the option domains of both samplers and transcribes the
up-front validation (RejectedUpFront); TLC enumerates every configuration that
differs from the default in one option (thorough: a sample of the pairs) and
each one is run for real in a bounded subprocess under the observers.  Outcome:
ConfigError before any sampling, Completed (trace validated: C01/C03/C05
clauses), LateFailure (exception after sampling started) or NoTermination.
"""

from __future__ import annotations

import json
import os
import random
import sys
from pathlib import Path

from .common import Scratch, Verdict, seed_from_env, MachineryError
from .nsruns import ins_spec, run_corpus, std_spec, validate_ins, validate_standard
from .pack import load_events
from .tlc import run_tlc, require_ok

PROP = "C20"

CFG = """SPECIFICATION Spec
CONSTANTS
  Pairs = {pairs}
INVARIANT Exported
CHECK_DEADLOCK FALSE
"""

NAMED = {
    "rtb_logit": {"x0": "rescaletobounds", "x1": "logit"},
    "inversion": {"x0": "inversion", "x1": "inversion-duplicate"},
    "zscore_offset": {"x0": "zscore", "x1": "offset"},
    "null": {"x0": "null", "x1": "zscore"},
    "bogus": {"x0": "bogus"},
    "q05": {"q": 0.5},
    "q09": {"q": 0.9},
}


def decode(tok):
    if tok == "none":
        return None
    kind, _, val = tok.partition(":")
    if kind == "b":
        return val == "T"
    if kind == "n":
        return float(val) if ("." in val or "e" in val) else int(val)
    if kind == "s":
        return val
    if kind == "j":
        return NAMED[val]
    raise MachineryError(f"bad token {tok}")


def build_spec(c, seed, model):
    sampler = c["sampler"]
    changes = list(c["changes"].values()) if isinstance(c["changes"], dict) else list(c["changes"])
    if sampler == "std":
        spec = std_spec(model, seed, 50)
    else:
        spec = ins_spec(model, seed, 100, min_samples=20, max_iteration=4)
    kw = spec["kwargs"]
    run_kwargs = {}
    for ch in changes:
        val = decode(ch["value"])
        if ch["where"] == "sampler":
            kw[ch["name"]] = val
        elif ch["where"] == "flow":
            kw["flow_config"] = dict(kw["flow_config"], **{ch["name"]: val})
        elif ch["where"] == "training":
            tc = dict(kw["training_config"], **{ch["name"]: val})
            if ch["name"] == "noise_type" and val is not None:
                tc["noise_scale"] = 0.1
            kw["training_config"] = tc
        elif ch["where"] == "run":
            run_kwargs[ch["name"]] = val
    if sampler == "std":
        # a gaussian/uniform latent prior is documented to need constant_volume_mode=False;
        # leave the combination exactly as the configuration says
        pass
    spec["run_kwargs"] = run_kwargs
    spec["changes"] = sorted(f"{ch['name']}={ch['value']}" for ch in changes)
    spec["predicted_rejected"] = bool(c["rejected"])
    return spec


def classify(h):
    raw = load_events([f for f in h["events"] if os.path.exists(f)])
    rc = h["codes"][-1]
    started = any(e["ev"] in ("init", "ins_init") for e in raw)
    exc = next((e for e in raw if e["ev"] == "exception"), None)
    if rc == 0 and any(e["ev"] == "done" for e in raw):
        return "completed", None, raw
    if rc == -9:
        return "no_termination", None, raw
    if exc is not None:
        if not started and exc.get("evals_here", 0) <= 0:
            return "config_error", exc, raw
        return "late_failure", exc, raw
    return "unknown", None, raw


def _known_sigs():
    from .common import load_known

    return {k["signature"] for k in load_known() if k.get("property") == PROP and k.get("status") == "open"}


def attribute(kind, spec, suffix=""):
    """Signature of a failing configuration: kind:<option=value,...>[:<exception type>].  A two-option
    configuration that fails exactly like one of its options alone (a listed finding) is attributed to
    that option; any other failing combination keeps its own signature."""
    known = _known_sigs()
    full = kind + ":" + ",".join(spec["changes"]) + suffix
    if full in known:
        return full
    for ch in spec["changes"]:
        single = kind + ":" + ch + suffix
        if single in known:
            return single
    return full


def late_signature(spec, exc):
    """Identify a late failure by the option value that triggers it and the exception type."""
    what = (exc or {}).get("what", "")
    return attribute("late_failure", spec, ":" + what.split(":")[0])


def main(tier: str) -> int:
    seed = seed_from_env()
    v = Verdict(PROP, tier, seed, "exploration")
    rng = random.Random(seed)
    with Scratch("c20-") as scratch:
        cfgp = scratch / "cfg.cfg"
        cfgp.write_text(CFG.format(pairs="TRUE" if tier == "thorough" else "FALSE"))
        res = run_tlc("Config", str(cfgp), metadir=scratch / "m_cfg", collect_prefix="CFG", timeout=1200)
        require_ok(res, "Config.tla")
        seen = {}
        for c in res.printed:
            chs = list(c["changes"].values()) if isinstance(c["changes"], dict) else list(c["changes"])
            key = (c["sampler"], tuple(sorted((x["name"], x["value"]) for x in chs)))
            seen[key] = c
        cfgs = list(seen.values())
        singles = [c for c in cfgs if len(c["changes"]) <= 1]
        pairs = [c for c in cfgs if len(c["changes"]) == 2]
        def names(c):
            chs = c["changes"].values() if isinstance(c["changes"], dict) else c["changes"]
            return {ch["name"] for ch in chs}

        # the Companions of Config.tla: always run (quick enumerates only these pairs)
        companion_names = ({"latent_prior", "constant_volume_mode"}, {"batch_size", "batch_norm_between_layers"})
        companions = [c for c in pairs if names(c) in companion_names]
        if tier == "thorough":
            rest = [c for c in pairs if c not in companions]
            rng.shuffle(rest)
            pairs = companions + rest[:400]
        chosen = singles + companions + ([c for c in pairs if c not in companions] if tier == "thorough" else [])
        v.note(f"Config.tla: {len(cfgs)} configurations enumerated, {len(chosen)} run")
        specs = []
        for i, c in enumerate(chosen):
            model = ("gauss2", "gauss3", "gaussoff2")[i % 3]
            # options that decide WHEN the flow is trained / which proposal is used: on a likelihood peaked away
            # from the centre of the prior, where an untrained flow does not cover the peak by accident
            if names(c) & {"train_on_empty", "training_frequency", "cooldown", "maximum_uninformed",
                           "uninformed_acceptance_threshold", "retrain_acceptance", "reset_acceptance", "memory",
                           "reset_weights", "reset_permutations", "reset_flow", "acceptance_threshold",
                           "analytic_priors", "checkpoint_on_training"} and c["sampler"] == "std":
                model = "gaussoff2"
            if any(ch["name"] == "reparameterisations" for ch in (c["changes"].values() if isinstance(c["changes"], dict) else c["changes"])):
                model = "gauss2"
            if names(c) == {"batch_size", "batch_norm_between_layers"}:
                # the seed for which the listed finding (last training batch of one sample + batch norm) shows
                specs.append(build_spec(c, 1, "gauss2"))
                continue
            specs.append(build_spec(c, seed * 1000 + i, model))
        hs = run_corpus(specs, scratch / "runs", timeout=150 if tier == "quick" else 300)
        outcomes = {}
        completed_std, completed_ins = [], []
        for h in hs:
            out, exc, raw = classify(h)
            outcomes[out] = outcomes.get(out, 0) + 1
            spec = h["spec"]
            label = f"{spec['kind']} sampler with {spec['changes'] or 'defaults'}"
            replay = {"spec": spec, "codes": h["codes"], "exception": exc}
            if out == "completed":
                (completed_std if spec["kind"] == "standard" else completed_ins).append(h)
            elif out == "config_error":
                pass
            elif out == "late_failure":
                v.violation(late_signature(spec, exc), f"{label}: fails after sampling started: {exc.get('what')} "
                            f"(after {exc.get('evals_here')} likelihood evaluations; {exc.get('tb', [''])[-1]})", replay)
            elif out == "no_termination":
                v.violation(attribute("no_termination", spec),
                            f"{label}: did not terminate within the wall-clock bound", replay)
            else:
                v.mismatch(f"{label}: outcome could not be classified (codes {h['codes']})")
            if spec["predicted_rejected"] != (out == "config_error") and out in ("config_error", "completed"):
                v.mismatch(f"{label}: Config.tla predicts rejected_up_front={spec['predicted_rejected']}, observed {out}")
        # completed runs must return valid results
        n_valid = 0
        for group, validate, props in ((completed_std, validate_standard, ("C01", "C05", "C09")),
                                       (completed_ins, validate_ins, ("C03", "C04", "C05"))):
            if not group:
                continue
            records, tstats, packed = validate(group, scratch)
            n_valid += len(group)
            for r in records:
                if r["k"] == "P" and r["p"] in props:
                    h = group[r["h"]]
                    if "within eps of the unit-hypercube boundary" in r["c"]:
                        continue      # the C03 check owns this (known) finding
                    v.violation("invalid_result:" + ",".join(h["spec"]["changes"]) + ":" + r["c"].split(":")[0],
                                f"{h['spec']['kind']} sampler with {h['spec']['changes']}: completed but clause "
                                f"{r['p']}/{r['c']} fails at event {r['l']}", {"spec": h["spec"], "event": r["ev"]})
        v.coverage = {
            "evaluations": len(hs),
            "distinct_nontrivial": len({(h["spec"]["kind"], tuple(h["spec"]["changes"])) for h in hs if h["spec"]["changes"]}),
            "rule": "configurations = default + every single-option change of Config.tla's option table (both samplers; "
                    "thorough: plus 400 sampled two-option changes); each run in a subprocess with a wall-clock bound on "
                    "a 2- or 3-parameter Gaussian; distinct = distinct (sampler, option=value) sets different from the default",
            "samples": [{"changes": specs[len(specs) // 2]["changes"], "kwargs": specs[len(specs) // 2]["kwargs"]}],
            "outcomes": outcomes, "completed_runs_validated_by_TLC": n_valid,
            "options": int(len({(c["sampler"], ch["name"]) for c in cfgs for ch in
                                (c["changes"].values() if isinstance(c["changes"], dict) else c["changes"])})),
        }
    v.assumptions = ["termination is bounded by wall clock (150 s quick, 300 s thorough, nominal cost ~5 s), proposal draws are not counted separately",
                     "up front = exception before the initial points are drawn and before any likelihood evaluation"]
    return v.finish()


if __name__ == "__main__":
    sys.exit(main(sys.argv[1] if len(sys.argv) > 1 else "quick"))
