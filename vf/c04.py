"""C04 — INS sample store stays sorted, partitioned and aligned.

spec -> code: every edge of the complete state graph of spec/OrderedSamples.tla
(4 modes) is replayed on a real ``OrderedSamples``; the real arrays are
projected and compared with the specification's post-state (M-clause) and the
clauses of the property are evaluated on the real object (P-clauses).

code -> spec: long random operation sequences with large batches are run on
the real object, recorded and validated by TLC against
spec/TraceOrderedSamples.tla.
"""

from __future__ import annotations

import json
import random
import sys
import time

import numpy as np

from .common import Scratch, Verdict, seed_from_env, NCPU, MachineryError
from .tlc import run_tlc, require_ok

PROP = "C04"

CFG = """SPECIFICATION Spec
CONSTANTS
  Strict = {strict}
  ReplaceAll = {replace_all}
  LVals = {{{lvals}}}
  MaxBatch = {max_batch}
  MaxSamples = {max_samples}
  OwnThreshold = {own}
VIEW view
INVARIANT TypeOK
INVARIANT Sorted
INVARIANT Partition
INVARIANT NothingLost
INVARIANT Aligned
INVARIANT StrictLive
INVARIANT RemovedBelow
INVARIANT LiveNonEmpty
PROPERTY RemoveCount
CHECK_DEADLOCK FALSE
ACTION_CONSTRAINT ExportEdge
"""

# Instantiations of the abstract likelihood alphabet (rank k -> float); ties in
# the alphabet are ties in the floats.  -inf is a legal log-likelihood.
INSTANTIATIONS = [
    lambda k: float(k),
    lambda k: -1e5 + 1e-9 * k,
    lambda k: [-np.inf, -1e300, 0.0, 5e-324, 1e300, 1.7e308][k - 1],
    lambda k: 1e5 + np.spacing(1e5) * k,
    lambda k: -float(2 ** (10 - k)),
]


def _tf(b):
    return "TRUE" if b else "FALSE"


# ---------------------------------------------------------------------------
# the real object


def make_batch(ids, Ls, val, ncols=2):
    from nessai.livepoint import empty_structured_array

    n = len(ids)
    x = empty_structured_array(n, names=["x", "y"])
    ids = np.asarray(ids, dtype=float)
    x["x"] = ids
    x["y"] = 3.0 * ids + 0.5
    x["logP"] = -ids
    x["logL"] = [val(l) for l in Ls]
    x["it"] = (ids % 7).astype(int)
    log_q = np.repeat(ids[:, None], ncols, axis=1)
    return x, log_q


def content_ok(samples, idL, val):
    ids = samples["x"]
    ok = (
        np.array_equal(samples["y"], 3.0 * ids + 0.5)
        and np.array_equal(samples["logP"], -ids)
        and np.array_equal(samples["it"], (ids % 7).astype(int))
    )
    if not ok:
        return False
    exp = np.array([val(idL[int(i) - 1]) for i in ids], dtype=float)
    return np.array_equal(samples["logL"], exp)


def project(os_):
    """Abstract state of a real OrderedSamples (ids are stored in field x)."""
    s = os_.samples
    return {
        "ids": [] if s is None else [int(v) for v in s["x"]],
        "logL": [] if s is None else s["logL"].copy(),
        "rows": [] if os_.log_q is None else os_.log_q.copy(),
        "live": None if os_.live_points_indices is None
        else [int(v) for v in os_.live_points_indices],
        "nested": [] if os_.nested_samples_indices is None
        else [int(v) for v in os_.nested_samples_indices],
        "thr": os_.log_likelihood_threshold,
    }


def p_clauses(pre, op, ret, post, mode, idL, val, samples):
    """The clauses of C04 on the real object.  Returns list of failed names."""
    strict, replace_all = mode
    bad = []
    L = post["logL"]
    n = len(L)
    if n and not np.all(L[:-1] <= L[1:]):
        bad.append("sorted")
    live = post["live"] or []
    nested = post["nested"]
    if any(a >= b for a, b in zip(live, live[1:])):
        bad.append("live_strictly_increasing")
    if any(a >= b for a, b in zip(nested, nested[1:])):
        bad.append("nested_strictly_increasing")
    if sorted(live + nested) != list(range(n)):
        bad.append("partition")
    if sorted(post["ids"]) != list(range(1, len(idL) + 1)):
        bad.append("nothing_lost")
    elif not content_ok(samples, idL, val):
        bad.append("unmodified")
    rows = post["rows"]
    if len(rows) != n or (n and not np.array_equal(
            rows, np.repeat(np.asarray(post["ids"], float)[:, None], rows.shape[1], axis=1))):
        bad.append("aligned")
    if op == "remove":
        preL = pre["logL"]
        if replace_all:
            exp = len(pre["live"])
        else:
            exp = int(sum(1 for i in pre["live"] if preL[i] < pre["thr"]))
        if ret != exp:
            bad.append("remove_count")
        if len(nested) != len(pre["nested"]) + exp:
            bad.append("remove_moved")
    if strict and (op == "add" or (op == "remove" and not replace_all)):
        if live != [i for i in range(n) if L[i] >= post["thr"]]:
            bad.append("strict_live")
    return bad


def apply_op(os_, op, idL, val):
    """Apply one abstract operation to the real object. Returns the result."""
    if op["op"] in ("add_initial", "add"):
        ids = list(range(len(idL) + 1, len(idL) + 1 + len(op["b"])))
        x, lq = make_batch(ids, op["b"], val)
        idL.extend(op["b"])
        if op["op"] == "add_initial":
            return os_.add_initial_samples(x, lq)
        return os_.add_samples(x, lq)
    if op["op"] == "threshold":
        return os_.update_log_likelihood_threshold(val(op["t"]))
    if op["op"] == "remove":
        return os_.remove_samples()
    if op["op"] == "finalise":
        # OrderedSamples.finalise also refreshes the evidence state, which
        # needs the INS weight fields; the index bookkeeping is what is modelled
        os_.add_to_nested_samples(os_.live_points_indices)
        os_.live_points = None
        return None
    raise MachineryError(f"unknown op {op}")


def clone(os_):
    import copy

    new = copy.copy(os_)
    for k in ("samples", "log_q", "live_points_indices", "nested_samples_indices"):
        v = getattr(os_, k)
        setattr(new, k, None if v is None else v.copy())
    return new


def replay_edges(edges, mode, val, verdict: Verdict, stats):
    from nessai.samplers.importancesampler import OrderedSamples

    strict, replace_all = mode
    need = {json.dumps(e["h"][:-1]) for e in edges}
    cache = {}

    def state_for(h):
        key = json.dumps(h)
        if key in cache:
            os_, idL = cache[key]
            return clone(os_), list(idL)
        if not h:
            return OrderedSamples(strict_threshold=strict, replace_all=replace_all), []
        os_, idL = state_for(h[:-1])
        apply_op(os_, h[-1], idL, val)
        if key in need:
            cache[key] = (clone(os_), list(idL))
        return os_, idL

    for e in edges:
        h = e["h"]
        try:
            os_, idL = state_for(h[:-1])
        except MachineryError:
            raise
        except Exception:  # an operation of the prefix raised: reported at that operation's own edge
            stats["edges_unreachable_after_exception"] = stats.get("edges_unreachable_after_exception", 0) + 1
            continue
        pre = project(os_)
        op = h[-1]
        try:
            ret = apply_op(os_, op, idL, val)
        except MachineryError:
            raise
        except Exception as ex:  # the store failed an operation inside its protocol
            verdict.violation(
                "exception", f"{type(ex).__name__}: {ex} in {op['op']}",
                {"mode": mode, "history": h, "instantiation": stats["inst"]},
            )
            continue
        key = json.dumps(h)
        if key in need and key not in cache:
            cache[key] = (clone(os_), list(idL))
        post = project(os_)
        stats["edges"] += 1
        bad = p_clauses(pre, op["op"], ret, post, mode, idL, val, os_.samples)
        # the threshold the store works with is the one it was given (protocol: the likelihood of one of its
        # live samples - it may be LOWER than the previous one under the soft threshold)
        if op["op"] == "threshold" and post["thr"] != val(op["t"]):
            bad.append("threshold_is_the_one_set")
        for b in bad:
            verdict.violation(
                b, f"clause {b} fails after {op['op']} (mode strict={strict}, "
                f"replace_all={replace_all})",
                {"mode": mode, "history": h, "instantiation": stats["inst"],
                 "post": {k: (v.tolist() if hasattr(v, "tolist") else v)
                          for k, v in post.items()}},
            )
        # M-clause: the complete real state equals the specification's
        s = e["s"]
        exp_L = [val(x["L"]) for x in s["samples"]]
        same = (
            list(post["logL"]) == exp_L
            and (post["live"] is None) == s["liveNone"]
            and (post["live"] or []) == s["live"]
            and post["nested"] == s["nested"]
            and (post["thr"] is None) == (s["thr"] == 0)
            and (s["thr"] == 0 or post["thr"] == val(s["thr"]))
            and (op["op"] != "remove" or ret == s["ret"])
        )
        if not same:
            verdict.mismatch(f"state after {json.dumps(h)} differs from spec (mode {mode})")
        elif post["ids"] != [x["id"] for x in s["samples"]]:
            stats["tie_order_differs"] += 1
        stats["kinds"].add((op["op"], len(op["b"]), bool(post["live"]), len(post["nested"]) > 0))


# ---------------------------------------------------------------------------
# code -> spec: long random sequences validated as traces


class StoreFailed(Exception):
    def __init__(self, what, events, op):
        super().__init__(what)
        self.what, self.events, self.op = what, events, op


def random_trace(rng: random.Random, mode, n_ops, nvals, max_batch, val):
    """Drive the real object with a random protocol-respecting sequence and
    record every call with its arguments and the projected post-state."""
    from nessai.samplers.importancesampler import OrderedSamples

    strict, replace_all = mode
    os_ = OrderedSamples(strict_threshold=strict, replace_all=replace_all)
    idL = []
    events = []

    def log(op, ret=None):
        p = project(os_)
        vals = sorted({val(k) for k in range(1, nvals + 1)})
        rank = {v: i + 1 for i, v in enumerate(vals)}
        events.append({
            "op": op["op"], "b": op["b"], "t": op["t"],
            "L": [rank[v] for v in p["logL"]],
            "ids": p["ids"],
            "rows": [int(r[0]) if len(set(r.tolist())) == 1 else -1 for r in p["rows"]],
            "live": p["live"] or [], "liveNone": p["live"] is None,
            "nested": p["nested"],
            "thr": 0 if p["thr"] is None else rank[p["thr"]],
            "ret": -1 if ret is None else int(ret),
            "content": bool(content_ok(os_.samples, idL, val)),
        })

    def batch():
        return [rng.randint(1, nvals) for _ in range(rng.randint(1, max_batch))]

    op = {"op": "add_initial", "b": batch(), "t": 0}
    apply_op(os_, op, idL, val)
    log(op)
    last = "add_initial"
    for _ in range(n_ops):
        choices = []
        live = os_.live_points_indices
        thr_set = os_.log_likelihood_threshold is not None
        if not strict or thr_set:
            choices += ["add"] * 3
        if live is not None and len(live) > 0 and last != "threshold":
            choices += ["threshold"] * 2
        if live is not None and (replace_all or thr_set):
            choices += ["remove"] * 2
        if not choices:
            break
        c = rng.choice(choices)
        if c == "add":
            op = {"op": "add", "b": batch(), "t": 0}
        elif c == "threshold":
            i = rng.choice(list(live))
            vals = sorted({val(k) for k in range(1, nvals + 1)})
            op = {"op": "threshold", "b": [], "t": vals.index(os_.samples["logL"][i]) + 1}
        else:
            op = {"op": "remove", "b": [], "t": 0}
        try:
            ret = apply_op(os_, op, idL, val)
        except MachineryError:
            raise
        except Exception as ex:   # the store failed an operation inside its protocol: the trace ends here
            raise StoreFailed(f"{type(ex).__name__}: {ex} in {op['op']}", events, op)
        log(op, ret if c == "remove" else None)
        last = c
    if os_.live_points_indices is not None:
        op = {"op": "finalise", "b": [], "t": 0}
        apply_op(os_, op, idL, val)
        log(op)
    return events


TRACE_CFG = """SPECIFICATION TraceSpec
CONSTANTS
  Strict = {strict}
  ReplaceAll = {replace_all}
  LVals = {{{lvals}}}
  MaxBatch = 0
  MaxSamples = 0
  OwnThreshold = TRUE
CHECK_DEADLOCK FALSE
"""


def validate_traces(traces, mode, nvals, scratch, verdict: Verdict, tag):
    """traces: list of event lists.  Returns (#accepted, TLC states)."""
    strict, replace_all = mode
    events, windows = [], []
    for t in traces:
        windows.append([len(events) + 1, len(events) + len(t)])
        events.extend(t)
    tf = scratch / f"trace_{tag}.json"
    with open(tf, "w") as f:
        json.dump({"ev": events, "win": windows}, f)
    cfg = scratch / f"trace_{tag}.cfg"
    cfg.write_text(TRACE_CFG.format(
        strict=_tf(strict), replace_all=_tf(replace_all),
        lvals=",".join(str(i) for i in range(1, nvals + 1))))
    res = run_tlc("TraceOrderedSamples", str(cfg), workers=NCPU, metadir=scratch / f"mt_{tag}",
                  env={"TRACE_FILE": str(tf)}, collect_prefix="TR", timeout=1800)
    if not res.ok:
        raise MachineryError(f"trace validation failed to run: {res.error}\n"
                             + "\n".join(res.stdout.splitlines()[-30:]))
    done = set()
    for r in res.printed:
        if r["k"] == "done":
            done.add(r["tid"])
        elif r["k"] == "P":
            verdict.violation(
                r["c"], f"clause {r['c']} fails at event {r['l']} of random trace",
                {"mode": mode, "trace": traces[r["tid"] - 1][: r["l"] - windows[r["tid"] - 1][0] + 1]})
        elif r["k"] == "M":
            verdict.mismatch(f"trace {tag}/{r['tid']} event {r['l']}: {r['c']}")
    if len(done) != len(traces):
        raise MachineryError(f"only {len(done)}/{len(traces)} traces consumed")
    return len(done), res


# ---------------------------------------------------------------------------


def real_store_traces(scratch, tier, seed, v):
    """Both stores of real importance-sampler runs, call by call, as traces of OrderedSamples.tla."""
    import os

    from .nsruns import ins_spec, run_corpus
    from .pack import load_events

    sd = seed * 1000 + 40
    specs = [ins_spec("gauss2", sd + 1, 100), ins_spec("rosen2", sd + 2, 100, strict_threshold=True),
             ins_spec("gauss2", sd + 3, 60, replace_all=True, max_iteration=4),
             ins_spec("gauss4", sd + 4, 80, strict_threshold=True, replace_all=True, max_iteration=4),
             ins_spec("rosen2", sd + 5, 100, draw_constant=False, draw_iid_live=False)]
    if tier == "thorough":
        specs += [ins_spec(m, sd + 10 + i, 100, strict_threshold=st, replace_all=ra, max_iteration=5)
                  for i, (m, st, ra) in enumerate((m, st, ra) for m in ("gauss2", "rosen2", "gauss4")
                                                  for st in (False, True) for ra in (False, True))]
    for s_ in specs:
        s_["extra"] = {"trace_stores": True}
    hs = run_corpus(specs, scratch / "ins")
    by_mode = {}
    n_calls = 0
    for h in hs:
        if h["codes"][-1] != 0:
            v.mismatch(f"real INS run for the store traces did not complete: {h['codes']}")
            continue
        raw = [e for e in load_events([f for f in h["events"] if os.path.exists(f)]) if e["ev"] == "os"]
        for store in ("tr", "iid"):
            evs = [e for e in raw if e["store"] == store]
            if not evs:
                continue
            vals = sorted({x for e in evs for x in e["logL"]} | {x for e in evs for x in e["b"]}
                          | {e["t"] for e in evs if e["t"] is not None})
            rank = {x: i + 1 for i, x in enumerate(vals)}
            ids = {}
            trace = []
            for e in evs:
                for hsh in e["ids"]:
                    ids.setdefault(hsh, len(ids) + 1)
                dense = [ids[hsh] for hsh in e["ids"]]
                trace.append({
                    "op": e["op"], "b": [rank[x] for x in e["b"]], "t": 0 if e["t"] is None else rank[e["t"]],
                    "L": [rank[x] for x in e["logL"]], "ids": dense,
                    "rows": dense if e["rows"] == len(dense) else [],
                    "live": e["live"] or [], "liveNone": e["live"] is None, "nested": e["nested"],
                    "thr": 0 if e["thr"] is None else rank[e["thr"]],
                    "ret": -1 if e["ret"] is None else e["ret"], "content": True})
            n_calls += len(trace)
            mode = (evs[0]["strict"], evs[0]["replace_all"])
            # both stores run in the mode the SAMPLER was configured with
            want = (bool(h["spec"]["kwargs"].get("strict_threshold", False)),
                    bool(h["spec"]["kwargs"].get("replace_all", False)))
            if tuple(map(bool, mode)) != want:
                v.violation("store_mode_differs_from_sampler",
                            f"the {'training' if store == 'tr' else 'independent'} store of a real importance-sampler "
                            f"run works with strict_threshold={mode[0]}, replace_all={mode[1]} although the sampler "
                            f"was configured with strict_threshold={want[0]}, replace_all={want[1]}: with a strict "
                            f"threshold its live set is not exactly the samples at or above the threshold",
                            {"spec": h["spec"], "store": store})
            by_mode.setdefault(mode, []).append((trace, len(vals), h["spec"]))
    n_ok = states = trans = 0
    for mode, items in by_mode.items():
        # ids of a real store are only dense per trace: the trace spec needs ids 1..n in order of insertion
        traces = [t for t, _, _ in items]
        nvals = max(n for _, n, _ in items)
        ok, tres = validate_traces(traces, mode, nvals, scratch, v, f"real_{mode[0]}_{mode[1]}")
        n_ok += ok
        states += tres.distinct
        trans += tres.generated
    v.note(f"real INS stores: {n_ok} store traces ({n_calls} OrderedSamples calls) validated against OrderedSamples.tla")
    from .nsruns import validate_ins

    done = [h for h in hs if h["codes"][-1] == 0]
    if done:
        irecords, _, _ = validate_ins(done, scratch, tag="c04ins")
        for r in irecords:
            if r["k"] == "P" and r["p"] == "C04":
                hh = done[r["h"]]
                v.violation("ins:" + r["c"], f"C04 clause '{r['c']}' fails at event {r['l']} of the real INS run "
                            f"{json.dumps(hh['spec']['kwargs'])[:200]}", {"spec": hh["spec"], "event": r["ev"]})
    return n_ok, n_calls, states, trans


def main(tier: str) -> int:
    seed = seed_from_env()
    v = Verdict(PROP, tier, seed, "model_checking")
    rng = random.Random(seed)
    if tier == "quick":
        bounds = dict(lvals=3, max_batch=2, max_samples=6)
        insts = [0, 1 + seed % (len(INSTANTIATIONS) - 1)]
        n_traces, n_ops, tb = 12, 60, 30
    else:
        bounds = dict(lvals=3, max_batch=3, max_samples=8)
        insts = list(range(len(INSTANTIATIONS)))
        n_traces, n_ops, tb = 24, 100, 40
    states = trans = 0
    stats = {"edges": 0, "tie_order_differs": 0, "kinds": set(), "inst": 0}
    samples = []
    n_traces_ok = 0
    with Scratch("c04-") as scratch:
        for strict in (False, True):
            for replace_all in (False, True):
                mode = (strict, replace_all)
                cfg = scratch / f"os_{strict}_{replace_all}.cfg"
                cfg.write_text(CFG.format(
                    strict=_tf(strict), replace_all=_tf(replace_all),
                    lvals=",".join(str(i) for i in range(1, bounds["lvals"] + 1)),
                    max_batch=bounds["max_batch"], max_samples=bounds["max_samples"], own="TRUE"))
                res = run_tlc("OrderedSamples", str(cfg), metadir=scratch / f"m_{strict}_{replace_all}",
                              collect_prefix="EDGE", timeout=3000)
                require_ok(res, f"OrderedSamples {mode}")
                states += res.distinct
                trans += res.generated
                edges = res.printed
                v.note(f"mode strict={strict} replace_all={replace_all}: "
                       f"{res.distinct} states, {len(edges)} edges, TLC {res.wall_s:.1f}s")
                if len(edges) < res.generated - 1:
                    raise MachineryError("fewer edges exported than transitions")
                for i in insts:
                    stats["inst"] = i
                    replay_edges(edges, mode, INSTANTIATIONS[i], v, stats)
                if not samples:
                    samples.append({"kind": "edge", "mode": mode, "edge": edges[len(edges) // 2]})
                # code -> spec
                traces = []
                for k in range(n_traces):
                    inst = rng.randrange(len(INSTANTIATIONS))
                    try:
                        traces.append(random_trace(rng, mode, n_ops, 5, tb, INSTANTIATIONS[inst]))
                    except StoreFailed as sf:
                        v.violation("exception", f"{sf.what} (random protocol-respecting sequence, mode {mode})",
                                    {"mode": mode, "events": sf.events[-6:], "op": sf.op})
                        if sf.events:
                            traces.append(sf.events)
                if not traces:
                    continue
                ok, tres = validate_traces(traces, mode, 5, scratch, v, f"{strict}_{replace_all}")
                n_traces_ok += ok
                states += tres.distinct
                trans += tres.generated
                if len(samples) < 3:
                    samples.append({"kind": "random trace (first 3 events)", "mode": mode,
                                    "events": traces[0][:3]})
        r_ok, r_calls, r_states, r_trans = real_store_traces(scratch, tier, seed, v)
        # prediction only: with thresholds that are not the likelihood of one of the store's own live samples
        # (what the sampler does to its non-main store) the specification itself shows which clause goes
        hz = scratch / "os_hazard.cfg"
        hz.write_text(CFG.format(strict="FALSE", replace_all="FALSE", lvals="1,2,3", max_batch=2, max_samples=5,
                                 own="FALSE").replace("ACTION_CONSTRAINT ExportEdge\n", ""))
        hres = run_tlc("OrderedSamples", str(hz), metadir=scratch / "m_hazard", timeout=600)
        hazard = hres.error.replace("Error: ", "") if not hres.ok else "none"
        v.note(f"OrderedSamples.tla with foreign thresholds (OwnThreshold = FALSE): {hazard}")
    v.coverage = {
        "states": states + r_states, "transitions": trans + r_trans,
        "traces_validated_against_impl": n_traces_ok + r_ok,
        "real_ins_store_traces": r_ok, "real_ins_store_calls": r_calls,
        "predicted_hazard_with_foreign_thresholds": hazard,
        "edges_replayed_on_real_object": stats["edges"],
        "instantiations": insts,
        "distinct_edge_kinds": len(stats["kinds"]),
        "tie_order_differs_from_stable_sort": stats["tie_order_differs"],
        "exhaustive": True,
        "bounds": bounds,
        "samples": samples,
        "rule": "every edge of the complete state graph of OrderedSamples.tla for the 4 modes "
                "(all histories over batches of <=max_batch values from an alphabet of lvals "
                "likelihoods, <=max_samples stored) replayed on the real OrderedSamples for each "
                "float instantiation; plus random long traces with batches up to "
                f"{tb} validated by TLC",
    }
    v.assumptions = [
        "TLC's fingerprint VIEW ignores which id sits where among tied likelihoods (no action reads ids)",
        "OrderedSamples.finalise is replayed as its two bookkeeping statements (the evidence update needs INS weight fields and is covered by C03/C05)",
    ]
    return v.finish()


if __name__ == "__main__":
    sys.exit(main(sys.argv[1] if len(sys.argv) > 1 else "quick"))
