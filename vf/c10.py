"""C10 — batched, chunked and pooled evaluation equals pointwise evaluation, once.

spec/BatchEval.tla is checked exhaustively by TLC (all configurations, all
orders in which a pool may execute the calls).  Every configuration of the
complete graph is then one test of the real ``batch_evaluate_function`` and of
``Model.batch_evaluate_*`` with a recording function and a deterministic fake
pool that executes the mapped calls in a permuted order; a subset runs with
real fork pools.
"""

from __future__ import annotations

import random
import sys

import numpy as np

from .common import Scratch, Verdict, seed_from_env, MachineryError
from .tlc import run_tlc, require_ok

PROP = "C10"

CFG = """SPECIFICATION Spec
CONSTANTS
  MaxN = {max_n}
  MaxChunk = {max_chunk}
  MaxPool = {max_pool}
INVARIANT Partitioned
INVARIANT ChunkBound
INVARIANT AtMostOnce
INVARIANT Pointwise
INVARIANT CountedOnce
PROPERTY Terminates
ACTION_CONSTRAINT ExportDone
CHECK_DEADLOCK FALSE
"""


class FakePool:
    """Pool.map semantics: results by position, execution in any order."""

    def __init__(self, processes, rng, expose=True):
        if expose:
            self._processes = processes
        self.rng = rng
        self.maps = 0

    def map(self, func, iterable):
        items = list(iterable)
        order = list(range(len(items)))
        self.rng.shuffle(order)
        res = [None] * len(items)
        for i in order:
            res[i] = func(items[i])
        self.maps += 1
        return res

    def close(self):
        pass

    def join(self):
        pass

    def terminate(self):
        pass


def g_ll(xv, yv):
    # exactly rounded: small dyadic rationals, so vectorised == pointwise bitwise
    return -(xv * xv) * 0.5 - (yv * yv) * 0.25 + 0.125 * xv


def make_points(n, rng):
    from nessai.livepoint import numpy_array_to_live_points

    # distinct x: the index is recoverable as round(x * 64) - 1
    a = np.empty((n, 2))
    a[:, 0] = (np.arange(n) + 1) / 64.0
    a[:, 1] = [rng.randrange(-256, 256) / 128.0 for _ in range(n)]
    return numpy_array_to_live_points(a, ["x", "y"])


class Recorder:
    def __init__(self):
        self.calls = []        # list of lists of indices
        self.args = []         # raw argument values (x, y) as seen by the function

    def note(self, x):
        xs = np.atleast_1d(x["x"]).astype(float)
        ys = np.atleast_1d(x["y"]).astype(float)
        self.calls.append([int(round(v * 64)) - 1 for v in xs])
        self.args.append(np.stack([xs, ys], axis=-1))

    def counts(self, n):
        c = [0] * n
        for call in self.calls:
            for i in call:
                if 0 <= i < n:
                    c[i] += 1
        return c


def sections_to_calls(secs):
    return [list(range(lo, hi)) for lo, hi in secs]


def check_direct(cfg, rng, v: Verdict, stats, scalar_return):
    """The real batch_evaluate_function with a recording function."""
    from nessai.utils.multiprocessing import batch_evaluate_function

    n, chunk, npool, vec, pool = (cfg[k] for k in ("n", "chunk", "npool", "vec", "pool"))
    x = make_points(n, rng)
    rec = Recorder()

    def func(z):
        rec.note(z)
        val = g_ll(z["x"], z["y"])
        if vec:
            return np.atleast_1d(val)
        return float(val) if scalar_return else np.atleast_1d(val)

    def wrapper(z):
        return func(z)

    p = FakePool(npool or 1, rng) if pool else None
    expected = g_ll(x["x"], x["y"])
    what = dict(cfg, scalar_return=scalar_return)
    try:
        out = batch_evaluate_function(
            func, x, vec, chunksize=chunk or None, pool=p,
            n_pool=npool or None, func_wrapper=wrapper if pool else None)
    except Exception as ex:
        v.violation("exception", f"batch_evaluate_function raised {type(ex).__name__}: {ex} for {what}",
                    {"config": what})
        return
    stats["direct"] += 1
    out = np.asarray(out)
    if out.shape != (n,) or not np.array_equal(out, expected):
        v.violation("values", f"output differs from pointwise evaluation for {what}",
                    {"config": what, "out": out.tolist(), "expected": expected.tolist()})
    cnt = rec.counts(n)
    if any(c != 1 for c in cnt):
        v.violation("once", f"points evaluated {cnt} times for {what}", {"config": what})
    pred = sections_to_calls(cfg["secs"])
    if sorted(rec.calls) != sorted(pred) or (not pool and rec.calls != pred):
        v.mismatch(f"calls {rec.calls} differ from the specification's {pred} for {what}")


def build_model(vec, rng, scalar_return=True):
    from nessai.model import Model

    rec = Recorder()

    class M(Model):
        def __init__(self):
            self.names = ["x", "y"]
            self.bounds = {"x": [-1.0, 3.0], "y": [-4.0, 4.0]}

        def log_prior(self, z):
            rec_p.note(z)
            val = -0.5 * z["x"] - 0.25 * z["y"]
            return val if vec else (float(val) if np.ndim(val) == 0 else val)

        def log_likelihood(self, z):
            rec.note(z)
            val = g_ll(z["x"], z["y"])
            if vec:
                return val
            return float(val) if (scalar_return and np.ndim(val) == 0) else val

        def from_unit_hypercube(self, z):
            z = z.copy()
            z["x"] = 4.0 * z["x"] - 1.0
            z["y"] = 8.0 * z["y"] - 4.0
            return z

        def to_unit_hypercube(self, z):
            z = z.copy()
            z["x"] = (z["x"] + 1.0) / 4.0
            z["y"] = (z["y"] + 4.0) / 8.0
            return z

    rec_p = Recorder()
    m = M()
    m.vectorised_likelihood = vec
    m.vectorised_prior = vec
    m.vectorised_prior_unit_hypercube = vec
    return m, rec, rec_p


def check_model(cfg, rng, v: Verdict, stats, unit):
    """Model.batch_evaluate_* with a fake pool installed as configure_pool would."""
    from nessai.utils.multiprocessing import initialise_pool_variables

    n, chunk, npool, vec, pool = (cfg[k] for k in ("n", "chunk", "npool", "vec", "pool"))
    m, rec, rec_p = build_model(vec, rng)
    m.likelihood_chunksize = chunk or None
    if pool:
        initialise_pool_variables(m)
        m.configure_pool(pool=FakePool(npool or 1, rng, expose=bool(npool)), n_pool=npool or None)
    phys = make_points(n, rng)
    x = m.to_unit_hypercube(phys) if unit else phys
    # physical points the function must see
    target = m.from_unit_hypercube(x) if unit else phys
    expected = g_ll(target["x"], target["y"])
    what = dict(cfg, unit_hypercube=unit)
    before = m.likelihood_evaluations
    try:
        out = m.batch_evaluate_log_likelihood(x, unit_hypercube=unit)
    except Exception as ex:
        v.violation("exception", f"batch_evaluate_log_likelihood raised {type(ex).__name__}: {ex} for {what}",
                    {"config": what})
        return
    stats["model"] += 1
    delta = m.likelihood_evaluations - before
    if np.asarray(out).shape != (n,) or not np.array_equal(
            np.asarray(out, dtype=float), expected.astype(float)):
        v.violation("values", f"log-likelihood differs from pointwise evaluation for {what}",
                    {"config": what})
    if delta != n:
        v.violation("counter", f"likelihood_evaluations increased by {delta}, batch has {n} points, for {what}",
                    {"config": what})
    seen = np.concatenate(rec.args) if rec.args else np.empty((0, 2))
    want = np.stack([target["x"], target["y"]], axis=-1).astype(float)
    if sorted(map(tuple, seen.tolist())) != sorted(map(tuple, want.tolist())):
        v.violation("argument", f"likelihood not evaluated (once) at the physical points for {what}",
                    {"config": what})
    # the prior through the same machinery (pool only if parallelise_prior)
    for par in (False, True):
        m.parallelise_prior = par
        rec_p.calls.clear()
        rec_p.args.clear()
        try:
            lp = m.batch_evaluate_log_prior(x, unit_hypercube=unit)
            lpu = m.batch_evaluate_log_prior_unit_hypercube(m.to_unit_hypercube(phys))
        except Exception as ex:
            v.violation("exception", f"batch_evaluate_log_prior raised {type(ex).__name__}: {ex} "
                        f"for {what} parallelise_prior={par}", {"config": what, "parallelise_prior": par})
            continue
        stats["prior"] += 1
        exp_lp = -0.5 * target["x"] - 0.25 * target["y"]
        if np.asarray(lp).shape != (n,) or not np.array_equal(np.asarray(lp, float), exp_lp.astype(float)):
            v.violation("values", f"log-prior differs from pointwise evaluation for {what} "
                        f"parallelise_prior={par}", {"config": what, "parallelise_prior": par})
        if np.asarray(lpu).shape != (n,) or not np.all(np.asarray(lpu) == 0.0):
            v.violation("values", f"unit-hypercube log-prior wrong for {what} parallelise_prior={par}",
                        {"config": what, "parallelise_prior": par})
        if m.likelihood_evaluations - before != n:
            v.violation("counter", "prior evaluation changed the likelihood counter", {"config": what})
    m.close_pool()


class PlainModel:
    pass


def check_real_pools(v: Verdict, stats, rng, sizes, ns, chunks):
    """Real fork pools through Model.configure_pool (values and counter only)."""
    import multiprocessing

    from nessai.utils.multiprocessing import initialise_pool_variables

    for k in sizes:
        for vec in (False, True):
            for user in (False, True):
                m, _, _ = build_model(vec, rng)
                if user:
                    initialise_pool_variables(m)
                    p = multiprocessing.get_context("fork").Pool(k)
                    m.configure_pool(pool=p)
                else:
                    m.configure_pool(n_pool=k)
                try:
                    for n in ns:
                        for c in chunks:
                            m.likelihood_chunksize = c
                            x = make_points(n, rng)
                            before = m.likelihood_evaluations
                            what = dict(n=n, chunk=c, npool=k, vec=vec, user_pool=user, real_pool=True)
                            try:
                                out = m.batch_evaluate_log_likelihood(x)
                                m.parallelise_prior = True
                                lp = m.batch_evaluate_log_prior(x)
                            except Exception as ex:
                                v.violation("exception", f"{type(ex).__name__}: {ex} for {what}",
                                            {"config": what})
                                continue
                            stats["real_pool"] += 1
                            if not np.array_equal(np.asarray(out, float), g_ll(x["x"], x["y"])):
                                v.violation("values", f"real pool output differs for {what}", {"config": what})
                            if not np.array_equal(np.asarray(lp, float), -0.5 * x["x"] - 0.25 * x["y"]):
                                v.violation("values", f"real pool prior differs for {what}", {"config": what})
                            if m.likelihood_evaluations - before != n:
                                v.violation("counter", f"counter delta {m.likelihood_evaluations - before} != {n} "
                                            f"for {what}", {"config": what})
                finally:
                    m.close_pool()


def main(tier: str) -> int:
    seed = seed_from_env()
    v = Verdict(PROP, tier, seed, "model_checking")
    rng = random.Random(seed)
    bounds = dict(max_n=8, max_chunk=9, max_pool=4) if tier == "quick" else \
        dict(max_n=12, max_chunk=13, max_pool=5)
    stats = {"direct": 0, "model": 0, "prior": 0, "real_pool": 0}
    with Scratch("c10-") as scratch:
        cfg = scratch / "be.cfg"
        cfg.write_text(CFG.format(**bounds))
        res = run_tlc("BatchEval", str(cfg), metadir=scratch / "m", collect_prefix="CFG", timeout=3000)
        require_ok(res, "BatchEval")
        cfgs = res.printed
        v.note(f"TLC: {res.distinct} states, {res.generated} transitions, {len(cfgs)} configurations")
        # de-duplicate (one line per Split transition = per configuration)
        seen = {}
        for c in cfgs:
            seen[(c["n"], c["chunk"], c["npool"], c["vec"], c["pool"])] = c
        cfgs = list(seen.values())
        # the combination Init excludes (configure_pool turns vectorisation off):
        # run it through the Model interface only
        extra = [dict(n=k, chunk=0, npool=0, vec=True, pool=True, secs=[]) for k in range(bounds["max_n"] + 1)]
        for c in extra:
            for unit in (False, True):
                check_model(c, rng, v, stats, unit)
        for c in cfgs:
            for scalar in (True, False):
                check_direct(c, rng, v, stats, scalar)
            for unit in (False, True):
                check_model(c, rng, v, stats, unit)
        if tier == "quick":
            check_real_pools(v, stats, rng, sizes=[1, 2, 3, 4], ns=[0, 1, 5, 17], chunks=[None, 1, 7, 100])
        else:
            check_real_pools(v, stats, rng, sizes=[1, 2, 3, 4, 5], ns=list(range(0, 24)),
                             chunks=[None] + list(range(1, 26)))
    v.coverage = {
        "states": res.distinct, "transitions": res.generated,
        "traces_validated_against_impl": 0,
        "configurations_replayed": len(cfgs),
        "direct_calls": stats["direct"], "model_calls": stats["model"],
        "prior_calls": stats["prior"], "real_pool_calls": stats["real_pool"],
        "exhaustive": True, "bounds": bounds,
        "samples": [cfgs[len(cfgs) // 3], cfgs[2 * len(cfgs) // 3]],
        "rule": "every configuration (n, chunksize, n_pool, vectorised, pool) of BatchEval.tla's complete "
                "graph; each is run through batch_evaluate_function (scalar- and array-returning functions), "
                "Model.batch_evaluate_log_likelihood/log_prior/log_prior_unit_hypercube (physical and "
                "unit-hypercube mode) with a fake pool executing calls in a random order; real fork pools "
                "for a subset",
    }
    v.assumptions = [
        "multiprocessing.Pool.map returns results in argument order (real pools are exercised, not enumerated)",
        "a user pool whose size cannot be determined and no n_pool: vectorisation is disabled by configure_pool (modelled in Init)",
    ]
    return v.finish()


if __name__ == "__main__":
    sys.exit(main(sys.argv[1] if len(sys.argv) > 1 else "quick"))
