"""Shared driver of the checks that ride on traced real runs of the standard
sampler (C01 C05 C09 C12 C15): exhaustive TLC on NestedSampler.tla, a corpus of
real histories, trace validation, verdicts for ONE property."""

from __future__ import annotations

import json
from pathlib import Path

from .common import Scratch, Verdict, seed_from_env, MachineryError
from .nsruns import run_corpus, validate_standard
from .tlc import run_tlc, require_ok

MODEL_CFG = """SPECIFICATION Spec
CONSTANTS
  NLive = {nlive}
  MaxRank = {maxrank}
  MaxIt = {maxit}
  PoolN = 2
  CapIt = {capit}
  CkptOnTraining = FALSE
  MidIterSignal = FALSE
  MaxStops = {maxstops}
CONSTRAINT Bounded
INVARIANT TypeOK
INVARIANT LiveSize
INVARIANT LiveSorted
INVARIANT LiveNoDup
INVARIANT DeadMonotone
INVARIANT DeadOnce
INVARIANT DeadNotLive
INVARIANT CountsAgree
INVARIANT IntegMatches
INVARIANT Terminal
PROPERTY Idempotent
PROPERTY StopRule
CHECK_DEADLOCK FALSE
"""


def model_check(scratch: Path, tier: str, capit=0):
    b = dict(nlive=3, maxrank=3, maxit=3, maxstops=1, capit=capit) if tier == "quick" else \
        dict(nlive=3, maxrank=4, maxit=3, maxstops=1, capit=capit)
    cfg = scratch / f"ns_model_{capit}.cfg"
    cfg.write_text(MODEL_CFG.format(**b))
    res = run_tlc("NestedSampler", str(cfg), metadir=scratch / f"m_model_{capit}", timeout=3000)
    require_ok(res, "NestedSampler.tla (design configuration)")
    return res, b


INS_MODEL_CFG = """SPECIFICATION Spec
CONSTANTS
  NInit = 3
  NLive = 2
  DrawConstant = {dc}
  Iid = {iid}
  MinIt = {minit}
  MaxIt = 3
  NCrit = 2
  StopAny = {any}
  MaxStops = 1
CONSTRAINT Bounded
INVARIANT Columns
INVARIANT Counts
INVARIANT Levels
INVARIANT DiskLevels
INVARIANT Finalised
PROPERTY StopRule
PROPERTY NoEarlyFinalise
PROPERTY KeepsGoing
PROPERTY Idempotent
CHECK_DEADLOCK FALSE
"""


def ins_model_check(scratch: Path, tier: str):
    states = trans = 0
    n = 0
    for dc in ("FALSE", "TRUE"):
        for iid in ("TRUE", "FALSE"):
            for any_ in ("TRUE", "FALSE"):
                for minit in ((0, 2) if tier != "quick" else (1,)):
                    cfg = scratch / f"ins_model_{n}.cfg"
                    cfg.write_text(INS_MODEL_CFG.format(dc=dc, iid=iid, any=any_, minit=minit))
                    res = run_tlc("ImportanceSampler", str(cfg), metadir=scratch / f"m_ins_{n}", workers=4,
                                  timeout=1200)
                    require_ok(res, f"ImportanceSampler.tla dc={dc} iid={iid} any={any_} minit={minit}")
                    states += res.distinct
                    trans += res.generated
                    n += 1
    return states, trans, n


SCHED_CFG = """SPECIFICATION Spec
CONSTANTS
  Interval = {iv}
  OnIteration = {on}
  CkptOnTraining = {ct}
  MaxIt = {maxit}
  MaxTime = {maxt}
  MaxStep = 2
  MaxStops = 2
CONSTRAINT Bounded
INVARIANT LossBoundIt
INVARIANT LossBoundTime
INVARIANT LastSane
INVARIANT FinalOnDisk
PROPERTY LastMonotone
PROPERTY NoSpuriousWrite
PROPERTY ResumeKeeps
CHECK_DEADLOCK FALSE
"""


def schedule_model_check(scratch: Path, tier: str):
    """Schedule.tla: when checkpoint(periodic, force) writes, under kills, signals and resumes."""
    states = n = 0
    quick = tier == "quick"
    for on in ("TRUE", "FALSE"):
        for ct in (("FALSE",) if quick else ("TRUE", "FALSE")):
            for iv in ((0, 3) if quick else (0, 1, 2, 3, 5)):
                cfg = scratch / f"sched_{n}.cfg"
                cfg.write_text(SCHED_CFG.format(iv=iv, on=on, ct=ct, maxit=5 if quick else 7,
                                                maxt=8 if quick else 11))
                res = run_tlc("Schedule", str(cfg), metadir=scratch / f"m_sched_{n}", workers=4, timeout=1200)
                require_ok(res, f"Schedule.tla on={on} ckpt_on_training={ct} interval={iv}")
                states += res.distinct
                n += 1
    return states, n


def schedule_apalache(scratch: Path):
    """Unbounded safety of Schedule.tla: Apalache discharges the inductive invariant of MC_Schedule.tla for
    all values of the constants (base case, inductive step, invariant => the loss bounds)."""
    import shutil
    import subprocess
    import time

    exe = shutil.which("apalache-mc")
    if exe is None:
        return {"status": "unavailable"}
    d = scratch / "apa_schedule"
    d.mkdir()
    spec_dir = Path(__file__).resolve().parent.parent / "spec"
    shutil.copy(spec_dir / "apalache" / "MC_Schedule.tla", d / "MC_Schedule.tla")   # (EXTENDS Apalache: kept out
    for f in ("Schedule.tla", "ScheduleOps.tla"):                                    #  of the directory SANY walks)
        shutil.copy(spec_dir / f, d / f)
    steps = [("base", ["--init=Init", "--inv=IndInv", "--length=0"]),
             ("step", ["--init=IndInit", "--inv=IndInv", "--length=1"]),
             ("goal", ["--init=IndInit", "--inv=Goal", "--length=0"])]
    out = {"status": "ran", "outcomes": {}}
    t0 = time.time()
    for name, args in steps:
        try:
            p = subprocess.run([exe, "check", "--cinit=ConstInit", *args, f"--out-dir={d / ('out_' + name)}",
                                "MC_Schedule.tla"], cwd=d, capture_output=True, text=True, timeout=900)
            txt = p.stdout + p.stderr
            res = "NoError" if "The outcome is: NoError" in txt else \
                ("Error" if "The outcome is: Error" in txt else "Failed: " + txt[-300:])
        except subprocess.TimeoutExpired:
            res = "Timeout"
        out["outcomes"][name] = res
        if res == "Timeout":
            out["status"] = "timeout"
        elif res != "NoError":
            raise MachineryError(f"Apalache MC_Schedule {name}: {res} (a modelling error in Schedule.tla / its "
                                 "inductive invariant, not a verdict about the code)")
    out["wall_s"] = round(time.time() - t0, 1)
    return out


SIM_CFG = """SPECIFICATION SimSpec
CONSTANTS
  NLive = 10
  MaxRank = 16
  MaxIt = 14
  PoolN = 3
  CapIt = 12
  CkptOnTraining = FALSE
  MidIterSignal = FALSE
  MaxStops = 0
CONSTRAINT SimConstraint
ACTION_CONSTRAINT PrintDone
CHECK_DEADLOCK FALSE
"""


def scripted_specs(scratch: Path, tier: str, seed: int, v=None):
    """Behaviours of SimNestedSampler.tla (tlc -simulate, NLive = 10) as scripted replays."""
    cfg = scratch / "sim.cfg"
    cfg.write_text(SIM_CFG)
    num = 150 if tier == "quick" else 2000
    res = run_tlc("SimNestedSampler", str(cfg), metadir=scratch / "m_sim", workers=1, timeout=1200,
                  simulate=f"num={num}", extra=["-depth", "400", "-seed", str(seed + 1)], collect_prefix="SIM")
    if "Error:" in res.stdout:
        raise MachineryError("SimNestedSampler simulation failed: " + res.error)
    by_script = {}
    for r in res.printed:
        # one replay per distinct sequence of choices up to the first arrival at "done" + 2 run-agains
        core = tuple(tuple(x) for x in r["script"])
        n_again = sum(1 for x in core if x[0] == "again")
        if n_again > 2:
            continue
        key = tuple(x for x in core if x[0] != "again")
        if key not in by_script or n_again > by_script[key][0]:
            by_script[key] = (n_again, r)
    recs = [x[1] for x in by_script.values()]
    recs.sort(key=lambda r: -len(r["script"]))
    limit = 60 if tier == "quick" else 1200
    recs = recs[:limit]
    specs = []
    for i, rec in enumerate(recs):
        specs.append({"kind": "scripted", "model": "script", "seed": seed * 100 + i, "nlive": 10, "kwargs": {},
                      "kills": [], "run_again": 0, "save": None,
                      "extra": {"script": rec, "pool_n": 3, "cap": 12, "max_again": 2}})
    if v is not None:
        v.note(f"SimNestedSampler.tla: {len(res.printed)} completed behaviours simulated, "
               f"{len(specs)} distinct scripts replayed through the real NestedSampler")
    return specs, len(res.printed)


SIM_INS_CFG = """SPECIFICATION SimSpec
CONSTANTS
  NInit = 3
  NLive = 2
  DrawConstant = TRUE
  Iid = FALSE
  MinIt = {minit}
  MaxIt = {maxit}
  NCrit = {ncrit}
  StopAny = {any}
  MaxStops = 0
ACTION_CONSTRAINT SimConstraintA
CHECK_DEADLOCK FALSE
"""


def ins_scripted_specs(scratch: Path, tier: str, seed: int, v=None):
    """Every behaviour of SimImportanceSampler.tla (which criteria are met after each iteration, until the
    loop ends) as a scripted replay through the real ImportanceNestedSampler."""
    import random

    from .nsruns import ins_spec

    rng = random.Random(seed + 77)
    behaviours = []
    n_cfg = 0
    for any_ in (True, False):
        for minit in (0, 2):
            for ncrit, maxit in ((2, 3), (1, 4)) if tier == "quick" else ((2, 4), (1, 5), (3, 3)):
                cfg = scratch / f"sim_ins_{n_cfg}.cfg"
                cfg.write_text(SIM_INS_CFG.format(minit=minit, maxit=maxit, ncrit=ncrit,
                                                  any="TRUE" if any_ else "FALSE"))
                res = run_tlc("SimImportanceSampler", str(cfg), metadir=scratch / f"m_sim_ins_{n_cfg}", workers=1,
                              timeout=1200, collect_prefix="SIM")
                require_ok(res, f"SimImportanceSampler.tla any={any_} minit={minit} ncrit={ncrit}")
                seen = set()
                for r in res.printed:
                    key = json.dumps(r["hist"])
                    if key in seen:
                        continue
                    seen.add(key)
                    behaviours.append({"any": any_, "minit": minit, "maxit": maxit, "ncrit": ncrit,
                                       "met": r["hist"], "it": int(r["it"])})
                n_cfg += 1
    total = len(behaviours)
    rng.shuffle(behaviours)
    # keep the replayed sample balanced over configurations and stop reasons
    limit = 24 if tier == "quick" else 400
    behaviours.sort(key=lambda b: (b["it"] == b["maxit"], len(b["met"])))
    picked = behaviours[:: max(1, len(behaviours) // limit)][:limit]
    names = ["ess", "ratio", "log_dZ", "Z_err", "fractional_error", "ratio_ns"]
    specs = []
    for i, b in enumerate(picked):
        crit = rng.sample(names, b["ncrit"])
        tol = [round(rng.uniform(0.5, 3.0), 2) for _ in crit]
        kw = dict(stopping_criterion=crit if b["ncrit"] > 1 else crit[0],
                  tolerance=tol if b["ncrit"] > 1 else tol[0],
                  check_criteria="any" if b["any"] else "all", max_iteration=b["maxit"],
                  training_config={"max_epochs": 5, "patience": 2})
        if b["minit"]:
            kw["min_iteration"] = b["minit"]
        sp = ins_spec("gauss2", seed * 100 + i, 60, run_again=1, **kw)
        sp["extra"] = {"ins_script": {"met": b["met"], "it": b["it"]}}
        specs.append(sp)
    if v is not None:
        v.note(f"SimImportanceSampler.tla: {n_cfg} configurations, {total} distinct behaviours of the stopping "
               f"rule, {len(specs)} replayed through the real ImportanceNestedSampler")
    return specs, total


def predict_ckpt_on_training(scratch: Path):
    """NestedSampler.tla with CkptOnTraining = TRUE (what the code allows): which invariant goes."""
    cfg = scratch / "ns_ckpt_on_training.cfg"
    cfg.write_text(MODEL_CFG.format(nlive=3, maxrank=3, maxit=3, maxstops=1, capit=0)
                   .replace("CkptOnTraining = FALSE", "CkptOnTraining = TRUE"))
    res = run_tlc("NestedSampler", str(cfg), metadir=scratch / "m_ckpt_on_training", timeout=1200)
    return "holds" if res.ok else res.error.replace("Error: ", "")


def run_property(prop: str, tier: str, specs, *, level="model_checking", crash_is_violation=False, scripted=False,
                 predict_mid_ckpt=False,
                 extra_cov=None, also=(), sig_of=None, capit=0, note="", ins_specs=(), ins_scripted=False,
                 extra_checks=None):
    """Run the corpus, validate, report P-failures of `prop` (and of `also`)."""
    seed = seed_from_env()
    v = Verdict(prop, tier, seed, level)
    with Scratch(prop.lower() + "-") as scratch:
        res, bounds = model_check(scratch, tier, capit)
        v.note(f"NestedSampler.tla: {res.distinct} states, {res.generated} transitions ({res.wall_s:.0f}s)")
        prediction = None
        if predict_mid_ckpt:
            prediction = predict_ckpt_on_training(scratch)
            v.note(f"NestedSampler.tla with checkpoint_on_training inside the critical section + kill: {prediction}")
        sched_states = sched_cfgs = 0
        sched_apa = None
        sched_tlaps = None
        if prop == "C12":
            sched_states, sched_cfgs = schedule_model_check(scratch, tier)
            v.note(f"Schedule.tla: {sched_cfgs} configurations, {sched_states} states")
            sched_apa = schedule_apalache(scratch)
            v.note(f"MC_Schedule.tla (Apalache, inductive invariant for all constants): {sched_apa}")
            from .tlaps import run_tlaps

            sched_tlaps = run_tlaps(scratch)
            v.note(f"TLAPS proofs of ScheduleOps / TrainPolicyOps (spec/proofs): {sched_tlaps}")
        n_scripted = 0
        if scripted:
            sspecs, n_sim = scripted_specs(scratch, tier, seed, v)
            n_scripted = len(sspecs)
            specs = list(specs) + sspecs
        hs = run_corpus(specs, scratch / "runs") if specs else []
        n_replay_ok = 0
        for h in hs:
            if h["spec"]["kind"] != "scripted":
                continue
            import os as _os
            from .pack import load_events as _le

            rp = [e for e in _le([f for f in h["events"] if _os.path.exists(f)]) if e["ev"] == "replay"]
            if not rp:
                continue
            if rp[0]["diffs"] or rp[0]["script_left"]:
                v.mismatch(f"scripted replay: real final state differs from SimNestedSampler.tla in {rp[0]['diffs']} "
                           f"(script entries left: {rp[0]['script_left']})")
            else:
                n_replay_ok += 1
        crashed = [h for h in hs if h["codes"][-1] not in (0,)]
        for h in crashed:
            err = ""
            for f in h["events"]:
                try:
                    err = open(f + ".err").read().strip().splitlines()[-1]
                except OSError:
                    pass
            msg = f"history {json.dumps(h['spec'])[:300]} ended with exit codes {h['codes']}: {err}"
            if crash_is_violation and h["codes"][-1] == 3:      # an exception, not a harness timeout
                v.violation("run_failed", msg, {"spec": h["spec"], "codes": h["codes"], "error": err})
            else:
                v.mismatch("run did not complete: " + msg)
        ins_stats = None
        if ins_specs:
            from .nsruns import validate_ins

            ist, itr, ncfg = ins_model_check(scratch, tier)
            v.note(f"ImportanceSampler.tla: {ncfg} configurations, {ist} states, {itr} transitions")
            n_ins_scripted = n_ins_behaviours = 0
            if ins_scripted:
                isp, n_ins_behaviours = ins_scripted_specs(scratch, tier, seed, v)
                n_ins_scripted = len(isp)
                ins_specs = list(ins_specs) + isp
            ihs = run_corpus(list(ins_specs), scratch / "ins_runs")
            icrashed = [h for h in ihs if h["codes"][-1] != 0]
            for h in icrashed:
                err = ""
                for f in h["events"]:
                    try:
                        err = open(f + ".err").read().strip().splitlines()[-1]
                    except (OSError, IndexError):
                        pass
                msg = f"INS history {json.dumps(h['spec'])[:300]} ended with exit codes {h['codes']}: {err}"
                if crash_is_violation and h["codes"][-1] == 3:
                    v.violation("run_failed", msg, {"spec": h["spec"], "codes": h["codes"], "error": err})
                else:
                    v.mismatch("run did not complete: " + msg)
            irecords, ins_stats, ipacked = validate_ins(ihs, scratch)
            # spec -> code: the scripted behaviours of the stopping rule end where the specification says
            n_ins_replay_ok = 0
            for hi, evs_ in enumerate(ipacked):
                for e_ in evs_:
                    if e_["ev"] != "ins_replay":
                        continue
                    good = (e_["iterations"] == e_["expected_it"] and e_["overrun"] == 0 and e_["finalised"]
                            and e_["calls"] == e_["expected_it"])
                    if good:
                        n_ins_replay_ok += 1
                    elif prop == "C15" or "C15" in also:
                        h = ihs[hi]
                        v.violation("ins_scripted_stop",
                                    f"C15 scripted replay of SimImportanceSampler.tla: the specification's loop ends "
                                    f"after {e_['expected_it']} iterations, the real ImportanceNestedSampler ran "
                                    f"{e_['iterations']} (criterion calls {e_['calls']}, beyond the script "
                                    f"{e_['overrun']}, finalised={e_['finalised']}) with "
                                    f"{json.dumps(h['spec']['kwargs'])[:300]} script={json.dumps(h['spec']['extra'])}",
                                    {"spec": h["spec"], "codes": h["codes"], "replay_event": e_})
            ins_stats.update(ins_scripted_behaviours=n_ins_behaviours, ins_scripted_replayed=n_ins_scripted,
                             ins_scripted_equal_to_spec=n_ins_replay_ok)
            ins_stats.update(model_states=ist, model_transitions=itr, histories=len(ihs),
                             histories_not_completed=len(icrashed),
                             processes=sum(len(h["codes"]) for h in ihs))
            for r in irecords:
                if r["k"] == "M":
                    v.mismatch(f"INS history {r['h']} event {r['l']}: {r['c']}")
                elif r["p"] in {prop, *also}:
                    if "within eps of the unit-hypercube boundary" in r["c"]:
                        sig = "ins_density_at_clipped_boundary"
                    else:
                        sig = sig_of(r) if sig_of else "ins:" + r["c"]
                    h = ihs[r["h"]]
                    v.violation(sig, f"{r['p']} clause '{r['c']}' fails at event {r['l']} "
                                f"({r['ev']['ev'] if r['ev'] else '?'}) of INS history {r['h']} "
                                f"(model={h['spec']['model']} seed={h['spec']['seed']} kwargs={json.dumps(h['spec']['kwargs'])[:200]})",
                                {"spec": h["spec"], "codes": h["codes"], "event_index": r["l"], "clause": r["c"],
                                 "event": r["ev"]})
        if specs:
            records, stats, packed = validate_standard(hs, scratch)
        else:
            records, stats, packed = [], {k: 0 for k in ("states", "transitions", "events", "iterations",
                                                         "populations", "checkpoints", "resumes",
                                                         "tie_iterations")}, [[]]
            stats["iterations"] = ins_stats["iterations"] if ins_stats else 0
        from .nsruns import validate_trainings

        tmis, n_trainings, tstates = validate_trainings(list(hs) + (list(ihs) if ins_specs else []), scratch)
        for t in tmis:
            v.mismatch(t)
        if stats["iterations"] == 0:
            raise MachineryError("no run of the corpus produced an iteration: " + (crashed[0]["dir"] if crashed else ""))
        all_failed = bool(hs) and len(crashed) == len(hs) and all(h["codes"][-1] == 3 for h in hs)
        props = {prop, *also}
        nP = 0
        # histories resumed from a checkpoint that checkpoint_on_training wrote INSIDE the critical section
        mid_resumed = {}
        for hi, evs_ in enumerate(packed):
            for li, e_ in enumerate(evs_):
                if e_["ev"] == "resume" and e_.get("from_mid_ckpt"):
                    mid_resumed.setdefault(hi, li)
        for r in records:
            if r["k"] == "M":
                v.mismatch(f"history {r['h']} event {r['l']}: {r['c']}")
            elif r["p"] in props:
                nP += 1
                sig = sig_of(r) if sig_of else r["c"].split(":")[0]
                # (what the mid-iteration pickle explains is the double counting AFTER the resume, not a restored
                #  state that differs from the pickled one)
                if r["h"] in mid_resumed and r["l"] >= mid_resumed[r["h"]] and r["p"] in ("C01", "C02", "C05", "C12") \
                        and not r["c"].startswith(("restored", "started_afresh", "resumed_from_a_checkpoint")):
                    sig = "resumed_from_checkpoint_on_training_inside_iteration"
                h = hs[r["h"]]
                v.violation(sig, f"{r['p']} clause '{r['c']}' fails at event {r['l']} "
                            f"({r['ev']['ev'] if r['ev'] else '?'}) of history {r['h']} "
                            f"(model={h['spec']['model']} seed={h['spec']['seed']} nlive={h['spec']['nlive']})",
                            {"spec": h["spec"], "codes": h["codes"], "event_index": r["l"], "clause": r["c"],
                             "event": r["ev"],
                             "trace_prefix": packed[r["h"]][max(0, r["l"] - 2): r["l"] + 1]})
        if all_failed and not v.violations and not v.known_hits:
            # cannot happen on a tree where the corpus completes: every run raised an exception
            v.violation("all_runs_failed", "every run of the corpus raised an exception before completing",
                        {"specs": [h["spec"] for h in hs[:3]]})
        sample_h = packed[0] if packed else []
        it_ev = [e for e in sample_h if e["ev"] == "iter"]
        if ins_stats:
            iit = [e for e in ipacked[0] if e["ev"] == "ins_iter"]
        v.coverage = {
            "states": res.distinct + stats["states"] + (ins_stats["states"] + ins_stats["model_states"] if ins_stats else 0),
            "transitions": res.generated + stats["transitions"]
            + (ins_stats["transitions"] + ins_stats["model_transitions"] if ins_stats else 0),
            "traces_validated_against_impl": len(hs) + (ins_stats["histories"] if ins_stats else 0),
            "model_states": res.distinct, "model_bounds": bounds,
            "histories": len(hs), "processes": sum(len(h["codes"]) for h in hs),
            "flow_trainings_validated": n_trainings,
            "train_policy_calls_validated": sum(1 for p_ in packed for e_ in p_ if e_["ev"] in ("train_check", "train_call")),
            "trainings_with_reset": sum(1 for p_ in packed for e_ in p_
                                        if e_["ev"] == "train_call" and (e_.get("reset_w") or e_.get("reset_p"))),
            "schedule_model": {"configurations": sched_cfgs, "states": sched_states, "apalache_unbounded": sched_apa,
                               "tlaps": sched_tlaps},
            "checkpoint_calls_validated": sum(1 for p_ in packed for e_ in p_ if e_["ev"] == "ckpt_call")
            + (sum(1 for p_ in ipacked for e_ in p_ if e_["ev"] == "ckpt_call") if ins_stats else 0),
            "spec_prediction_checkpoint_on_training": prediction,
            "scripted_behaviours_replayed": n_scripted, "scripted_replays_equal_to_spec": n_replay_ok,
            "histories_not_completed": len(crashed),
            **{k: stats.get(k, 0) for k in ("events", "iterations", "populations", "population_batches_hooked",
                                            "pools_hooked", "checkpoints", "resumes", "tie_iterations")},
            "samples": ([{"spec": hs[0]["spec"], "first_iteration_event": it_ev[0] if it_ev else None}] if hs else [])
            + ([{"ins_spec": ihs[0]["spec"], "first_ins_iteration_event": iit[0] if iit else None}] if ins_stats else []),
            "importance_sampler": ins_stats,
            "rule": "exhaustive TLC on NestedSampler.tla (design configuration) + real observed runs; every "
                    "event of every history is a step of TraceNestedSampler.tla and the property's clauses are "
                    "evaluated by TLC on each logged state. " + note,
            "exhaustive": False,
        }
        if extra_cov:
            v.coverage.update(extra_cov(hs, packed, records))
        if extra_checks:
            v.coverage.update(extra_checks(v, scratch, tier, seed) or {})
    v.assumptions = [
        "point identity = 64-bit digest of parameters, logP and logL; likelihoods compared through dense ranks",
        "numeric equalities (stored logL/logP vs model, recomputed evidence) are evaluated by vf/oracle.py at 1e-9",
    ]
    return v.finish()
