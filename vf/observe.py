"""Observers installed from outside on the real samplers.

Each observer wraps a public method at class level (in the process that runs
the sampler), calls the original and then appends one event with the action
name, its arguments and the projected state to an ndjson file.  In this
sequential library the linearisation point of an action is the return of the
public call.  Raw events carry 64-bit point digests and float likelihoods; the
packer (vf/pack.py) turns them into dense ids and ranks for TLC.
"""

from __future__ import annotations

import json
import math
import os

import numpy as np

from .oracle import indep_in_bounds


class Emitter:
    def __init__(self, path: str, proc: int):
        self.path = path
        self.proc = proc
        self.seq = 0
        self.f = open(path, "a", buffering=1)
        self.enabled = True

    def emit(self, ev: str, **fields):
        if not self.enabled:
            return
        self.seq += 1
        rec = {"ev": ev, "proc": self.proc, "seq": self.seq}
        rec.update(fields)
        self.f.write(json.dumps(rec, default=_default) + "\n")
        self.f.flush()
        os.fsync(self.f.fileno())


def _default(o):
    if isinstance(o, (np.integer,)):
        return int(o)
    if isinstance(o, (np.floating,)):
        return float(o)
    if isinstance(o, np.bool_):
        return bool(o)
    if isinstance(o, np.ndarray):
        return o.tolist()
    return str(o)


def pids(arr, names):
    """64-bit digests identifying points by parameters, logP and logL (not `it`)."""
    arr = np.atleast_1d(arr)
    cols = np.empty((arr.size, len(names) + 2), dtype=np.float64)
    for j, n in enumerate(names):
        cols[:, j] = arr[n]
    cols[:, -2] = arr["logP"]
    cols[:, -1] = arr["logL"]
    return [hash(cols[i].tobytes()) & 0x3FFFFFFFFFFFFFFF for i in range(arr.size)]


def fl(x):
    """float for json (nan/inf survive Python's json)"""
    return float(x)


class StandardObserver:
    """Observes a NestedSampler run (C01 C05 C09 C12 C13 C15)."""

    def __init__(self, em: Emitter, model, kill_at_eval=None, check_pool_values=True):
        self.em = em
        self.model = model
        self.names = list(model.names)
        self.kill_at_eval = kill_at_eval
        self.check_pool_values = check_pool_values
        self.draws = []          # draws since the last iteration boundary
        self.evals_here = 0      # likelihood evaluations made by this process
        self.outside_calls = 0   # likelihood calls on points outside the support
        self.in_observer = False
        self.ns = None
        self.t_loop = None
        self.pending_finalise = None
        self.in_consume = False
        self.kill_after_mid_ckpt = False
        self.kill_after_stale_ckpt = False
        self.cond_by_it = {}     # iteration -> condition value compared by the loop guard
        self.ckpt_entry = None
        self.ckpt_wrote = False
        self.excluded = 0.0      # seconds spent inside checkpoint() calls that wrote a file

    # ------------------------------------------------------------------
    def live_state(self, ns):
        lp = ns.live_points
        if lp is None:
            return None
        return {"ids": pids(lp, self.names), "logL": [fl(v) for v in lp["logL"]],
                "it_sum": int(np.sum(lp["it"]))}

    def counts(self, ns):
        st = ns.state
        return {
            "it": int(ns.iteration),
            "n_dead": len(ns.nested_samples),
            "n_integ": len(st.logLs) - 1,
            "n_vols": len(st.log_vols) - 1,
            "n_nlive": len(st.nlive),
            "n_ins": len(ns.insertion_indices),
            "evals": int(ns.model.likelihood_evaluations),
            "evals_here": int(self.evals_here),
            "st": float(ns.sampling_time.total_seconds()),
            "el": self.elapsed(),
            "fin": bool(ns.finalised),
            "train": int(getattr(ns._flow_proposal, "training_count", 0)),
            "nckpt": len(ns.history["checkpoint_iterations"]) if ns.history else 0,
            "last_train": int(ns.last_updated) if ns.history else 0,
            "n_hist": len(ns.history["iterations"]) if ns.history else 0,
            "cooldown": int(ns.cooldown), "train_on_empty": bool(ns.train_on_empty),
            "max_uninformed": int(min(ns.maximum_uninformed, 2 ** 30)),
            "poolsize": int(getattr(ns._flow_proposal, "poolsize", 0) or 0),
            "phase": ("none" if getattr(ns, "proposal", None) is None else
                      "uninformed" if ns.proposal is ns._uninformed_proposal else "flow"),
            "sched": repr(getattr(ns, "_last_checkpoint", None)),
            "prior_sampling": bool(getattr(ns, "prior_sampling", False)),
        }

    counts_resume = counts

    @staticmethod
    def pool_flags(ns):
        """(usable, stale): the flow proposal's pool is usable iff it is flagged populated and has indices left;
        stale = indices left over although the pool was invalidated (a training happened)."""
        fp = getattr(ns, "_flow_proposal", None)
        if fp is None:
            return False, False
        idx = bool(getattr(fp, "indices", None))
        pop = bool(getattr(fp, "populated", False))
        return bool(pop and idx), bool(idx and not pop)

    def elapsed(self):
        import datetime as _dt

        if self.t_loop is None:
            return -1.0
        ref = self.ckpt_entry if self.ckpt_entry is not None else _dt.datetime.now()
        return float((ref - self.t_loop).total_seconds() - self.excluded)

    def tails(self, ns):
        st = ns.state
        d = {}
        if len(ns.nested_samples):
            w = ns.nested_samples[-1]
            d["dead_last"] = {"id": pids(w, self.names)[0], "logL": fl(w["logL"])}
        if st.nlive:
            d["integ_last"] = [fl(st.logLs[-1]), int(st.nlive[-1])]
        if ns.insertion_indices:
            d["ins_last"] = int(ns.insertion_indices[-1])
        return d

    def point_facts(self, p):
        """(prior finite, in bounds, stored logP == model, stored logL == model)"""
        self.in_observer = True
        try:
            p1 = np.atleast_1d(p)
            inb = bool(np.all(indep_in_bounds(self.model, p1)))
            lp = float(np.atleast_1d(self.model.log_prior(p1))[0])
            ll = float(np.atleast_1d(self.model.log_likelihood(p1))[0]) if inb and math.isfinite(lp) else float("nan")
        finally:
            self.in_observer = False
        return {
            "prior_finite": bool(math.isfinite(float(p1["logP"][0]))),
            "in_bounds": inb,
            "logP_ok": _same(float(p1["logP"][0]), lp),
            "logL_ok": _same(float(p1["logL"][0]), ll),
        }

    # ------------------------------------------------------------------
    def install(self):
        from nessai.samplers.nestedsampler import NestedSampler
        from nessai.samplers import base as sbase
        from nessai.model import Model
        from nessai.proposal.analytic import AnalyticProposal
        from nessai.proposal.flowproposal import FlowProposal
        from nessai.proposal.rejection import RejectionProposal

        obs = self

        # --- guarded hooks inside the population loops (NESSAI_VERIF=1)
        try:
            from nessai import _verif

            if _verif.ENABLED:
                _verif.set_callback(obs.on_verif)
        except ImportError:
            pass

        # --- iteration boundary
        orig_consume = NestedSampler.consume_sample

        def consume_sample(ns):
            obs.ns = ns
            it0 = int(ns.iteration)
            tol = float(ns.tolerance)
            cond_before = float(ns.condition)
            obs.in_consume = True
            try:
                r = orig_consume(ns)
            finally:
                obs.in_consume = False
            obs.emit_iter(ns, it0, cond_before, tol)
            return r

        NestedSampler.consume_sample = consume_sample

        orig_populate_live = NestedSampler.populate_live_points

        def populate_live_points(ns):
            obs.ns = ns
            r = orig_populate_live(ns)
            lp = ns.live_points
            facts = [obs.point_facts(lp[i:i + 1]) for i in range(lp.size)]
            obs.em.emit("init", nlive=int(ns.nlive), live=obs.live_state(ns),
                        all_ok=bool(all(f["prior_finite"] and f["in_bounds"] and f["logP_ok"] and f["logL_ok"]
                                        for f in facts)),
                        it_zero=bool(np.all(lp["it"] == 0)),
                        draws=obs.take_draws(), **obs.counts(ns))
            return r

        NestedSampler.populate_live_points = populate_live_points

        orig_finalise = NestedSampler.finalise

        def emit_finalise(ns):
            pre_live = obs.pending_finalise
            obs.pending_finalise = None
            n = len(pre_live["ids"]) if pre_live else 0
            dead = np.array(ns.nested_samples[-n:]) if n else np.empty(0)
            obs.em.emit("finalise", pre_live=pre_live,
                        dead_tail={"ids": pids(dead, obs.names) if n else [],
                                   "logL": [fl(v) for v in dead["logL"]] if n else []},
                        integ_tail=[[fl(a), int(b)] for a, b in
                                    zip(ns.state.logLs[len(ns.state.logLs) - n:], ns.state.nlive[len(ns.state.nlive) - n:])] if n else [],
                        live_none=ns.live_points is None, **obs.counts(ns))

        def finalise(ns):
            # the event is emitted when finalise has consumed the live points and
            # calls update_state(force=True) (which may checkpoint), i.e. in code order
            obs.ns = ns
            obs.pending_finalise = obs.live_state(ns)
            r = orig_finalise(ns)
            if obs.pending_finalise is not None:
                emit_finalise(ns)
            return r

        NestedSampler.finalise = finalise

        orig_update_state = NestedSampler.update_state

        def update_state(ns, force=False):
            if force and obs.pending_finalise is not None and ns.live_points is None:
                emit_finalise(ns)
            return orig_update_state(ns, force=force)

        NestedSampler.update_state = update_state

        # --- checkpoint(): time spent writing is not sampling time; one ckpt_call event per call (Schedule.tla)
        wrap_checkpoint(obs)

        # --- timing (C12): wall clock since this process entered the loop
        orig_loop = NestedSampler.nested_sampling_loop

        def nested_sampling_loop(ns):
            import datetime as _dt

            obs.ns = ns
            if obs.t_loop is None:
                obs.t_loop = _dt.datetime.now()
            return orig_loop(ns)

        NestedSampler.nested_sampling_loop = nested_sampling_loop

        # --- loop control (C15): the value compared and what the loop does
        orig_check_state = NestedSampler.check_state

        def check_state(ns, *a, **k):
            # called at the top of each loop body (and inside consume_sample)
            return orig_check_state(ns, *a, **k)

        NestedSampler.check_state = check_state

        # --- training policy (TrainPolicy.tla): the decision and what train_proposal does with it
        orig_check_training = NestedSampler.check_training
        orig_train_proposal = NestedSampler.train_proposal

        def _int_or(v, default=-1):
            try:
                f = float(v)
            except (TypeError, ValueError):
                return default
            return int(f) if math.isfinite(f) and f == int(f) and abs(f) < 2 ** 30 else default

        def check_training(ns):
            pre = None
            try:
                pre = dict(completed=bool(ns.completed_training), populated=bool(ns.proposal.populated),
                           train_on_empty=bool(ns.train_on_empty), populating=bool(ns.proposal.populating),
                           acc_low=bool(ns.mean_block_acceptance < ns.acceptance_threshold),
                           retrain_acc=bool(ns.retrain_acceptance), it=int(ns.iteration), last=int(ns.last_updated),
                           freq=_int_or(ns.training_frequency))
            except Exception:  # noqa
                pre = None
            r = orig_check_training(ns)
            if pre is not None:
                try:
                    obs.em.emit("train_check", train=bool(r[0]), force=bool(r[1]), **pre)
                except Exception:  # noqa
                    pass
            return r

        def train_proposal(ns, force=False):
            rec = {"reset": None, "data_n": -1}
            prop = ns.proposal
            pre = None
            try:
                pre = dict(force=bool(force), it=int(ns.iteration), last=int(ns.last_updated), cooldown=int(ns.cooldown),
                           tc=int(getattr(prop, "training_count", 0)), reset_acc=bool(ns.reset_acceptance),
                           acc_low=bool(ns.mean_block_acceptance < ns.acceptance_threshold),
                           rw=_int_or(ns.reset_weights), rp=_int_or(ns.reset_permutations),
                           n_live=int(ns.live_points.size), n_dead=len(ns.nested_samples),
                           memory=_int_or(ns.memory, 0) if ns.memory else 0)
            except Exception:  # noqa
                pre = None
            obs._tp_rec = rec
            try:
                return orig_train_proposal(ns, force=force)
            finally:
                obs._tp_rec = None
                if pre is not None and pre["rw"] >= 0 and pre["rp"] >= 0:
                    try:
                        obs.em.emit("train_call", trained=bool(rec["data_n"] >= 0),
                                    reset_w=bool(rec["reset"][0]) if rec["reset"] else False,
                                    reset_p=bool(rec["reset"][1]) if rec["reset"] else False,
                                    data_n=int(rec["data_n"]), **pre)
                    except Exception:  # noqa
                        pass

        # (class-level wrappers: nothing is attached to the instances, which are pickled inside train_proposal
        #  when checkpoint_on_training is set)
        obs._tp_rec = None
        for cls in {FlowProposal} | _subclasses(FlowProposal):
            if "reset_model_weights" in cls.__dict__:
                def _mk_reset(orig):
                    def reset_model_weights(prop, *a, **k):
                        if obs._tp_rec is not None:
                            w = k.get("weights", a[0] if a else True)
                            p_ = k.get("permutations", a[1] if len(a) > 1 else False)
                            obs._tp_rec["reset"] = (bool(w), bool(p_))
                        return orig(prop, *a, **k)
                    return reset_model_weights
                cls.reset_model_weights = _mk_reset(cls.__dict__["reset_model_weights"])
            if "train" in cls.__dict__:
                def _mk_train(orig):
                    def train(prop, data, *a, **k):
                        if obs._tp_rec is not None and obs._tp_rec["data_n"] < 0:
                            obs._tp_rec["data_n"] = int(len(data))
                        return orig(prop, data, *a, **k)
                    return train
                cls.train = _mk_train(cls.__dict__["train"])

        NestedSampler.check_training = check_training
        NestedSampler.train_proposal = train_proposal

        # --- C12: what check_resume makes of the restored pool
        orig_check_resume = NestedSampler.check_resume

        def check_resume(ns):
            was = bool(getattr(ns, "resumed", False))
            r = orig_check_resume(ns)
            if was:
                eff, stale = obs.pool_flags(ns)
                obs.em.emit("resume_checked", pool_eff=eff, pool_stale=stale, **obs.counts(ns))
            return r

        NestedSampler.check_resume = check_resume

        # --- draws
        for cls in {AnalyticProposal, RejectionProposal, FlowProposal} | _subclasses(FlowProposal):
            if "draw" in cls.__dict__:
                _wrap_draw(cls, obs)
            if "populate" in cls.__dict__:
                _wrap_populate(cls, obs)

        self.install_model_hooks()

        # --- checkpoints actually written
        orig_dump = sbase.safe_file_dump

        def safe_file_dump(obj, filename, *a, **k):
            r = orig_dump(obj, filename, *a, **k)
            obs.ckpt_wrote = True
            if obs.ns is not None and obj is obs.ns:
                mid = bool(getattr(obs, "in_consume", False))
                eff, stale = obs.pool_flags(obj)
                obs.em.emit("ckpt", digest=obs.deep_digest(obj), live=obs.live_state(obj), mid=mid,
                            pool_eff=eff, pool_stale=stale, **obs.tails(obj), **obs.counts(obj))
                if (mid and obs.kill_after_mid_ckpt) or (stale and not mid and obs.kill_after_stale_ckpt):
                    obs.em.emit("kill", evals_here=obs.evals_here, evals=int(obs.model.likelihood_evaluations))
                    os._exit(137)
            return r

        sbase.safe_file_dump = safe_file_dump

    def install_training_hooks(self):
        """One event per flow training: validation losses, stopping, which weights are kept (Training.tla)."""
        from nessai.flowmodel.base import FlowModel

        obs = self
        orig_validate = FlowModel._validate
        orig_train = FlowModel.train

        def _validate(fm, *a, **k):
            r = orig_validate(fm, *a, **k)
            rec = getattr(fm, "_vf_train", None)
            if rec is not None:
                rec["losses"].append(float(r))
                rec["digests"].append(state_digest(fm.model))
            return r

        def train(fm, *a, **k):
            fm._vf_train = {"losses": [], "digests": []}
            try:
                return orig_train(fm, *a, **k)
            finally:
                rec = fm.__dict__.pop("_vf_train", None)
                if rec and rec["losses"]:
                    tc = fm.training_config
                    final = state_digest(fm.model)
                    restored = max([i + 1 for i, d in enumerate(rec["digests"]) if d == final] or [0])
                    vals = sorted(set(x for x in rec["losses"] if x == x))
                    rank = {x: i + 1 for i, x in enumerate(vals)}
                    obs.em.emit("train", losses=[rank.get(x, 0) for x in rec["losses"]],
                                max_epochs=int(k.get("max_epochs") or tc["max_epochs"]),
                                patience=int(k.get("patience") or tc["patience"]),
                                validate=bool((k.get("val_size") if k.get("val_size") is not None
                                               else tc["val_size"]) != 0.0),
                                restored=int(restored))

        FlowModel._validate = _validate
        FlowModel.train = train

    def install_model_hooks(self):
        from nessai.model import Model

        obs = self
        obs.install_training_hooks()
        # --- likelihood calls (support check, evaluation counting, kill injection)
        orig_batch = Model.batch_evaluate_log_likelihood

        def batch_evaluate_log_likelihood(m, x, *a, **k):
            if not obs.in_observer:
                obs.note_likelihood_args(m, x, k.get("unit_hypercube", a[0] if a else False))
            r = orig_batch(m, x, *a, **k)
            if not obs.in_observer:
                obs.after_evals(np.atleast_1d(x).size)
            return r

        Model.batch_evaluate_log_likelihood = batch_evaluate_log_likelihood

        orig_eval = Model.evaluate_log_likelihood

        def evaluate_log_likelihood(m, x):
            if not obs.in_observer:
                obs.note_likelihood_args(m, x, False)
            r = orig_eval(m, x)
            if not obs.in_observer:
                obs.after_evals(np.atleast_1d(x).size)
            return r

        Model.evaluate_log_likelihood = evaluate_log_likelihood


    # ------------------------------------------------------------------
    def on_verif(self, name, d):
        """Projection of the rejection-sampling batches exposed by the guarded hooks (C09)."""
        def rows(a):
            a = np.atleast_1d(a)
            return [hash(a[i:i + 1].tobytes()) for i in range(a.size)]

        if name == "populate_batch":
            lw, lu, acc = np.asarray(d["log_w"], float), np.asarray(d["log_u"], float), np.asarray(d["accept"], bool)
            with np.errstate(invalid="ignore"):
                rule = lw > lu
            ev = {"mode": d["mode"], "n": int(lw.size), "n_acc": int(acc.sum()),
                  "mask_ok": bool(acc.shape == rule.shape and np.array_equal(acc, rule)),
                  "norm_ok": _norm_ok(lw),
                  "n_target": int(d["n_target"])}
            if d["mode"] == "batch":
                ev["n_before"] = int(d["n_before"])
                if ev["n_before"] == 0:
                    self._pool_acc = []
                self._pool_acc = getattr(self, "_pool_acc", []) + rows(np.asarray(d["x"])[acc])
            self.em.emit("pbatch", **ev)
        elif name == "populate_pool":
            x = np.asarray(d["x"])
            got = rows(x)
            if d["accumulate"]:
                want = rows(np.asarray(d["accepted"]))[: int(d["n_target"])]
            else:
                want = getattr(self, "_pool_acc", [])[: int(d["n_target"])]
                self._pool_acc = []
            self.em.emit("ppool", n=int(x.size), n_target=int(d["n_target"]), accumulate=bool(d["accumulate"]),
                         prefix_ok=bool(got == want), n_proposed=int(d["n_proposed"]),
                         max_samples=int(d["max_samples"]))
        elif name == "rejection_batch":
            lw, lu = np.asarray(d["log_w"], float), np.asarray(d["log_u"], float)
            with np.errstate(invalid="ignore"):
                rule = np.where((lw - lu) >= 0)[0]
            self.em.emit("pbatch", mode="single", n=int(lw.size), n_acc=int(len(d["indices"])),
                         mask_ok=bool(np.array_equal(np.asarray(d["indices"]), rule)),
                         norm_ok=_norm_ok(lw), n_target=int(d["n_target"]))

    # ------------------------------------------------------------------
    def take_draws(self):
        d, self.draws = self.draws, []
        return d

    def emit_iter(self, ns, it0, cond_before, tol):
        self.cond_by_it[int(ns.iteration)] = float(ns.condition)
        idx = int(ns.insertion_indices[-1]) if ns.insertion_indices else -1
        new = ns.live_points[idx:idx + 1] if idx >= 0 else None
        worst = ns.nested_samples[-1]
        st = ns.state
        facts = self.point_facts(new) if new is not None else {}
        self.em.emit(
            "iter", it0=it0, live=self.live_state(ns),
            worst={"id": pids(worst, self.names)[0], "logL": fl(worst["logL"]), "it": int(worst["it"])},
            new={"id": pids(new, self.names)[0], "logL": fl(new["logL"][0]), "it": int(new["it"][0]), **facts},
            lmin=fl(ns.logLmin), lmax=fl(ns.logLmax),
            integ_last=[fl(st.logLs[-1]), int(st.nlive[-1])] if st.nlive else None,
            ins_last=idx, cond=fl(ns.condition), cond_before=fl(cond_before), tol=tol,
            above=bool(ns.condition > ns.tolerance),
            draws=self.take_draws(),
            pool_left=len(ns.proposal.indices), populated=bool(ns.proposal.populated),
            **self.counts(ns),
        )

    def note_likelihood_args(self, m, x, unit):
        self.in_observer = True
        try:
            x1 = np.atleast_1d(x)
            if unit:
                x1 = m.from_unit_hypercube(x1)
            if x1.size:
                inb = indep_in_bounds(m, x1)
                lp = np.atleast_1d(m.log_prior(x1))
                bad = int(np.sum(~inb | ~np.isfinite(lp)))
                if bad:
                    self.outside_calls += bad
                    self.em.emit("ll_outside", n=bad)
        finally:
            self.in_observer = False

    def after_evals(self, n):
        self.evals_here += int(n)
        sae = getattr(self, "signal_at_eval", None)
        if sae and not getattr(self, "_signal_sent", False) and self.evals_here >= int(sae[0]):
            # a termination signal delivered while a likelihood call returns (inside a pool population when
            # the sampler is in its flow phase): the installed handler is called as the interpreter would
            import signal as _signal

            self._signal_sent = True
            signum = int(sae[1])
            fp = getattr(self.ns, "_flow_proposal", None) if self.ns is not None else None
            self.em.emit("signal", signum=signum, at_eval=int(self.evals_here), idx=-1, file="<likelihood>", lineno=0,
                         func="log_likelihood", region="population" if getattr(fp, "populating", False) else "other",
                         populating=bool(getattr(fp, "populating", False)))
            _signal.getsignal(signum)(signum, None)
        if self.kill_at_eval is not None and self.evals_here >= self.kill_at_eval:
            self.em.emit("kill", evals_here=self.evals_here,
                         evals=int(self.model.likelihood_evaluations))
            os._exit(137)

    def deep_digest(self, ns):
        """Digest of everything result-bearing in the sampler (C12)."""
        from .common import digest31

        parts = {}
        parts["it"] = int(ns.iteration)
        lp = ns.live_points
        parts["live"] = None if lp is None else digest31(lp.tobytes())
        parts["dead"] = digest31(np.array(ns.nested_samples).tobytes()) if len(ns.nested_samples) else 0
        st = ns.state
        parts["integ"] = digest31(repr((st.logZ, st.logw, st.logLs, st.log_vols, st.nlive, st.info)))
        parts["ins"] = digest31(repr(list(map(int, ns.insertion_indices))))
        h = ns.history or {}
        parts["hist"] = digest31(repr({k: (len(v), repr(v[-1]) if len(v) else None) for k, v in sorted(h.items())
                                       if k not in ("sampling_time",)}))
        for name, prop in (("uninf", ns._uninformed_proposal), ("flow", ns._flow_proposal)):
            smp = getattr(prop, "samples", None)
            parts[name + "_pool"] = digest31(
                repr(list(getattr(prop, "indices", []) or [])),
                b"" if smp is None or len(smp) == 0 else np.asarray(smp).tobytes())
            # (the populated flag of a restored flow proposal is re-armed from
            #  resume_populated by NestedSampler.check_resume when sampling restarts)
            parts[name + "_populated"] = bool(
                (getattr(prop, "populated", False) or getattr(prop, "resume_populated", False))
                and getattr(prop, "indices", []))
            parts[name + "_train"] = int(getattr(prop, "training_count", 0))
        fp = ns._flow_proposal
        parts["flow_popcount"] = int(getattr(fp, "populated_count", 0))
        # interrupted inside a population: tells the resumed sampler not to retrain
        parts["flow_populating"] = bool(getattr(fp, "populating", False))
        rep = getattr(fp, "_reparameterisation", None)
        parts["reparam"] = digest31(_reparam_repr(rep))
        parts["acc"] = digest31(repr((ns.accepted, ns.rejected, float(ns.block_acceptance), int(ns.block_iteration),
                                      list(ns.acceptance_history), float(ns.logLmin), float(ns.logLmax),
                                      float(ns.condition), bool(ns.uninformed_sampling))))
        parts["evals"] = int(ns.model.likelihood_evaluations)
        # cumulative likelihood evaluation time (restored from the pickle in the resumed process)
        try:
            parts["ll_time"] = round(float(ns.model.likelihood_evaluation_time.total_seconds()), 4)
        except Exception:  # noqa
            parts["ll_time"] = None
        return parts


def wrap_checkpoint(obs):
    """BaseNestedSampler.checkpoint: exclude the time spent writing from the observer's sampling clock and
    emit one `ckpt_call` event per call with what decides the schedule (ScheduleOps.tla): the arguments,
    the current and the last position (iterations, or milliseconds on this process's clock) and whether
    a file was written."""
    import datetime as _dt

    from nessai.samplers import base as sbase

    orig_checkpoint = sbase.BaseNestedSampler.checkpoint
    t_proc = _dt.datetime.now()

    def _ms(t):
        v = int(round((t - t_proc).total_seconds() * 1000.0))
        return max(-2 ** 30, min(2 ** 30, v))

    def checkpoint(ns, periodic=False, force=False, *a, **k):
        t_in = _dt.datetime.now()
        obs.ckpt_entry = t_in
        obs.ckpt_wrote = False
        on_it = bool(getattr(ns, "checkpoint_on_iteration", False))
        last0 = getattr(ns, "_last_checkpoint", None)
        try:
            return orig_checkpoint(ns, periodic, force, *a, **k)
        finally:
            t_out = _dt.datetime.now()
            if obs.ckpt_wrote:
                obs.excluded += (t_out - t_in).total_seconds()
            obs.ckpt_entry = None
            try:
                last1 = getattr(ns, "_last_checkpoint", None)
                iv = float(ns.checkpoint_interval)
                if getattr(ns, "checkpoint_callback", None) is None and last0 is not None and math.isfinite(iv):
                    if on_it:
                        cur, l0, l1, ivi, near = int(ns.iteration), int(last0), int(last1), int(iv), False
                        exact = float(ivi) == iv
                    else:
                        cur, l0, l1, ivi = _ms(t_in), _ms(last0), _ms(last1), int(round(iv * 1000.0))
                        # the code reads its own clock a moment after the observer: no verdict at the boundary
                        near = abs((cur - l0) - ivi) <= 50
                        exact = abs(ivi) < 2 ** 30
                        if l1 != l0:          # moved: to "now" as read by the code, between t_in and t_out
                            l1 = cur if _ms(t_in) - 1 <= l1 <= _ms(t_out) + 1 else l1
                    if exact:
                        obs.em.emit("ckpt_call", periodic=bool(periodic), force=bool(force), on_it=on_it,
                                    cur=cur, last0=l0, last1=l1, interval=ivi, near=bool(near),
                                    wrote=bool(obs.ckpt_wrote), it=int(ns.iteration))
            except Exception:  # noqa: the schedule event is best effort, never a verdict by itself
                pass

    sbase.BaseNestedSampler.checkpoint = checkpoint


def _norm_ok(lw):
    """log-weights normalised by their maximum: no entry above zero (a batch without any finite weight - every
    candidate has zero prior density - cannot accept anything and is normalised vacuously)."""
    lw = np.asarray(lw, dtype=float)
    if np.any(lw == np.inf):
        return False
    fin = lw[np.isfinite(lw)]
    return bool(fin.size == 0 or float(fin.max()) <= 1e-12)


def _reparam_repr(rep):
    if rep is None:
        return "None"
    out = []
    for name, r in sorted(getattr(rep, "items", lambda: [])()) if hasattr(rep, "items") else []:
        d = {}
        for k, v in sorted(vars(r).items()):
            if isinstance(v, (int, float, str, bool, type(None), list, tuple, dict)):
                d[k] = repr(v)
            elif isinstance(v, np.ndarray):
                d[k] = v.tobytes().hex()[:64]
        out.append((name, d))
    return repr(out)


def _same(a, b):
    if math.isnan(b):
        return True       # not evaluated (outside the support)
    if math.isnan(a):
        return False
    return a == b or abs(a - b) <= 1e-12 * max(1.0, abs(a), abs(b))


def _subclasses(cls):
    out = set()
    for c in cls.__subclasses__():
        out.add(c)
        out |= _subclasses(c)
    return out


def _wrap_draw(cls, obs):
    orig = cls.draw

    def draw(self, *a, **k):
        r = orig(self, *a, **k)
        try:
            p = np.atleast_1d(r)
            obs.draws.append([pids(p, obs.names)[0], fl(p["logL"][0]),
                              bool(np.isfinite(p["logP"][0])), bool(indep_in_bounds(obs.model, p)[0])])
        except Exception:
            obs.draws.append([0, float("nan"), False, False])
        return r

    cls.draw = draw


def _has_boundary_inversion(prop):
    rep = getattr(prop, "_reparameterisation", None)
    try:
        return any(bool(getattr(r, "boundary_inversion", False)) for r in rep.values())
    except Exception:
        return True


def _wrap_populate(cls, obs):
    orig = cls.populate

    def populate(self, *a, **k):
        r = orig(self, *a, **k)
        smp = self.samples
        n = len(smp)
        N = k.get("N", None)
        if N is None:
            N = a[1] if (len(a) > 1 and cls.__name__ not in ("AnalyticProposal", "RejectionProposal")) else \
                (a[0] if (a and cls.__name__ in ("AnalyticProposal", "RejectionProposal")) else getattr(self, "poolsize", None))
        ev = {"cls": type(self).__name__, "n": int(n), "N": int(N) if N is not None else -1,
              "ids": pids(smp, obs.names) if n else [],
              "indices_perm": sorted(map(int, self.indices)) == list(range(n)),
              "accumulate": bool(getattr(self, "accumulate_weights", False))}
        if n and obs.check_pool_values:
            obs.in_observer = True
            try:
                m = obs.model
                inb = indep_in_bounds(m, smp)
                lp = np.atleast_1d(m.log_prior(smp))
                okp = inb & np.isfinite(lp)
                ll = np.full(n, np.nan)
                if np.any(okp):
                    ll[okp] = np.atleast_1d(m.log_likelihood(smp[okp]))
                ev["in_bounds"] = bool(np.all(inb))
                ev["prior_finite"] = bool(np.all(np.isfinite(smp["logP"])))
                ev["logP_ok"] = bool(np.all([_same(float(a_), float(b_)) for a_, b_ in zip(smp["logP"], lp)]))
                ev["logL_ok"] = bool(np.all([_same(float(a_), float(b_)) for a_, b_ in zip(smp["logL"], ll)]))
            finally:
                obs.in_observer = False
        r_lat = getattr(self, "r", None)
        ev["r"] = fl(r_lat) if r_lat is not None and np.isscalar(r_lat) else None
        # radially truncated latent priors: no pool point maps outside the latent contour
        ev["in_contour"] = True
        ev["contour_checked"] = False
        if (n and getattr(self, "latent_prior", None) in ("truncated_gaussian", "uniform_nball", "uniform_nsphere")
                and r_lat is not None and np.isscalar(r_lat) and np.isfinite(r_lat)
                and type(self).__name__ == "FlowProposal"   # (augmented / clustering flows are not invertible point-wise)
                # reparameterisations with auxiliary parameters (angle + radius) re-draw them in the forward pass
                and getattr(self, "rescaled_dims", None) == obs.model.dims
                # boundary inversion maps one x to several x': not invertible point-wise either
                and not _has_boundary_inversion(self)
                and getattr(self, "flow", None) is not None):
            obs.in_observer = True
            try:
                z = self.forward_pass(smp, rescale=True, compute_radius=False)[0]
                rad = np.sqrt(np.sum(np.asarray(z, dtype=float) ** 2, axis=-1))
                lim = float(r_lat) * float(getattr(self, "fuzz", 1.0))
                ev["in_contour"] = bool(np.all(rad <= lim * (1 + 2e-3) + 1e-3))
                ev["contour_checked"] = True
                ev["n_outside_contour"] = int(np.sum(rad > lim * (1 + 2e-3) + 1e-3))
            except Exception as ex:  # the forward pass is only an observation
                ev["contour_error"] = f"{type(ex).__name__}: {ex}"[:120]
            finally:
                obs.in_observer = False
        obs.em.emit("populate", **ev)
        return r

    cls.populate = populate


# ---------------------------------------------------------------------------
# C11: file-system interposition and kill injection inside checkpoint writes


class FsFaults:
    """Records, or kills inside, the file operations of the n-th checkpoint
    (utils.io.safe_file_dump) or the n-th weights save (FlowModel.save_weights).

    mode "record": the operations of every call are logged as events.
    mode "kill":   target = ("ckpt" | "weights", nth), op = index of the
                   operation BEFORE which the process dies (len(ops) = after
                   the last one); for a write operation `frac` in [0, 1) writes
                   that fraction of the bytes first (a torn file).
    """

    def __init__(self, em: Emitter, obs, mode="record", target=None, op=None, frac=None):
        self.em = em
        self.obs = obs
        self.mode = mode
        self.target = tuple(target) if target else None
        self.op = op
        self.frac = frac
        self.kind = None          # kind of the call in progress
        self.count = {"ckpt": 0, "weights": 0}
        self.ops = []
        self.armed = False

    # -- call boundaries
    def begin(self, kind):
        self.count[kind] += 1
        self.kind = kind
        self.ops = []
        self.armed = (self.mode == "kill" and self.target == (kind, self.count[kind]))
        self._maybe_kill("enter")

    def end(self):
        self._maybe_kill("return")      # after the last operation
        if self.mode == "record":
            self.em.emit("fs_ops", kind=self.kind, nth=self.count[self.kind], ops=list(self.ops))
        self.kind = None
        self.armed = False

    # -- one operation
    def _maybe_kill(self, name, write_prefix=None):
        """Called BEFORE performing operation `name`."""
        idx = len(self.ops)
        if self.armed and idx == self.op:
            if write_prefix is not None:
                write_prefix()
            self.em.emit("fault", kind=self.kind, nth=self.count[self.kind], op=idx, before=name,
                         frac=self.frac, ops_done=list(self.ops))
            os._exit(137)
        if name not in ("enter", "return"):
            self.ops.append(name)

    def install(self):
        import builtins
        import shutil as real_shutil

        import torch

        import nessai.flowmodel.base as fbase
        import nessai.utils.io as nio

        ff = self

        class ShutilProxy:
            def __getattr__(self, k):
                return getattr(real_shutil, k)

            def move(self, src, dst, *a, **k):
                if ff.kind is not None:
                    ff._maybe_kill("move:" + os.path.basename(str(src)) + "->" + os.path.basename(str(dst)))
                return real_shutil.move(src, dst, *a, **k)

        proxy = ShutilProxy()
        nio.shutil = proxy
        fbase.shutil = proxy

        class FileProxy:
            """The file object handed to pickle.dump.  It behaves like a buffered writer in
            the least favourable legal way: the tail (up to 4 KiB) of what has been written
            stays in the user-space buffer until the next write, flush() or close(), so a
            kill before the close loses it - which is all a buffered file promises."""

            HOLD = 4096

            def __init__(self, f, name):
                self.f = f
                self.name = name
                self.pending = b""

            def _drain(self):
                if self.pending:
                    self.f.write(self.pending)
                    self.pending = b""

            def write(self, data):
                data = bytes(data)
                if ff.kind is not None:
                    def prefix():
                        self._drain()
                        n = int(len(data) * (ff.frac or 0.0))
                        self.f.write(data[:n])
                        self.f.flush()
                    ff._maybe_kill("write:" + self.name, write_prefix=prefix)
                self._drain()
                k = min(len(data), self.HOLD)
                self.f.write(data[:len(data) - k])
                self.f.flush()
                self.pending = data[len(data) - k:]
                return len(data)

            def flush(self):
                self._drain()
                return self.f.flush()

            def __getattr__(self, k):
                return getattr(self.f, k)

            def __enter__(self):
                return self

            def __exit__(self, *exc):
                if ff.kind is not None:
                    # bytes still in the buffer are lost by a kill before the close
                    ff._maybe_kill("close:" + self.name)
                self._drain()
                return self.f.__exit__(*exc)

        def open_proxy(path, mode="r", *a, **k):
            if ff.kind is not None and "w" in mode:
                ff._maybe_kill("open:" + os.path.basename(str(path)))
                return FileProxy(builtins.open(path, mode, *a, **k), os.path.basename(str(path)))
            return builtins.open(path, mode, *a, **k)

        nio.open = open_proxy

        real_save = torch.save

        def save(obj, f, *a, **k):
            if ff.kind == "weights" and isinstance(f, (str, os.PathLike)):
                name = os.path.basename(str(f))
                ff._maybe_kill("open:" + name)
                # torch.save = open(truncate) + write + close: emulate the torn file
                # by saving and truncating afterwards
                def prefix():
                    real_save(obj, f, *a, **k)
                    size = os.path.getsize(f)
                    with builtins.open(f, "r+b") as fh:
                        fh.truncate(int(size * (ff.frac or 0.0)))
                ff._maybe_kill("write:" + name, write_prefix=prefix)
                r = real_save(obj, f, *a, **k)
                ff._maybe_kill("close:" + name)
                return r
            return real_save(obj, f, *a, **k)

        torch.save = save

        # call boundaries
        from nessai.samplers import base as sbase
        inner_dump = sbase.safe_file_dump

        def safe_file_dump(obj, filename, *a, **k):
            if ff.obs.ns is not None and obj is ff.obs.ns:
                if hasattr(obj, "training_samples"):      # importance sampler
                    ff.em.emit("ckpt_begin", digest=ff.obs.deep_digest(obj), **ff.obs.counts(obj))
                else:
                    ff.em.emit("ckpt_begin", digest=ff.obs.deep_digest(obj), flow_w=flow_digest(obj),
                               live=ff.obs.live_state(obj), **ff.obs.tails(obj), **ff.obs.counts(obj))
                ff.begin("ckpt")
                try:
                    return inner_dump(obj, filename, *a, **k)
                finally:
                    ff.end()
            return inner_dump(obj, filename, *a, **k)

        sbase.safe_file_dump = safe_file_dump
        # utils.io.safe_file_dump is what inner_dump (the observer's wrapper) calls

        orig_save_weights = fbase.FlowModel.save_weights

        def save_weights(fm, weights_file):
            ff.em.emit("weights_begin", flow_w=state_digest(fm.model))
            ff.begin("weights")
            try:
                r = orig_save_weights(fm, weights_file)
            finally:
                ff.end()
            ff.em.emit("weights_saved", flow_w=state_digest(fm.model))
            return r

        fbase.FlowModel.save_weights = save_weights


def state_digest(module):
    import hashlib

    if module is None:
        return 0
    h = hashlib.blake2b(digest_size=8)
    for k, v in sorted(module.state_dict().items()):
        h.update(k.encode())
        h.update(v.detach().cpu().numpy().tobytes())
    return int.from_bytes(h.digest(), "big") & 0x3FFFFFFFFFFFFFFF


def flow_digest(ns):
    fp = getattr(ns, "_flow_proposal", None)
    flow = getattr(fp, "flow", None)
    model = getattr(flow, "model", None)
    return state_digest(model) if model is not None else 0


# ---------------------------------------------------------------------------
# C13: termination signals before every source line of an iteration


class LineSignals:
    """Traces the source lines of nessai executed during ONE iteration of the
    standard sampler's loop (from the loop's check_state() call to the return
    of periodically_log_state()).

    mode "record": emits the list of lines.
    mode "inject": before line number `line` (index into that list) calls the
    installed handler of `signum` exactly as the interpreter would deliver it.
    """

    REGIONS = ("consume_sample", "finalise", "update_state", "check_state", "periodically_log_state",
               "nested_sampling_loop")

    def __init__(self, em: Emitter, obs, at_iteration, line=None, signum=15, finalise=False):
        self.em = em
        self.obs = obs
        self.at_iteration = int(at_iteration)
        self.line = line
        self.signum = signum
        self.finalise = finalise
        self.active = False
        self.depth_consume = 0
        self.idx = -1
        self.lines = []
        self.done = False
        import nessai

        self.root = os.path.dirname(nessai.__file__) + os.sep

    def region(self, frame):
        names = []
        f = frame
        while f is not None:
            if f.f_code.co_filename.startswith(self.root):
                names.append(f.f_code.co_name)
            f = f.f_back
        for n in reversed(names):      # outermost first
            if n in self.REGIONS and n != "nested_sampling_loop":
                return n
        return "nested_sampling_loop" if "nested_sampling_loop" in names else "other"

    def tracer(self, frame, event, arg):
        if not self.active:
            return None
        fn = frame.f_code.co_filename
        if not fn.startswith(self.root):
            return None
        if event == "call":
            return self.tracer
        if event == "line":
            self.idx += 1
            rel = fn[len(self.root):]
            if self.line is None:
                self.lines.append([rel, frame.f_lineno, frame.f_code.co_name, self.region(frame)])
            elif self.idx == self.line:
                import signal as _signal

                self.active = False
                sys_settrace(None)
                ns = self.obs.ns
                self.em.emit("signal", idx=self.idx, file=rel, lineno=frame.f_lineno,
                             func=frame.f_code.co_name, region=self.region(frame), signum=self.signum,
                             live=self.obs.live_state(ns), **self.obs.tails(ns), **self.obs.counts(ns))
                handler = _signal.getsignal(self.signum)
                handler(self.signum, frame)      # FlowSampler.safe_exit -> sys.exit(exit_code)
        return self.tracer

    def start(self, frame):
        self.active = True
        self.idx = -1
        frame.f_trace = self.tracer
        sys_settrace(self.tracer)

    def stop(self):
        if self.active:
            self.active = False
            sys_settrace(None)
            self.done = True
            if self.line is None:
                self.em.emit("lines", at_iteration=self.at_iteration, lines=self.lines)

    def install(self):
        from nessai.samplers.nestedsampler import NestedSampler
        from nessai.samplers.base import BaseNestedSampler

        ls = self
        import sys as _sys

        wrapped_check = NestedSampler.check_state

        def check_state(ns, *a, **k):
            caller = _sys._getframe(1)
            top = caller.f_code.co_name == "nested_sampling_loop"
            if top and not ls.done and not ls.active and not ls.finalise and int(ns.iteration) == ls.at_iteration:
                ls.obs.ns = ns
                ls.start(caller)
            return wrapped_check(ns, *a, **k)

        NestedSampler.check_state = check_state

        wrapped_log = BaseNestedSampler.periodically_log_state

        def periodically_log_state(ns, *a, **k):
            r = wrapped_log(ns, *a, **k)
            if ls.active and not ls.finalise:
                ls.stop()
            return r

        BaseNestedSampler.periodically_log_state = periodically_log_state

        if ls.finalise:
            wrapped_fin = NestedSampler.finalise

            def finalise(ns, *a, **k):
                if not ls.done and not ls.active:
                    ls.obs.ns = ns
                    ls.start(_sys._getframe(1))
                try:
                    return wrapped_fin(ns, *a, **k)
                finally:
                    ls.stop()

            NestedSampler.finalise = finalise


def sys_settrace(f):
    import sys as _sys

    _sys.settrace(f)
