"""Shared plumbing for the checks: tiers, seeds, scratch space, verdicts,
known findings and the evidence file.

Verdict rule (DESIGN.md 3.5): only *P-clauses* (clauses of a property, on a
real execution of the code) produce a VIOLATION; *M-clauses* (the code no longer
follows the model's shape) are printed as MODEL-MISMATCH and recorded in the
evidence but never raise an alarm.  Exit codes: 0 held, 1 violation, 2 the
machinery itself failed.
"""

from __future__ import annotations

import hashlib
import json
import os
import shutil
import sys
import tempfile
import time
from pathlib import Path

VERIF = Path(__file__).resolve().parent.parent
REPO = Path(os.environ.get("VERIF_REPO", "/repo"))
SPEC = VERIF / "spec"
EVIDENCE = Path(os.environ.get("VERIF_EVIDENCE_DIR", VERIF / "evidence"))
REPLAYS = Path(os.environ.get("VERIF_REPLAYS_DIR", VERIF / "replays"))
KNOWN = VERIF / "known_findings.json"
PY = os.environ.get("VERIF_PY", "/venv/bin/python")
NCPU = int(os.environ.get("VERIF_NCPU", os.cpu_count() or 4))


class MachineryError(Exception):
    """The checking machinery failed (TLC crash, unparsable output...)."""


def seed_from_env(default: int = 0) -> int:
    try:
        return int(os.environ.get("VERIF_SEED", default))
    except ValueError:
        return default


def digest31(*parts) -> int:
    """31-bit digest (TLC integers are 32 bit, JsonDeserialize mangles more)."""
    h = hashlib.blake2b(digest_size=8)
    for p in parts:
        if isinstance(p, (bytes, bytearray, memoryview)):
            h.update(bytes(p))
        else:
            h.update(repr(p).encode())
        h.update(b"\x00")
    return int.from_bytes(h.digest(), "big") & 0x7FFFFFFF


class Scratch:
    """A scratch directory outside /repo and /verif, removed on exit."""

    def __init__(self, prefix: str = "vf-"):
        base = os.environ.get("VERIF_SCRATCH", tempfile.gettempdir())
        self.path = Path(tempfile.mkdtemp(prefix=prefix, dir=base))

    def __enter__(self) -> Path:
        return self.path

    def __exit__(self, *exc):
        shutil.rmtree(self.path, ignore_errors=True)
        return False


def load_known() -> list[dict]:
    if not KNOWN.exists():
        return []
    with open(KNOWN) as f:
        data = json.load(f)
    return data.get("findings", [])


class Verdict:
    """Collects what a check saw and renders the exit status.

    ``violation(sig, what, replay)``: a P-clause failed on a real execution.
    ``sig`` is an abstract signature; if ``known_findings.json`` lists the
    same (property, signature) the violation is printed as KNOWN-FINDING and
    does not fail the check.
    """

    def __init__(self, prop: str, tier: str, seed: int, level: str):
        self.prop = prop
        self.tier = tier
        self.seed = seed
        self.level = level
        self.t0 = time.time()
        self.violations: list[dict] = []
        self.known_hits: dict[str, dict] = {}
        self.mismatches: list[str] = []
        self.coverage: dict = {}
        self.assumptions: list[str] = []
        self._known = [
            k
            for k in load_known()
            if k.get("property") == prop and k.get("status") == "open"
        ]

    # -- reporting -----------------------------------------------------
    def violation(self, sig: str, what: str, replay: dict | None = None):
        for k in self._known:
            if k["signature"] == sig:
                hit = self.known_hits.setdefault(
                    sig, {"count": 0, "what": k.get("what", what), "first": what}
                )
                hit["count"] += 1
                return
        path = None
        if replay is not None and len(self.violations) < 20:
            REPLAYS.mkdir(exist_ok=True)
            n = len(self.violations)
            path = REPLAYS / f"{self.prop}_{self.tier}_{n}.json"
            with open(path, "w") as f:
                json.dump(
                    {"property": self.prop, "signature": sig, "what": what,
                     "seed": self.seed, **replay},
                    f, indent=1, default=str,
                )
        self.violations.append({"sig": sig, "what": what, "replay": str(path)})
        if len(self.violations) <= 20:
            print(f"VIOLATION property={self.prop} replay={path}  # {sig}: {what}",
                  flush=True)

    def mismatch(self, what: str):
        self.mismatches.append(what)
        if len(self.mismatches) <= 10:
            print(f"MODEL-MISMATCH property={self.prop} {what}", flush=True)

    def note(self, msg: str):
        print(f"[{self.prop}] {msg}", flush=True)

    # -- finishing -----------------------------------------------------
    def finish(self) -> int:
        for sig, hit in self.known_hits.items():
            print(
                f"KNOWN-FINDING: property={self.prop} {sig}: {hit['what']}"
                f" (seen {hit['count']}x, e.g. {hit['first']})",
                flush=True,
            )
        cov = dict(self.coverage)
        cov["model_mismatches"] = len(self.mismatches)
        if self.mismatches:
            cov["model_mismatch_examples"] = self.mismatches[:5]
        sigc = {}
        for x in self.violations:
            sigc[x["sig"]] = sigc.get(x["sig"], 0) + 1
        if sigc:
            cov["violation_signatures"] = sigc
        cov["known_findings_seen"] = {
            s: h["count"] for s, h in self.known_hits.items()
        }
        ev = {
            "property_id": self.prop,
            "tier": self.tier,
            "seed": self.seed,
            "level": self.level,
            "coverage": cov,
            "assumptions": self.assumptions,
            "wall_s": round(time.time() - self.t0, 2),
            "violations": len(self.violations),
        }
        EVIDENCE.mkdir(exist_ok=True)
        tmp = EVIDENCE / f".{self.prop}.json.tmp"
        with open(tmp, "w") as f:
            json.dump(ev, f, indent=1, default=str)
        os.replace(tmp, EVIDENCE / f"{self.prop}.json")
        status = 1 if self.violations else 0
        print(
            f"[{self.prop}] tier={self.tier} seed={self.seed} "
            f"violations={len(self.violations)} known={sum(h['count'] for h in self.known_hits.values())} "
            f"mismatches={len(self.mismatches)} wall={ev['wall_s']}s",
            flush=True,
        )
        return status


def die_machinery(prop: str, msg: str):
    print(f"MACHINERY-FAILURE property={prop} {msg}", file=sys.stderr, flush=True)
    sys.exit(2)
