"""Harness binding the TLA+ specifications in /verif/spec to nessai."""
