"""C12 — resuming restores the checkpointed state and yields a valid, accounted
run (standard sampler part)."""

from __future__ import annotations

import sys

from .common import seed_from_env
from .nscheck import run_property
from .nsruns import std_spec, ins_spec

PROP = "C12"


def corpus(tier, seed):
    s = seed * 1000 + 200
    base = [
        ("gauss2", 50, [60], {}),                       # killed during uninformed sampling
        ("gauss2", 50, [170], {}),                      # after the switch to the flow
        ("plateau2", 20, [70, 60, 50], {}),
        ("hole2", 50, [250, 100], {"checkpoint_on_training": True}),
        ("rosen2", 25, [100, 100, 100, 100], {}),
        ("gauss4", 100, [500], {"checkpoint_interval": 20}),
        ("nonuni2", 50, [130], {"checkpoint_on_iteration": False, "checkpoint_interval": 0}),   # time-triggered, every call
        ("gauss2", 50, [210], {"reparameterisations": {"x0": "rescaletobounds", "x1": "logit"}}),
        ("plateau2", 50, [300, 300], {"maximum_uninformed": 20}),
        ("gauss2", 10, [30, 30, 30], {}),
        ("dyadic2", 50, [160], {"checkpoint_interval": 7}),
        ("gauss2", 50, [120], {"latent_prior": "uniform_nball", "constant_volume_mode": False}),
    ]
    specs = [std_spec(m, s + i, n, kills=k, resume_after_done=1 if i % 3 == 0 else 0, **kw)
             for i, (m, n, k, kw) in enumerate(base)]
    # checkpoint_on_training: the periodic checkpoint written when training fires inside consume_sample,
    # followed immediately by a kill
    mid = std_spec("gauss2", s + 90, 20, checkpoint_on_training=True, maximum_uninformed=20, poolsize=25,
                   update_poolsize=False, checkpoint_interval=1)
    mid["extra_by_proc"] = {"0": {"kill_after_mid_ckpt": True}}
    specs.append(mid)
    # a checkpoint written by checkpoint_on_training when the flow is retrained while the pool still holds
    # samples (training_frequency): the pool is invalidated (left-over indices), then a kill before the next
    # periodic checkpoint; the resumed sampler must not resurrect the stale pool
    # (time-triggered: with iteration-triggered checkpoints the call inside train_proposal is never due)
    stale = std_spec("gauss2", s + 91, 50, checkpoint_on_training=True, training_frequency=20, cooldown=20,
                     checkpoint_on_iteration=False, checkpoint_interval=0.05)
    stale["extra_by_proc"] = {"0": {"kill_after_stale_ckpt": True}}
    specs.append(stale)
    # a termination signal while a pool is being populated (flow phase): the handler pickles populating=True,
    # the resumed sampler must carry that flag (it decides whether the flow is trained again)
    for k_, (n_eval, signum) in enumerate(((260, 15), (420, 2))):
        sg = std_spec("gauss2", s + 92 + k_, 50)
        sg["signal_handling"] = True
        sg["signal_exit"] = 130
        sg["exit_code"] = 130
        sg["extra_by_proc"] = {"0": {"signal_at_eval": [n_eval, signum]}}
        specs.append(sg)
    if tier == "thorough":
        j = len(specs)
        import random

        rng = random.Random(seed)
        for model in ("gauss2", "plateau2", "hole2", "rosen2", "gauss4", "nonuni2"):
            for nlive in (10, 25, 50, 100):
                for rep in range(3):
                    kills = [rng.randrange(nlive // 2, 6 * nlive) for _ in range(rng.randrange(1, 5))]
                    kw = {"checkpoint_interval": rng.choice([5, 10, nlive // 2])}
                    if rng.random() < 0.3:
                        kw["checkpoint_on_training"] = True
                    specs.append(std_spec(model, s + j, nlive, kills=kills, **kw))
                    j += 1
    return specs


def ins_corpus(tier, seed):
    s = seed * 1000 + 250
    specs = [
        ins_spec("gauss2", s + 1, 100, kills=[250]),
        ins_spec("gauss2", s + 2, 100, kills=[350, 150], save_log_q=True),
        ins_spec("rosen2", s + 3, 100, kills=[450, 100, 100], draw_iid_live=False),
        ins_spec("gauss4", s + 4, 100, kills=[300], strict_threshold=True, resume_after_done=1),
        ins_spec("gauss2", s + 5, 100, kills=[500], reparameterisation=None, checkpoint_interval=2),
        ins_spec("rosen2", s + 6, 60, kills=[200, 200], draw_constant=False, save_log_q=True),
        # more than ten levels at the checkpoint: level_10, level_11 ... must be restored in numeric order
        # resampled (LARS) latent distribution: finalise() re-estimates a buffer of the flow after training; the
        # weights on disk must be those of the flow in memory (restored_digest:flows)
        ins_spec("gauss2", s + 8, 60, kills=[260], max_iteration=3,
                 flow_config={"n_blocks": 2, "n_neurons": 8, "distribution": "lars"}),
        # (constant draws: 80 evaluations per level, the kill at evaluation 1000 falls into iteration 12)
        ins_spec("gauss2", s + 7, 40, kills=[1000], min_iteration=13, max_iteration=13,
                 training_config={"max_epochs": 8, "patience": 3}),
    ]
    if tier == "thorough":
        import random

        rng = random.Random(seed + 1)
        k = 7
        for model in ("gauss2", "rosen2", "gauss4"):
            for iid in (True, False):
                for slq in (True, False):
                    for rep in range(3):
                        kills = [rng.randrange(150, 700) for _ in range(rng.randrange(1, 4))]
                        specs.append(ins_spec(model, s + k, 100, kills=kills, draw_iid_live=iid, save_log_q=slq,
                                              max_iteration=8))
                        k += 1
    return specs


def main(tier: str) -> int:
    seed = seed_from_env()
    return run_property(PROP, tier, corpus(tier, seed), crash_is_violation=True, also=("C01", "C05", "C03"),
                        ins_specs=ins_corpus(tier, seed), predict_mid_ckpt=True,
                        note="Every history is killed (os._exit at a chosen likelihood call) 1-4 times and resumed in a "
                             "fresh process; at every resume the deep digest of the restored sampler must equal the "
                             "digest taken when the checkpoint was written; evaluation counter and sampling time must "
                             "continue cumulatively; the completed run must satisfy the C01/C05 clauses.")


if __name__ == "__main__":
    sys.exit(main(sys.argv[1] if len(sys.argv) > 1 else "quick"))
