"""C01 — the live set evolves only by likelihood-constrained replacement."""

from __future__ import annotations

import sys

from .common import seed_from_env
from .nscheck import run_property
from .nsruns import std_spec

PROP = "C01"


def corpus(tier, seed):
    s = seed * 1000
    specs = [
        std_spec("gauss2", s + 1, 50),
        std_spec("plateau2", s + 2, 20, kills=[150]),
        std_spec("plateau2", s + 3, 50, maximum_uninformed=20, checkpoint_on_training=True, kills=[120]),
        std_spec("hole2", s + 4, 50, kills=[200, 150]),
        std_spec("rosen2", s + 5, 25),
        std_spec("gauss4", s + 6, 100, latent_prior="uniform_nball"),
        std_spec("nonuni2", s + 7, 50, latent_prior="gaussian", constant_volume_mode=False),
        std_spec("plateau2", s + 8, 10, max_iteration=80),
        std_spec("gauss2", s + 9, 50, flow_config={"n_blocks": 2, "n_neurons": 8, "ftype": "nsf"},
                 latent_prior="uniform_nball", constant_volume_mode=False),
        std_spec("gauss2", s + 10, 50, reparameterisations={"x0": "rescaletobounds", "x1": "logit"},
                 kills=[300]),
        std_spec("plateau2", s + 11, 50, flow_config={"n_blocks": 2, "n_neurons": 8, "ftype": "maf"}),
        std_spec("angle2", s + 21, 50, reparameterisations={"phi": "angle", "y": "rescaletobounds"}),
        std_spec("angle2", s + 22, 25, reparameterisations={"phi": "angle-2pi"}, kills=[150]),
        # explicit reparameterisation for the SECOND parameter only: the proposal's parameter order differs
        # from model.names
        std_spec("angle2", s + 23, 50, reparameterisations={"y": "rescaletobounds"}),
        std_spec("rosen2", s + 24, 50, reparameterisations={"x1": {"reparameterisation": "default"}}),
        std_spec("gauss2", s + 12, 50, reparameterisations={"x0": "inversion", "x1": "zscore"},
                 latent_prior="truncated_gaussian", constant_volume_mode=False),
    ]
    # training / reset policies (TrainPolicy.tla): periodic retraining, cooldown, memory, resets
    specs += [
        std_spec("gauss2", s + 31, 50, training_frequency=15, cooldown=10, memory=30, reset_weights=2,
                 reset_permutations=3),
        std_spec("rosen2", s + 32, 50, training_frequency=25, cooldown=40, reset_flow=2, train_on_empty=False,
                 kills=[260]),
        std_spec("hole2", s + 33, 50, retrain_acceptance=True, reset_acceptance=True, acceptance_threshold=0.3,
                 cooldown=5, memory=10),
    ]
    specs += [std_spec("rect2", s + 34, 50, reparameterisations={"c": "rescaletobounds"}),
              std_spec("disc2", s + 35, 50),
              std_spec("gauss2", s + 36, 50, plot=True, kills=[170]),      # the sampler's own diagnostics enabled
              std_spec("rect3", s + 37, 50, n_pool=2, memory=20, training_frequency=30)]
    # the initial live set alone (prior_sampling: populate, then finalise at once) on models where draws are
    # rejected while it is drawn: no duplicates, sorted, valid - many seeds, a second each
    for k_ in range(24 if tier == "quick" else 120):
        m_ = ("hole2", "trunc2", "disc2")[k_ % 3]
        specs.append(std_spec(m_, s + 400 + k_, (10, 20, 30, 50)[k_ % 4], prior_sampling=True))
    if tier == "thorough":
        k = 13
        for model in ("gauss2", "plateau2", "hole2", "rosen2", "gauss4", "nonuni2"):
            for nlive in (10, 25, 50, 100):
                for lp in ("truncated_gaussian", "gaussian", "uniform_nball"):
                    kw = dict(latent_prior=lp)
                    if lp != "truncated_gaussian":
                        kw["constant_volume_mode"] = False
                    kills = [100 + 37 * (k % 5)] if k % 3 == 0 else []
                    specs.append(std_spec(model, s + k, nlive, kills=kills, **kw))
                    k += 1
    return specs


def main(tier: str) -> int:
    seed = seed_from_env()
    return run_property(PROP, tier, corpus(tier, seed), scripted=True,
                        note="Corpus: models incl. a discretised likelihood (ties at almost every iteration) and a "
                             "prior with a hole; nlive 10..100; flow/augmented proposals; several latent priors and "
                             "reparameterisations; kill/resume histories.")


if __name__ == "__main__":
    sys.exit(main(sys.argv[1] if len(sys.argv) > 1 else "quick"))
