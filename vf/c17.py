"""C17 — INS level thresholds honour min_samples, min_remove and max_samples.

spec/Threshold.tla has two machines.

* "clamp": ``determine_log_likelihood_threshold`` as integer arithmetic on
  (n0, size, min_samples, min_remove, max_samples, nlive, draw_constant), one
  action per branch of the code plus the pure function ``Clamp``.  TLC checks
  the four clauses of the property on the precise domain ``Dom`` (= the set of
  inputs for which the clauses are jointly satisfiable by SOME index, shown
  tight by ``ThTight``); Apalache checks the same theorems on the pure section
  for unbounded integers.  EVERY finished call of the complete graph is
  exported and replayed as calls of the REAL method on a real
  ``ImportanceNestedSampler`` whose ``determine_threshold_<method>`` returns
  n0, with live samples of distinct and of tied likelihoods.
* "cut": ``determine_threshold_entropy`` on integer weights (exact), over the
  weight shapes the property names.  Every shape is instantiated to floats
  and handed to the real entropy and quantile methods; the quantile cutoff
  and ``weighted_quantile`` are compared with an independent mpmath
  evaluation of the Harrell-Davis estimator.

P-clauses (raise VIOLATION): on inputs in Dom the returned threshold is the
likelihood of a live sample whose index k satisfies the clauses exported by
the specification (k = size - min_samples / k >= min_remove /
k >= size + nlive - max_samples); the cut index of either method is an index
of the live set; weighted_quantile is monotone in q, inside the data range
and equal to the unweighted Harrell-Davis quantile for equal weights.
Everything else (which index exactly, exceptions outside Dom, the cut index
versus the oracle) is an M-clause (MODEL-MISMATCH).
"""

from __future__ import annotations

import json
import logging
import math
import random
import shutil
import subprocess
import sys
import time
import warnings
from concurrent.futures import ThreadPoolExecutor
from pathlib import Path

import numpy as np

from .common import SPEC, Scratch, Verdict, seed_from_env, MachineryError
from .tlc import run_tlc, require_ok

PROP = "C17"
NI = -100000  # the specification's -inf log-weight

CLAMP_CFG = """SPECIFICATION SpecClamp
CONSTANTS
  MaxSize = {max_size}
  MaxMin = {max_min}
  MaxLive = {max_live}
  MaxCap = {max_cap}
  MaxLen = 1
  MaxAny = 1
INVARIANT TypeOK
INVARIANT MachineIsClamp
INVARIANT ThLive
INVARIANT ThMinSamples
INVARIANT ThMinRemove
INVARIANT ThMaxSamples
INVARIANT ThFunction
INVARIANT ThTight
INVARIANT ThSolved
INVARIANT ThRaiseOutside
{liveness}
{export}
CHECK_DEADLOCK FALSE
"""

FN_CFG = """INIT InitFn
NEXT NextFn
CONSTANTS
  MaxSize = {max_size}
  MaxMin = {max_min}
  MaxLive = {max_live}
  MaxCap = {max_cap}
  MaxLen = 1
  MaxAny = 1
INVARIANT ThFunction
INVARIANT ThTight
INVARIANT ThSolved
CHECK_DEADLOCK FALSE
"""

CUT_CFG = """SPECIFICATION SpecCut
CONSTANTS
  MaxSize = 1
  MaxMin = 1
  MaxLive = 1
  MaxCap = 1
  MaxLen = {max_len}
  MaxAny = {max_any}
INVARIANT ThCutInRange
INVARIANT ThCutFraction
INVARIANT ThArgmaxGE
PROPERTY TerminatesCut
ACTION_CONSTRAINT ExportCut
CHECK_DEADLOCK FALSE
"""

CLAMP_ACTIONS = ["Method", "ZeroReturn", "ZeroRule", "NonZero", "MinSamples", "MinRemove",
                 "KeepChoice", "Override", "NoOverride", "Index", "IndexRaise"]

APA_TAIL = """
VARIABLES
  \\* @type: Int;
  n0,
  \\* @type: Int;
  size,
  \\* @type: Int;
  minS,
  \\* @type: Int;
  minR,
  \\* @type: Int;
  maxS,
  \\* @type: Int;
  nlive,
  \\* @type: Bool;
  const

Init == n0 \\in Int /\\ size \\in Int /\\ minS \\in Int /\\ minR \\in Int /\\ maxS \\in Int
        /\\ nlive \\in Int /\\ const \\in BOOLEAN
Next == UNCHANGED <<n0, size, minS, minR, maxS, nlive, const>>
InvClamp == TheoremClamp(n0, size, minS, minR, maxS, nlive, const)
InvRaises == TheoremRaises(n0, size, minS, minR, maxS, nlive, const)
InvLiteral == TheoremLiteral(n0, size, minS, minR, maxS, nlive, const)
\\* tightness with an unbounded witness: outside Dom NO integer satisfies the clauses
InvTight == (Pre(n0, size, minS, minR, maxS, nlive) /\\ ~Dom(n0, size, minS, minR, maxS, nlive, const)) =>
    \\A k \\in Int : ~Clauses(k, n0, size, minS, minR, maxS, nlive, const)
\\* a false claim (every input ends at a live sample) that must be refuted
InvBogus == Pre(n0, size, minS, minR, maxS, nlive) =>
    Clamp(n0, size, minS, minR, maxS, nlive, const) < size
====
"""
APA_INVS = {"InvClamp": "NoError", "InvRaises": "NoError", "InvLiteral": "NoError",
            "InvTight": "NoError", "InvBogus": "Error"}

Q_FLOATS = [0.0, 0.01, 0.1, 0.25, 1.0 / 3.0, 0.5, 0.8, 0.9, 0.99, 1.0]


# ---------------------------------------------------------------------------
# Apalache (unbounded integers) on the pure section of the specification
# ---------------------------------------------------------------------------

def run_apalache(scratch: Path) -> dict:
    exe = shutil.which("apalache-mc")
    if exe is None:
        return {"status": "unavailable"}
    src = (SPEC / "Threshold.tla").read_text()
    try:
        pure = src.split("\\* ---- BEGIN PURE ----")[1].split("\\* ---- END PURE ----")[0]
    except IndexError:
        raise MachineryError("Threshold.tla: PURE markers not found")
    d = scratch / "apa"
    d.mkdir()
    (d / "ThresholdApa.tla").write_text(
        "---- MODULE ThresholdApa ----\nEXTENDS Integers\n" + pure + APA_TAIL)

    def one(inv):
        t0 = time.time()
        try:
            p = subprocess.run(
                [exe, "check", "--length=0", f"--inv={inv}", f"--out-dir={d / ('out_' + inv)}",
                 "ThresholdApa.tla"], cwd=d, capture_output=True, text=True, timeout=600)
        except subprocess.TimeoutExpired:
            return inv, "Timeout", time.time() - t0
        out = p.stdout + p.stderr
        if "The outcome is: NoError" in out:
            return inv, "NoError", time.time() - t0
        if "The outcome is: Error" in out and "Checker has found an error" in out:
            return inv, "Error", time.time() - t0
        return inv, "Failed: " + out[-400:], time.time() - t0

    with ThreadPoolExecutor(len(APA_INVS)) as ex:
        results = list(ex.map(one, APA_INVS))
    res = {"status": "ran", "outcomes": {i: o for i, o, _ in results},
           "wall_s": round(max(t for _, _, t in results), 1)}
    for inv, outcome, _ in results:
        if outcome == "Timeout":
            res["status"] = "timeout"
        elif outcome != APA_INVS[inv]:
            raise MachineryError(f"Apalache {inv}: expected {APA_INVS[inv]}, got {outcome} "
                                 "(a modelling error in Threshold.tla, not a verdict about the code)")
    return res


# ---------------------------------------------------------------------------
# the real objects
# ---------------------------------------------------------------------------

def build_sampler(out: Path):
    from nessai.model import Model
    from nessai.samplers.importancesampler import ImportanceNestedSampler

    class M(Model):
        def __init__(self):
            self.names = ["x", "y"]
            self.bounds = {"x": [-1.0, 3.0], "y": [-4.0, 4.0]}

        def log_prior(self, z):
            return np.log(self.in_bounds(z), dtype=float) - np.log(32.0)

        def log_likelihood(self, z):
            return -(z["x"] ** 2) * 0.5 - (z["y"] ** 2) * 0.25

        def from_unit_hypercube(self, z):
            z = z.copy()
            z["x"] = 4.0 * z["x"] - 1.0
            z["y"] = 8.0 * z["y"] - 4.0
            return z

        def to_unit_hypercube(self, z):
            z = z.copy()
            z["x"] = (z["x"] + 1.0) / 4.0
            z["y"] = (z["y"] + 4.0) / 8.0
            return z

    s = ImportanceNestedSampler(M(), nlive=10, output=str(out), plot=False, checkpointing=False,
                                min_samples=1, min_remove=1)
    if s.plot:
        raise MachineryError("sampler built with plot=True")
    return s


def sample_dtype():
    from nessai.livepoint import get_dtype
    return get_dtype(["x", "y"])


def make_samples(logl, logw=None):
    x = np.zeros(len(logl), dtype=sample_dtype())
    x["logL"] = logl
    if logw is not None:
        x["logW"] = logw
    return x


def likelihood_vectors(size: int, rng: random.Random):
    """Ascending likelihood vectors: (tag, values).  None contains 0.0 (so the
    integer 0 of the min_remove < 1 early return is never a likelihood)."""
    vs = [("distinct_dyadic", 1.5 * np.arange(size) - 3.25)]
    steps = np.array([rng.uniform(1e-3, 10.0) for _ in range(size)])
    vs.append(("distinct_offset", -1e5 + np.cumsum(steps)))
    vs.append(("tied_pairs", 0.5 * (np.arange(size) // 2) + 0.125))
    if size >= 2:
        vs.append(("all_tied", np.full(size, 7.25)))
        inc = np.array([rng.choice([0.0, 0.0, 0.75]) for _ in range(size)])
        vs.append(("random_ties", 1e3 + np.cumsum(inc)))
    return vs


class Patched:
    """Replacement of determine_threshold_<method>: returns the scripted n0."""

    def __init__(self):
        self.n0 = 0
        self.calls = 0

    def __call__(self, samples, **kwargs):
        self.calls += 1
        return self.n0


# ---------------------------------------------------------------------------
# P- and M-clauses on one real call of determine_log_likelihood_threshold
# ---------------------------------------------------------------------------

def judge_clamp(st, logl, out, exc, v, ctx, stats):
    """st: the specification's record for (n0, size, minS, minR, maxS, nlive, const)."""
    size = st["size"]
    # -- M: does the code follow the model?
    if st["kind"] == "logL":
        ok = exc is None and not isinstance(out, int) and out == logl[st["n"]]
    elif st["kind"] == "IndexError":
        ok = isinstance(exc, IndexError)
    else:  # "zero": the literal 0 of the early return
        ok = exc is None and isinstance(out, int) and out == 0
    if not ok:
        got = f"{type(exc).__name__}: {exc}" if exc is not None else repr(out)
        v.mismatch(f"determine_log_likelihood_threshold: specification predicts {st['kind']}"
                   f"[{st['n']}], real call gave {got} for {ctx()}")
    # -- P: the clauses of the property, only where they are satisfiable
    if not st["dom"]:
        return
    stats["p_evaluations"] += 1
    if exc is not None:
        v.violation("threshold_not_live_sample",
                    f"raised {type(exc).__name__}: {exc} on an input inside the domain: {ctx()}",
                    ctx(full=True))
        return
    cand = [] if isinstance(out, (int, bool)) and not isinstance(out, np.generic) else \
        np.flatnonzero(logl == out).tolist()
    if not cand:
        v.violation("threshold_not_live_sample",
                    f"returned {out!r}, not the likelihood of any live sample: {ctx()}", ctx(full=True))
        return
    eq, lo_r, lo_cap = st["eq"], st["loR"], st["loCap"]
    b = [eq < 0 or k == eq for k in cand]
    c = [k >= lo_r for k in cand]
    d = [k >= lo_cap for k in cand]
    if not any(b):
        v.violation("min_samples_not_kept",
                    f"choice leaves fewer than min_samples but {size - cand[-1]}..{size - cand[0]} "
                    f"samples kept, not exactly {st['minS']}: {ctx()}", ctx(full=True))
    elif not any(c):
        v.violation("min_remove_not_removed",
                    f"only {cand[-1]} removed, min_remove={st['minR']}: {ctx()}", ctx(full=True))
    elif not any(d):
        v.violation("max_samples_exceeded",
                    f"next level has {size - cand[-1] + st['nlive']} > max_samples={st['maxS']}: {ctx()}",
                    ctx(full=True))
    elif not any(x and y and z for x, y, z in zip(b, c, d)):
        v.violation("clauses_jointly",
                    f"no live sample with likelihood {out!r} satisfies all clauses: {ctx()}",
                    ctx(full=True))


def configure(s, st):
    s.min_samples = st["minS"]
    s.min_remove = st["minR"]
    s.max_samples = st["maxS"] or None
    s.nlive = st["nlive"]
    s.draw_constant = st["const"]


def call_threshold(s, samples, method, kwargs):
    try:
        return s.determine_log_likelihood_threshold(samples, method=method, **kwargs), None
    except Exception as ex:  # noqa: BLE001 - the exception type is compared with the model
        return None, ex


def replay_clamp(s, states, lvecs, v, stats):
    """Every exported state -> calls of the real method with the cut index scripted."""
    fake = Patched()
    s.determine_threshold_entropy = fake
    s.determine_threshold_quantile = fake
    try:
        for st in states:
            configure(s, st)
            fake.n0 = st["n0"]
            for tag, logl, samples in lvecs[st["size"]]:
                for method in ("entropy", "quantile"):
                    before = fake.calls
                    out, exc = call_threshold(s, samples, method, {})
                    stats["clamp_calls"] += 1
                    if fake.calls != before + 1:
                        v.mismatch(f"method {method} was not asked exactly once for the cut index")

                    def ctx(full=False, st=st, tag=tag, logl=logl, method=method):
                        if full:
                            return {"case": "clamp", "state": st, "logL": logl.tolist(),
                                    "likelihoods": tag, "method": method}
                        return (f"n0={st['n0']} size={st['size']} min_samples={st['minS']} "
                                f"min_remove={st['minR']} max_samples={st['maxS'] or None} "
                                f"nlive={st['nlive']} draw_constant={st['const']} "
                                f"method={method} likelihoods={tag}")

                    judge_clamp(st, logl, out, exc, v, ctx, stats)
    finally:
        del s.determine_threshold_entropy
        del s.determine_threshold_quantile


# ---------------------------------------------------------------------------
# the cut-index functions and weighted_quantile
# ---------------------------------------------------------------------------

def shape_log_weights(vec, lin):
    if lin:
        with np.errstate(divide="ignore"):
            return np.log(np.asarray(vec, dtype=float))
    return np.array([-np.inf if x == NI else float(x) for x in vec])


def check_index(n, size, v, what, replay, sig="cut_index_out_of_range"):
    if isinstance(n, bool) or not isinstance(n, (int, np.integer)) or not (0 <= n < size):
        v.violation(sig, f"{what} returned {n!r}, not an index of the {size} live samples", replay)
        return False
    return True


def replay_entropy(s, shapes, lvecs, v, stats):
    """SHAPE records -> the real determine_threshold_entropy (exact integer weights)."""
    for sh in shapes:
        vec, lin = sh["v"], sh["lin"]
        size = len(vec)
        q = sh["qn"] / sh["qd"]
        lw = shape_log_weights(vec, lin)
        logl = lvecs[size][0][1]            # dyadic: v - logL is exact
        variants = [("plain", lw, dict(q=q, use_log_weights=not lin), True)]
        if not lin:
            # include_likelihood: logW + logL == the same p, exactly
            variants.append(("include_likelihood", lw - logl,
                             dict(q=q, use_log_weights=True, include_likelihood=True), True))
            # an exact (dyadic) rescaling leaves every ratio unchanged
            variants.append(("scaled_x0.25", lw * 0.25, dict(q=q, use_log_weights=True), True))
            variants.append(("scaled_x0.37", lw * 0.37, dict(q=q, use_log_weights=True), False))
        else:
            variants.append(("scaled_x3", lw + math.log(3.0), dict(q=q, use_log_weights=False), True))
        for name, logw, kw, compare in variants:
            samples = make_samples(logl, logw)
            replay = {"case": "cut", "method": "entropy", "logL": logl.tolist(),
                      "logW": logw.tolist(), "kwargs": kw, "shape": sh}
            try:
                n = s.determine_threshold_entropy(samples, **kw)
            except Exception as ex:  # noqa: BLE001
                stats["entropy_calls"] += 1
                if sh["kind"] == "allneginf":
                    v.mismatch(f"determine_threshold_entropy raised {type(ex).__name__} for all -inf weights")
                else:
                    v.violation("cut_index_raises",
                                f"determine_threshold_entropy raised {type(ex).__name__}: {ex} for "
                                f"{sh['kind']} weights {vec} ({name}) q={q}", replay)
                continue
            stats["entropy_calls"] += 1
            check_index(n, size, v, f"determine_threshold_entropy({sh['kind']} {vec}, {name}, q={q})", replay)
            exact = compare and not (sh["tie"] and (lin or name == "scaled_x0.37"))
            if name == "scaled_x0.37" and not exact:
                continue
            if name == "scaled_x0.37":
                # inexact scaling: cdf.sum() == 0 and exact ties are not preserved; only
                # compared when the specification reports no tie (counted separately)
                if n != sh["cut"]:
                    stats["entropy_inexact_diff"] += 1
                continue
            if exact:
                stats["entropy_exact_compared"] += 1
                if n != sh["cut"]:
                    v.mismatch(f"determine_threshold_entropy: specification predicts {sh['cut']}, real "
                               f"call gave {n} for {sh['kind']} {vec} lin={lin} ({name}) q={sh['qn']}/{sh['qd']}")


_HD_CACHE: dict = {}


def hd_star_weights(logw, q):
    """Harrell-Davis weights w*_i of the weighted sample, by mpmath (independent
    of scipy): I_{F_i}(a,b) - I_{F_{i-1}}(a,b), a = q (neff+1), b = (1-q)(neff+1)."""
    import mpmath as mp

    key = (tuple(logw), q)
    if key in _HD_CACHE:
        return _HD_CACHE[key]
    mp.mp.dps = 40
    fin = [mp.mpf(x) for x in logw if x != -math.inf]
    m = max(fin)
    w = [mp.mpf(0) if x == -math.inf else mp.e ** (mp.mpf(x) - m) for x in logw]
    tot = mp.fsum(w)
    w = [x / tot for x in w]
    neff = 1 / mp.fsum(x * x for x in w)
    a, b = mp.mpf(q) * (neff + 1), (1 - mp.mpf(q)) * (neff + 1)
    ends = [mp.mpf(0)]
    for x in w:
        ends.append(ends[-1] + x)
    # normalise as the definition does: a trailing zero weight gives the end point
    # 1 exactly (I_x(a, b) is violently steep at 1 for small b)
    ends = [e / ends[-1] for e in ends]
    cdf = [mp.mpf(0) if e == 0 else (mp.mpf(1) if e >= 1 else mp.betainc(a, b, 0, e, regularized=True))
           for e in ends]
    res = [cdf[i + 1] - cdf[i] for i in range(len(w))]
    _HD_CACHE[key] = res
    return res


def hd_value(values, logw, q):
    import mpmath as mp
    ws = hd_star_weights(logw, q)
    return mp.fsum(wi * mp.mpf(float(x)) for wi, x in zip(ws, values))


def is_equal_weights(lw):
    return bool(np.all(np.isfinite(lw)) and np.all(lw == lw[0]))


def replay_quantile(s, wshapes, lvecs, v, stats, oracle_every, rng, cut_qs, n_lvecs):
    """Distinct weight vectors -> the real determine_threshold_quantile and weighted_quantile.
    ``wshapes``: (global index, kind, vector, linear)."""
    from nessai.utils.stats import weighted_quantile

    qs = np.array(Q_FLOATS)
    for idx, kind, vec, lin in wshapes:
        size = len(vec)
        lw = shape_log_weights(vec, lin)
        degenerate = bool(np.all(lw == -np.inf))
        for tag, logl, _ in lvecs[size][:n_lvecs]:
            samples = make_samples(logl, lw)
            # ---- determine_threshold_quantile
            for q in cut_qs:
                for incl in ((False, True) if q == 0.8 else (False,)):
                    kw = dict(q=q) if not incl else dict(q=q, include_likelihood=True)
                    smp = samples if not incl else make_samples(logl, lw - logl)
                    replay = {"case": "cut", "method": "quantile", "logL": logl.tolist(),
                              "logW": smp["logW"].tolist(), "kwargs": kw, "shape": [kind, vec, lin]}
                    stats["quantile_calls"] += 1
                    try:
                        n = s.determine_threshold_quantile(smp, **kw)
                    except Exception as ex:  # noqa: BLE001
                        if degenerate:
                            stats["quantile_degenerate_raises"] += 1
                        else:
                            v.violation("cut_index_raises",
                                        f"determine_threshold_quantile raised {type(ex).__name__}: {ex} "
                                        f"for {kind} weights {vec} lin={lin} q={q} likelihoods={tag}", replay)
                        continue
                    if not check_index(n, size, v, f"determine_threshold_quantile({kind} {vec} lin={lin}, "
                                       f"q={q}, likelihoods={tag})", replay):
                        continue
                    if degenerate or incl or (idx % oracle_every):
                        continue
                    # M: first sample at or above the Harrell-Davis cutoff
                    cutoff = hd_value(logl, lw.tolist(), q)
                    scale = max(1.0, float(np.max(np.abs(logl))))
                    if min(abs(float(x) - cutoff) for x in logl) <= 1e-9 * scale:
                        stats["quantile_oracle_ambiguous"] += 1
                        continue
                    expect = next((i for i, x in enumerate(logl) if float(x) >= cutoff), 0)
                    stats["quantile_oracle_compared"] += 1
                    if n != expect:
                        v.mismatch(f"determine_threshold_quantile: oracle index {expect}, real {n} for "
                                   f"{kind} {vec} lin={lin} q={q} likelihoods={tag}")
            # ---- determine_threshold_quantile with a large common offset of the log-weights
            if not degenerate and idx % 3 == 0:
                for off in (-700.0, 500.0):
                    smp = make_samples(logl, lw + off)
                    replay = {"case": "cut", "method": "quantile", "logL": logl.tolist(),
                              "logW": smp["logW"].tolist(), "kwargs": {"q": 0.8}, "shape": [kind, vec, lin]}
                    stats["quantile_calls"] += 1
                    try:
                        n = s.determine_threshold_quantile(smp, q=0.8)
                        check_index(n, size, v, f"determine_threshold_quantile({kind} {vec} lin={lin}, q=0.8, "
                                    f"log-weights shifted by {off:g}, likelihoods={tag})", replay)
                    except Exception as ex:  # noqa: BLE001
                        v.violation("cut_index_raises",
                                    f"determine_threshold_quantile raised {type(ex).__name__}: {ex} for {kind} "
                                    f"weights {vec} lin={lin} shifted by {off:g} q=0.8 likelihoods={tag}", replay)
            # ---- weighted_quantile
            if degenerate:
                try:
                    weighted_quantile(logl, 0.5, log_weights=lw, values_sorted=True)
                    v.mismatch("weighted_quantile accepted all -inf weights")
                except ValueError:
                    stats["wq_degenerate_raises"] += 1
                except Exception as ex:  # noqa: BLE001
                    v.mismatch(f"weighted_quantile raised {type(ex).__name__} for all -inf weights")
                continue
            perm = list(range(size))
            rng.shuffle(perm)
            perm = np.array(perm)
            calls = [("sorted", logl, lw, True), ("unsorted", logl[perm], lw[perm], False)]
            eqw = is_equal_weights(lw)
            if eqw:
                calls.append(("no_weights", logl[perm], None, False))
            # un-normalised log-weights with a large common offset are the same weights
            if idx % 3 == 0:
                for off in (-400.0, -1000.0, 600.0):
                    calls.append((f"log-weights shifted by {off:g}", logl, lw + off, True))
            outs = {}
            for cname, vals, lws, srt in calls:
                outs[cname] = check_wq(weighted_quantile, vals, lws, srt, qs, eqw, v, stats,
                                       f"{kind} {vec} lin={lin} likelihoods={tag} ({cname})")
            # the same weighted sample given in another order (values_sorted=False) has the same quantiles
            a, b = outs.get("sorted"), outs.get("unsorted")
            if a is not None and b is not None and a.shape == b.shape:
                tol_ = 1e-9 * max(1.0, float(np.max(np.abs(logl))))
                if np.any(np.abs(a - b) > tol_):
                    v.violation("wq_depends_on_input_order",
                                f"weighted_quantile of the same weighted sample differs between sorted input "
                                f"{a.tolist()} and permuted input with values_sorted=False {b.tolist()} for "
                                f"{kind} {vec} lin={lin} likelihoods={tag}",
                                {"case": "wq_order", "values": logl.tolist(), "log_weights": lw.tolist(),
                                 "perm": perm.tolist(), "qs": qs.tolist()})


def check_wq(weighted_quantile, vals, lws, srt, qs, eqw, v, stats, what):
    replay = {"case": "wq", "values": np.asarray(vals).tolist(),
              "log_weights": None if lws is None else np.asarray(lws).tolist(),
              "values_sorted": srt, "qs": qs.tolist(), "equal_weights": eqw}
    stats["wq_calls"] += 1
    try:
        out = np.asarray(weighted_quantile(vals, qs, log_weights=lws, values_sorted=srt), dtype=float)
    except Exception as ex:  # noqa: BLE001
        v.violation("wq_raises", f"weighted_quantile raised {type(ex).__name__}: {ex} for {what}", replay)
        return None
    lo, hi = float(np.min(vals)), float(np.max(vals))
    tol = 1e-9 * max(1.0, abs(lo), abs(hi))
    if out.shape != qs.shape:
        v.mismatch(f"weighted_quantile returned shape {out.shape} for {len(qs)} quantiles ({what})")
        out = out.reshape(-1)[:len(qs)]
    if np.any(~np.isfinite(out)) or np.any(out < lo - tol) or np.any(out > hi + tol):
        v.violation("wq_outside_data_range",
                    f"weighted_quantile {out.tolist()} outside the data range [{lo}, {hi}] for {what}", replay)
    if np.any(np.diff(out) < -tol):
        v.violation("wq_not_monotone",
                    f"weighted_quantile not monotone in q: {out.tolist()} at q={qs.tolist()} for {what}", replay)
    # scalar q gives the same value (M)
    one = np.asarray(weighted_quantile(vals, float(qs[5]), log_weights=lws, values_sorted=srt), dtype=float)
    if one.size != 1 or abs(float(one.reshape(-1)[0]) - out[5]) > tol:
        v.mismatch(f"weighted_quantile scalar/array quantile disagree for {what}")
    if eqw:
        srt_vals = np.sort(vals)
        zero = [0.0] * len(srt_vals)
        for q, got in zip(qs, out):
            if q in (0.0, 1.0):
                want = float(srt_vals[0] if q == 0.0 else srt_vals[-1])
            else:
                want = float(hd_value(srt_vals, zero, float(q)))
            stats["wq_equal_weight_comparisons"] += 1
            if abs(got - want) > tol:
                v.violation("wq_equal_weights",
                            f"equal weights: weighted_quantile(q={q}) = {got!r}, the unweighted "
                            f"Harrell-Davis quantile is {want!r} for {what}", replay)
    return out


def end_to_end(s, wshapes, by_key, configs_by_size, lvecs, v, stats, rng, per_shape):
    """Real cut index + real clamp, nothing scripted: the method's own choice is
    what the real determine_threshold_<method> returns for these samples."""
    for _, kind, vec, lin in wshapes:
        size = len(vec)
        if size not in configs_by_size:
            continue
        lw = shape_log_weights(vec, lin)
        tag, logl, _ = lvecs[size][rng.randrange(2)]
        samples = make_samples(logl, lw)
        for cfg in rng.sample(configs_by_size[size], min(per_shape, len(configs_by_size[size]))):
            for method, kw in (("entropy", dict(q=rng.choice([0.1, 0.5, 0.9]), use_log_weights=not lin)),
                               ("quantile", dict(q=rng.choice([0.2, 0.8, 0.99])))):
                try:
                    n0 = getattr(s, f"determine_threshold_{method}")(samples, **kw)
                except Exception:  # noqa: BLE001 - judged in replay_quantile
                    continue
                st = by_key.get(cfg + (n0,))
                if st is None:
                    continue
                configure(s, st)
                out, exc = call_threshold(s, samples, method, kw)
                stats["end_to_end_calls"] += 1

                def ctx(full=False, st=st, method=method, kw=kw, tag=tag):
                    if full:
                        return {"case": "e2e", "state": st, "logL": logl.tolist(), "logW": lw.tolist(),
                                "method": method, "kwargs": kw}
                    return (f"real cut index n0={st['n0']} ({method} {kw}, {kind} weights {vec} lin={lin}) "
                            f"size={st['size']} min_samples={st['minS']} min_remove={st['minR']} "
                            f"max_samples={st['maxS'] or None} nlive={st['nlive']} "
                            f"draw_constant={st['const']} likelihoods={tag}")

                judge_clamp(st, logl, out, exc, v, ctx, stats)


# ---------------------------------------------------------------------------
# the slow real calls (scipy's logsumexp/betainc dominate) run in forked workers

class Collector:
    """Verdict stand-in inside a worker; the parent re-emits what it collected."""

    def __init__(self):
        self.violations = []
        self.mismatches = []

    def violation(self, sig, what, replay=None):
        if len(self.violations) < 40:
            self.violations.append((sig, what, replay))

    def mismatch(self, what):
        if len(self.mismatches) < 40:
            self.mismatches.append(what)


_G: dict = {}


def _worker(task):
    k, chunk, seed = task
    g = _G
    rng = random.Random(seed * 1000003 + k)
    col = Collector()
    stats = dict.fromkeys(g["stat_keys"], 0)
    replay_quantile(g["s"], chunk, g["lvecs"], col, stats, g["oracle_every"], rng, g["cut_qs"], g["n_lvecs"])
    end_to_end(g["s"], chunk, g["by_key"], g["configs_by_size"], g["lvecs"], col, stats, rng, g["per_shape"])
    return col.violations, col.mismatches, stats


def run_workers(wshapes, seed, v, stats):
    import multiprocessing

    from .common import NCPU
    n = max(1, min(NCPU, len(wshapes) // 8))
    # interleave so that every worker gets short and long vectors
    tasks = [(k, wshapes[k::4 * n], seed) for k in range(4 * n)]
    with multiprocessing.get_context("fork").Pool(n) as pool:
        for viol, mism, st in pool.imap_unordered(_worker, tasks):
            for sig, what, replay in viol:
                v.violation(sig, what, replay)
            for what in mism:
                v.mismatch(what)
            for key, val in st.items():
                stats[key] += val


def quiet():
    logging.getLogger("nessai").setLevel(logging.CRITICAL)
    logging.disable(logging.CRITICAL)
    warnings.simplefilter("ignore")
    np.seterr(all="ignore")


def state_key(st):
    return (st["size"], st["minS"], st["minR"], st["maxS"], st["nlive"], st["const"])


def main(tier: str) -> int:
    seed = seed_from_env()
    v = Verdict(PROP, tier, seed, "model_checking")
    rng = random.Random(seed)
    if tier == "quick":
        bounds = dict(max_size=6, max_min=7, max_live=6, max_cap=13, max_len=8, max_any=4)
        big = None
        oracle_every, per_shape, cut_qs, n_lvecs = 4, 6, (0.5, 0.8, 0.99), 2
    else:
        bounds = dict(max_size=8, max_min=9, max_live=8, max_cap=17, max_len=8, max_any=5)
        big = dict(max_size=12, max_min=13, max_live=12, max_cap=25)
        oracle_every, per_shape, cut_qs, n_lvecs = 1, 24, (0.1, 0.5, 0.8, 0.99), 3
    stats = dict.fromkeys(
        ["clamp_calls", "p_evaluations", "entropy_calls", "entropy_exact_compared", "entropy_inexact_diff",
         "quantile_calls", "quantile_degenerate_raises", "quantile_oracle_compared",
         "quantile_oracle_ambiguous", "wq_calls", "wq_degenerate_raises", "wq_equal_weight_comparisons",
         "end_to_end_calls"], 0)
    quiet()
    with Scratch("c17-") as scratch:
        clamp_cfg = scratch / "clamp.cfg"
        clamp_cfg.write_text(CLAMP_CFG.format(liveness="", export="ACTION_CONSTRAINT ExportClamp", **bounds))
        # termination and per-action coverage (both slow in TLC) on smaller constants
        small = dict(max_size=4, max_min=5, max_live=3, max_cap=8)
        small_cfg = scratch / "small.cfg"
        small_cfg.write_text(CLAMP_CFG.format(liveness="PROPERTY TerminatesClamp", export="", **small))
        cut_cfg = scratch / "cut.cfg"
        cut_cfg.write_text(CUT_CFG.format(**bounds))
        with ThreadPoolExecutor(4) as ex:
            f_apa = ex.submit(run_apalache, scratch)
            f_cut = ex.submit(run_tlc, "Threshold", str(cut_cfg), metadir=scratch / "mcut", workers=2,
                              collect_prefix="SHAPE", timeout=1500)
            f_small = ex.submit(run_tlc, "Threshold", str(small_cfg), metadir=scratch / "msmall", workers=2,
                                coverage=True, timeout=1500)
            f_big = None
            if big:
                big_cfg = scratch / "big.cfg"
                big_cfg.write_text(FN_CFG.format(**big))
                f_big = ex.submit(run_tlc, "Threshold", str(big_cfg), metadir=scratch / "mbig", workers=6,
                                  timeout=3000, heap="8g")
            res = run_tlc("Threshold", str(clamp_cfg), metadir=scratch / "mclamp", workers=10,
                          collect_prefix="CLAMP", timeout=3000)
            require_ok(res, "Threshold (clamp)")
            rcut = f_cut.result()
            require_ok(rcut, "Threshold (cut)")
            rsmall = f_small.result()
            require_ok(rsmall, "Threshold (clamp, termination and coverage)")
            apa = f_apa.result()
            rbig = None
            if f_big is not None:
                rbig = f_big.result()
                require_ok(rbig, "Threshold (clamp, large bounds)")
        states, shapes = res.printed, rcut.printed
        v.note(f"TLC clamp: {res.distinct} states, {res.generated} transitions, {len(states)} finished calls "
               f"({res.wall_s:.0f}s); cut: {rcut.distinct} states, {len(shapes)} (shape, q) cases "
               f"({rcut.wall_s:.0f}s); Apalache: {apa}")
        if rbig is not None:
            v.note(f"TLC function-only, bounds {big}: {rbig.distinct} inputs ({rbig.wall_s:.0f}s), "
                   "ThFunction/ThTight/ThSolved")

        # ---- vacuity: every branch taken, every clause's antecedent met
        for a in CLAMP_ACTIONS:
            if a not in rsmall.coverage or min(rsmall.coverage[a]) <= 0:
                raise MachineryError(f"Threshold.tla: action {a} never taken (coverage {rsmall.coverage.get(a)})")
        if "IndexWrap" not in rsmall.coverage or max(rsmall.coverage["IndexWrap"]) > 0:
            raise MachineryError("Threshold.tla: IndexWrap (negative index) is reachable; TypeOK should forbid it")
        by_key = {}
        for st in states:
            by_key[state_key(st) + (st["n0"],)] = st
        states = list(by_key.values())
        n_cfg = len({state_key(st) for st in states})
        if sum(st["size"] for st in {state_key(s_): s_ for s_ in states}.values()) != len(states):
            raise MachineryError("exported states do not cover every n0 of every configuration")
        counts = {
            "in_domain": sum(st["dom"] for st in states),
            "min_samples_branch_in_domain": sum(st["dom"] and st["caseB"] for st in states),
            "min_remove_clause_in_domain": sum(st["dom"] and st["caseC"] for st in states),
            "cap_in_domain": sum(st["dom"] and st["capped"] for st in states),
            "cap_binding_in_domain": sum(st["dom"] and st["capped"] and st["loCap"] > max(st["loR"], st["eq"])
                                         for st in states),
            "outside_domain": sum((not st["dom"]) and st["minR"] >= 1 for st in states),
            "index_error_predicted": sum(st["kind"] == "IndexError" for st in states),
            "zero_return_predicted": sum(st["kind"] == "zero" for st in states),
            "literal_reading_boundary": sum(st["dom"] and st["lit"] for st in states),
            "min_remove_equals_size_raises": sum(st["kind"] == "IndexError" and st["minR"] == st["size"]
                                                 and st["maxS"] == 0 for st in states),
        }
        for k, c in counts.items():
            if c <= 0:
                raise MachineryError(f"vacuous: no exported state with {k}")

        # ---- the real code
        s = build_sampler(scratch / "ins")
        max_len = max(bounds["max_size"], bounds["max_len"])
        lvecs = {}
        for size in range(1, max_len + 1):
            lvecs[size] = [(tag, vals, make_samples(vals)) for tag, vals in likelihood_vectors(size, rng)]
        t0 = time.time()
        replay_clamp(s, states, lvecs, v, stats)
        v.note(f"clamp replay: {stats['clamp_calls']} real calls, {stats['p_evaluations']} inside the domain "
               f"({time.time() - t0:.0f}s)")
        t0 = time.time()
        replay_entropy(s, shapes, lvecs, v, stats)
        wshapes = sorted({(sh["kind"], tuple(sh["v"]), sh["lin"]) for sh in shapes})
        wshapes = [(i, k, list(vec), lin) for i, (k, vec, lin) in enumerate(wshapes)]
        configs_by_size = {}
        for key in {state_key(st) for st in states if st["minR"] >= 1}:
            configs_by_size.setdefault(key[0], []).append(key)
        for lst in configs_by_size.values():
            lst.sort()
        _G.update(s=s, lvecs=lvecs, by_key=by_key, configs_by_size=configs_by_size, stat_keys=list(stats),
                  oracle_every=oracle_every, per_shape=per_shape, cut_qs=cut_qs, n_lvecs=n_lvecs)
        run_workers(wshapes, seed, v, stats)
        v.note(f"cut replay: entropy {stats['entropy_calls']}, quantile {stats['quantile_calls']}, "
               f"weighted_quantile {stats['wq_calls']}, end to end {stats['end_to_end_calls']} real calls "
               f"({time.time() - t0:.0f}s)")
        if min(stats["clamp_calls"], stats["entropy_calls"], stats["quantile_calls"], stats["wq_calls"],
               stats["end_to_end_calls"], stats["entropy_exact_compared"], stats["quantile_oracle_compared"],
               stats["wq_equal_weight_comparisons"]) <= 0:
            raise MachineryError(f"a part of the replay did not run: {stats}")

    def pick(cond):
        return [dict(st, clause="0<=k<size, eq<0 or k==eq, k>=loR, k>=loCap on the real index k")
                for st in states if st["size"] >= 4 and st["n0"] >= 1 and cond(st)][:1]

    sample_states = pick(lambda st: st["dom"] and st["capped"] and st["caseB"] and st["nlive"] > 1) + \
        pick(lambda st: st["dom"] and st["capped"] and st["caseC"] and st["loCap"] > st["loR"] > st["n0"]) + \
        pick(lambda st: st["kind"] == "IndexError" and not st["capped"]) + \
        [st for st in states if st["dom"] and st["lit"] and st["size"] >= 3][:1]
    v.coverage = {
        "states": res.distinct + rcut.distinct + rsmall.distinct + (rbig.distinct if rbig else 0),
        "transitions": res.generated + rcut.generated + rsmall.generated + (rbig.generated if rbig else 0),
        "traces_validated_against_impl": 0,
        "behaviours_replayed": len(states) + len(shapes),
        "clamp_states_exported": len(states), "clamp_configurations": n_cfg,
        "clamp_tlc": {"distinct": res.distinct, "generated": res.generated, "wall_s": round(res.wall_s, 1)},
        "clamp_tlc_termination_and_coverage": {
            "bounds": small, "distinct": rsmall.distinct, "generated": rsmall.generated,
            "actions_taken": {a: rsmall.coverage[a][0] for a in CLAMP_ACTIONS + ["IndexWrap"]}},
        "cut_tlc": {"distinct": rcut.distinct, "generated": rcut.generated, "cases": len(shapes),
                    "distinct_weight_vectors": len(wshapes)},
        "clamp_tlc_large": None if rbig is None else
            {"bounds": big, "distinct": rbig.distinct, "generated": rbig.generated,
             "wall_s": round(rbig.wall_s, 1), "exported": False,
             "what": "every input as an initial state (InitFn); ThFunction, ThTight, ThSolved"},
        "apalache_unbounded": apa,
        "state_classes": counts,
        **stats,
        "exhaustive": True, "bounds": bounds,
        "domain": "size >= 1, 0 <= n0 < size, min_samples >= 1, min_remove >= 1 and the clauses are jointly "
                  "satisfiable: (size - max(n0,1) >= min_samples => min_remove <= size - 1); with "
                  "draw_constant and max_samples: max_samples >= nlive + 1, and >= min_samples + nlive when "
                  "the min_samples branch applies.  Outside it (ThTight) no index meets the statement; the "
                  "code then raises IndexError or breaks a clause, which is compared with the model only.",
        "interpretation": "'the method's own choice' is the choice after the code's n0 = 0 rule (0 is read as "
                          "1 when min_remove >= 1).  The literal reading differs only for n0 = 0 and "
                          "size = min_samples, where the code keeps exactly min_samples and removes nothing "
                          "(TheoremLiteral).",
        "samples": sample_states + shapes[len(shapes) // 3: len(shapes) // 3 + 2],
        "rule": "every (n0, size, min_samples, min_remove, max_samples, nlive, draw_constant) finished call of "
                "Threshold.tla's complete graph is replayed on a real ImportanceNestedSampler with the cut index "
                "scripted, for both methods and 3-5 likelihood vectors (distinct dyadic, distinct at offset -1e5, "
                "tied pairs, all tied, random ties); every (weight shape, q) case of the cut machine is run "
                "through the real determine_threshold_entropy (exact integer comparison) and every distinct "
                "weight vector through determine_threshold_quantile and weighted_quantile (mpmath Harrell-Davis "
                "oracle); end-to-end calls use the real cut index as n0.  The clause 'in real runs every "
                "proposal is trained on at least min_samples samples' is checked on real INS runs by trace "
                "validation against TraceImportanceSampler.tla (threshold is a live likelihood, >= min_remove "
                "removed, training set >= min_samples).",
    }
    # ---- the clause about real runs: every proposal is trained on at least min_samples samples, the
    # threshold is a live sample's likelihood, at least min_remove are removed (TraceImportanceSampler.tla)
    from .nsruns import ins_spec, run_corpus, validate_ins

    sd = seed * 1000 + 170
    rspecs = [ins_spec("gauss2", sd + 1, 100, min_samples=20, min_remove=1),
              ins_spec("rosen2", sd + 2, 100, min_samples=60, min_remove=10, draw_constant=False),
              ins_spec("gauss2", sd + 3, 50, min_samples=48, min_remove=5, draw_constant=False),
              ins_spec("gauss4", sd + 4, 100, min_samples=30, max_samples=250, threshold_method="quantile",
                       threshold_kwargs={"q": 0.7}),
              ins_spec("gauss2", sd + 5, 100, min_samples=90, min_remove=50, strict_threshold=True),
              # ties: a flat top (many samples at the maximum likelihood) and a ladder of plateaus
              ins_spec("flat2", sd + 6, 50, min_samples=20, max_iteration=6),
              ins_spec("flat2", sd + 7, 50, min_samples=20, max_iteration=6, draw_iid_live=False),
              ins_spec("plateau2", sd + 8, 60, min_samples=25, min_remove=5, max_iteration=5)]
    if tier == "thorough":
        k = 6
        for ms, mr, dc in ((10, 1, True), (40, 20, False), (95, 30, False), (50, 50, True), (99, 1, False)):
            for meth in ("entropy", "quantile"):
                rspecs.append(ins_spec("gauss2", sd + k, 100, min_samples=ms, min_remove=mr, draw_constant=dc,
                                       threshold_method=meth))
                k += 1
    with Scratch("c17r-") as rscratch:
        rhs = run_corpus(rspecs, rscratch / "runs")
        rrecords, rstats, _ = validate_ins(rhs, rscratch)
        for r in rrecords:
            if r["k"] == "P" and r["p"] == "C17":
                h = rhs[r["h"]]
                v.violation("real_run:" + r["c"], f"INS run {json.dumps(h['spec']['kwargs'])[:200]}: clause "
                            f"'{r['c']}' fails at event {r['l']}", {"spec": h["spec"], "event": r["ev"]})
        not_done = [h for h in rhs if h["codes"][-1] != 0]
        for h in not_done:
            v.mismatch(f"real INS run did not complete: {h['codes']} {json.dumps(h['spec']['kwargs'])[:160]}")
    v.coverage["traces_validated_against_impl"] = len(rhs)
    v.coverage["real_run_iterations"] = rstats["iterations"]
    v.coverage["states"] += rstats["states"]
    v.coverage["transitions"] += rstats["transitions"]
    v.assumptions = [
        "live likelihoods are finite and sorted ascending (what OrderedSamples guarantees, C04); with a -inf "
        "likelihood of positive weight the quantile method raises RuntimeError by design",
        "weight vectors with at least one finite log-weight; all -inf weights make weighted_quantile raise "
        "ValueError (recorded, not judged)",
        "tolerance 1e-9 * max(1, |data|) for the floating-point clauses of weighted_quantile; scipy.special."
        "betainc is trusted only through the comparison with mpmath",
        "with tied likelihoods a threshold is judged by the best index among the live samples carrying it",
    ]
    return v.finish()


# ---------------------------------------------------------------------------

class _Echo:
    """Verdict stand-in for --replay: prints, counts, writes nothing."""

    def __init__(self):
        self.n = 0

    def violation(self, sig, what, replay=None):
        self.n += 1
        print(f"VIOLATION property={PROP} replay=-  # {sig}: {what}", flush=True)

    def mismatch(self, what):
        print(f"MODEL-MISMATCH property={PROP} {what}", flush=True)


def replay(path: str) -> int:
    """Re-run the single real call recorded in a replay file."""
    with open(path) as f:
        r = json.load(f)
    quiet()
    v = _Echo()
    stats = dict.fromkeys(["p_evaluations", "wq_calls", "wq_equal_weight_comparisons"], 0)
    with Scratch("c17r-") as scratch:
        case = r["case"]
        if case in ("clamp", "e2e"):
            s = build_sampler(scratch / "ins")
            st = r["state"]
            logl = np.array(r["logL"], dtype=float)
            samples = make_samples(logl, np.array(r["logW"], dtype=float) if "logW" in r else None)
            if case == "clamp":
                fake = Patched()
                fake.n0 = st["n0"]
                s.determine_threshold_entropy = fake
                s.determine_threshold_quantile = fake
            configure(s, st)
            out, exc = call_threshold(s, samples, r["method"], r.get("kwargs", {}))
            print(f"call: determine_log_likelihood_threshold(samples[{len(logl)}], method={r['method']!r}, "
                  f"**{r.get('kwargs', {})}) with {st} -> "
                  f"{out!r}" + (f" raised {type(exc).__name__}: {exc}" if exc else ""))
            judge_clamp(st, logl, out, exc, v, lambda full=False: r if full else "replayed case", stats)
        elif case == "cut":
            s = build_sampler(scratch / "ins")
            logl = np.array(r["logL"], dtype=float)
            samples = make_samples(logl, np.array(r["logW"], dtype=float))
            try:
                n = getattr(s, f"determine_threshold_{r['method']}")(samples, **r["kwargs"])
                print(f"determine_threshold_{r['method']} -> {n!r}")
                check_index(n, len(logl), v, f"determine_threshold_{r['method']}", None)
            except Exception as ex:  # noqa: BLE001
                v.violation("cut_index_raises", f"{type(ex).__name__}: {ex}")
        elif case == "wq":
            from nessai.utils.stats import weighted_quantile
            lws = None if r["log_weights"] is None else np.array(r["log_weights"], dtype=float)
            check_wq(weighted_quantile, np.array(r["values"], dtype=float), lws, r["values_sorted"],
                     np.array(r["qs"], dtype=float), r["equal_weights"], v, stats, "replayed case")
        else:
            raise MachineryError(f"unknown replay case {case!r}")
    print(f"[{PROP}] replay violations={v.n}")
    return 1 if v.n else 0


if __name__ == "__main__":
    sys.exit(main(sys.argv[1] if len(sys.argv) > 1 else "quick"))
