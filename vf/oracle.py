"""Independent evaluators of the numeric facts that properties state as
equalities.  They are deliberately tiny re-implementations in mpmath and
enter the traces as booleans (DESIGN.md 3.2)."""

from __future__ import annotations

import math

import mpmath as mp
import numpy as np

mp.mp.dps = 40

TOL = 1e-9


def close(a, b, tol=TOL):
    a = float(a)
    b = float(b)
    if math.isnan(a) or math.isnan(b):
        return math.isnan(a) and math.isnan(b)
    if math.isinf(a) or math.isinf(b):
        return a == b
    return abs(a - b) <= tol * max(1.0, abs(a), abs(b))


def indep_in_bounds(model, x):
    """Independent of Model.in_bounds: every named parameter inside its own [lower, upper], field by field."""
    x = np.atleast_1d(x)
    ok = np.ones(x.shape, dtype=bool)
    for name in model.names:
        lo, hi = model.bounds[name]
        ok &= (x[name] >= lo) & (x[name] <= hi)
    return ok


def _lse(a, b):
    if a == -mp.inf:
        return b
    if b == -mp.inf:
        return a
    m = max(a, b)
    return m + mp.log(mp.e ** (a - m) + mp.e ** (b - m))


def ns_quadrature(logLs, nlives, expectation="logt", finalised=True):
    """The nested-sampling quadrature of a sequence of (logL_k, n_k).

    Returns dict(logZ_rect, logZ, info, log_vols, log_post_w) as mp/floats.
    Rectangle rule incrementally, information by the documented recursion,
    trapezoid with a closing point at zero volume when finalised."""
    logw = mp.mpf(0)
    logZ = -mp.inf
    info = mp.mpf(0)
    vols = [mp.mpf(0)]
    Ls = [-mp.inf]
    for L, n in zip(logLs, nlives):
        L = mp.mpf(float(L)) if math.isfinite(float(L)) else (-mp.inf if float(L) < 0 else mp.inf)
        if expectation == "logt":
            logt = -mp.mpf(1) / n
        else:
            logt = -mp.log1p(mp.mpf(1) / n)
        Wt = logw + L + mp.log1p(-mp.e ** logt)
        oldZ = logZ
        logZ = _lse(logZ, Wt)
        if oldZ != -mp.inf and logZ != -mp.inf and L != -mp.inf and mp.isfinite(L):
            info = mp.e ** (Wt - logZ) * L + mp.e ** (oldZ - logZ) * (info + oldZ) - logZ
        logw += logt
        Ls.append(L)
        vols.append(logw)
    out = {"logZ_rect": logZ, "info": info, "log_vols": vols}
    # trapezoid: points (-inf, L1..Lm, Lm) against (0, X1..Xm, -inf)
    LL = Ls + [Ls[-1]]
    VV = vols + [-mp.inf]
    acc = -mp.inf
    terms = []
    for k in range(len(LL) - 1):
        lw = VV[k] + mp.log1p(-mp.e ** (VV[k + 1] - VV[k])) if VV[k + 1] != -mp.inf else VV[k]
        lL = _lse(LL[k], LL[k + 1]) - mp.log(2)
        terms.append(lw)
        acc = _lse(acc, lL + lw)
    out["logZ_trap"] = acc
    out["logZ"] = acc if finalised else logZ
    # posterior weights: logL_k + log(X_{k-1} - X_k) - logZ_trap for k = 1..m
    out["log_post_w"] = [LL[k + 1] + terms[k] - acc for k in range(len(Ls) - 1)]
    return out


def standard_result_facts(fs, obs, expectation=None):
    """Booleans for C05 on a finished standard run (recomputed from the
    returned samples alone)."""
    ns = fs.ns
    model = obs.model
    samples = np.asarray(fs.nested_samples)
    n = samples.size
    it = int(ns.iteration)
    nlive = int(ns.nlive)
    fin = bool(ns.finalised)
    facts = {"n_returned": int(n), "nlive": nlive}
    L = samples["logL"].astype(float)
    facts["ascending"] = bool(np.all(L[:-1] <= L[1:])) if n > 1 else True
    facts["count_ok"] = bool(n == (it + nlive if fin else it))
    # schedule implied by the samples alone: it entries with nlive, then nlive..1
    nl = [nlive] * min(it, n) + [nlive - i for i in range(max(0, n - it))]
    try:
        q = ns_quadrature(L, nl, expectation=expectation or ns.state.expectation, finalised=fin)
        facts["logZ_ok"] = close(fs.logZ, q["logZ"]) and close(ns.log_evidence, q["logZ"])
        err = math.sqrt(max(float(q["info"]), 0.0) / nlive) if float(q["info"]) >= 0 else float("nan")
        facts["logZ_err_ok"] = close(fs.logZ_error, err, 1e-7) and close(ns.state.log_evidence_error, err, 1e-7)
        lw = np.asarray(ns.state.log_posterior_weights, dtype=float)
        facts["weights_ok"] = bool(lw.size == n and all(close(a, b) for a, b in zip(lw, q["log_post_w"])))
        facts["vols_ok"] = bool(len(ns.state.log_vols) == n + 1 and
                                all(close(a, b) for a, b in zip(ns.state.log_vols, q["log_vols"])))
    except Exception as ex:  # oracle failure is a machinery problem, flagged by None
        facts["oracle_error"] = f"{type(ex).__name__}: {ex}"
    # faithful to the model
    obs.in_observer = True
    try:
        inb = indep_in_bounds(model, samples) if n else np.array([], bool)
        lp = np.atleast_1d(model.log_prior(samples)) if n else np.array([])
        ll = np.atleast_1d(model.log_likelihood(samples)) if n else np.array([])
    finally:
        obs.in_observer = False
    facts["logL_model_ok"] = bool(n == 0 or np.all(np.isclose(ll, samples["logL"], rtol=1e-12, atol=1e-12)))
    facts["logP_model_ok"] = bool(n == 0 or np.all(np.isclose(lp, samples["logP"], rtol=1e-12, atol=1e-12)))
    facts["in_bounds_ok"] = bool(np.all(inb))
    # birth likelihoods strictly below
    try:
        birth = np.asarray(ns.birth_log_likelihoods, dtype=float)
        facts["birth_ok"] = bool(birth.size == n and np.all(birth < L))
    except Exception as ex:
        facts["birth_ok"] = False
        facts["birth_error"] = f"{type(ex).__name__}: {ex}"
    # the result dictionary reports the same as the sampler object
    d = ns.get_result_dictionary()
    facts["dict_ok"] = bool(
        close(d["log_evidence"], fs.logZ) and close(d["log_evidence_error"], fs.logZ_error)
        and np.array_equal(np.asarray(d["nested_samples"]), samples)
        and np.array_equal(np.asarray(d["log_posterior_weights"], float),
                           np.asarray(ns.state.log_posterior_weights, float))
        and list(map(int, d["insertion_indices"])) == list(map(int, ns.insertion_indices))
        and int(d["total_likelihood_evaluations"]) == int(ns.model.likelihood_evaluations)
    )
    # C15: the values compared by the loop are the ones reported in the history
    h = ns.history or {}
    its = list(h.get("iterations", []))
    dl = list(h.get("dlogZ", []))
    facts["history_ok"] = bool(len(its) == len(dl) and all(
        (it not in obs.cond_by_it) or (obs.cond_by_it[it] == float(c)) for it, c in zip(its, dl)))
    facts["history_checked"] = int(sum(1 for it in its if it in obs.cond_by_it))
    facts["n_posterior"] = int(np.asarray(fs.posterior_samples).size)
    # posterior samples are elements of the nested samples
    ps = np.asarray(fs.posterior_samples)
    facts["posterior_subset"] = bool(set(map(bytes, (ps[i:i + 1].tobytes() for i in range(ps.size))))
                                     <= set(map(bytes, (samples[i:i + 1].tobytes() for i in range(n)))))
    facts["logZ"] = float(fs.logZ)
    facts["res_digest"] = _res_digest(fs)
    return facts


def _res_digest(fs):
    from .common import digest31

    ns = fs.ns
    return digest31(np.asarray(fs.nested_samples).tobytes(), repr(float(fs.logZ)),
                    np.asarray(ns.state.log_posterior_weights, float).tobytes(),
                    int(ns.model.likelihood_evaluations))
