"""C11 — a process kill during checkpointing never leaves the run unresumable.

spec/Checkpoint.tla models the file operations of utils.io.safe_file_dump and
FlowModel.save_weights, a kill between any two of them and the resume protocol
with its exception filter; TLC checks the design (atomic weights) and the
code-faithful configuration and exports the predicted outcome of every kill
state.  The harness records the real operation sequence of real checkpoints and
weights saves (interposition on shutil.move / open / torch.save), and for every
prefix of it (and several torn-file lengths) kills a real run there
(os._exit), resumes it with FlowSampler(resume=True) in a fresh process and
classifies what happened.
"""

from __future__ import annotations

import json
import os
import sys
from pathlib import Path

from .common import Scratch, Verdict, seed_from_env, MachineryError
from .nsruns import run_corpus, std_spec, validate_standard
from .pack import load_events
from .tlc import run_tlc, require_ok

PROP = "C11"

CFG = """SPECIFICATION Spec
CONSTANTS
  SaveExisting = {se}
  AtomicWeights = {aw}
  MaxCkpt = 3
  MaxTrain = 2
INVARIANT MainNeverTorn
INVARIANT AlwaysOneComplete
INVARIANT PickleResumable
{resumable}
ACTION_CONSTRAINT ExportOutcome
CHECK_DEADLOCK FALSE
"""


def tlc_part(scratch, v):
    states = trans = 0
    table = {}
    for aw in ("TRUE", "FALSE"):
        for se in ("TRUE", "FALSE"):
            cfg = scratch / f"ck_{aw}_{se}.cfg"
            cfg.write_text(CFG.format(se=se, aw=aw, resumable="INVARIANT Resumable" if aw == "TRUE" else ""))
            res = run_tlc("Checkpoint", str(cfg), metadir=scratch / f"m_{aw}_{se}", workers=4,
                          collect_prefix="OUT", timeout=600)
            require_ok(res, f"Checkpoint.tla AtomicWeights={aw} SaveExisting={se}")
            states += res.distinct
            trans += res.generated
            if aw == "FALSE" and se == "TRUE":
                for r in res.printed:
                    key = (r["fs"]["pkl"], r["fs"]["old"], r["fs"]["pt"], r["needPkl"], r["needOld"])
                    table.setdefault(key, set()).add(r["outcome"])
    v.note(f"Checkpoint.tla: 4 configurations, {states} states; design (atomic weights) satisfies Resumable, "
           f"code-faithful configuration satisfies PickleResumable; {len(table)} distinct kill states exported")
    return states, trans, table


def base_spec(seed, **kw):
    return std_spec("gauss2", seed, 50, checkpoint_interval=40, **kw)


def plan(ops_by_call, tier):
    """Kill points: every prefix of the recorded operation sequence of the
    chosen calls; for writes several torn lengths."""
    targets = []
    ck = sorted(n for (k, n) in ops_by_call if k == "ckpt")
    wt = sorted(n for (k, n) in ops_by_call if k == "weights")
    chosen = []
    if ck:
        chosen.append(("ckpt", ck[0]))                    # early: nothing on disk yet
        if len(ck) > 2:
            chosen.append(("ckpt", ck[2]))                # late: .old and weights exist
        if tier == "thorough" and len(ck) > 4:
            chosen.append(("ckpt", ck[4]))
    if wt:
        chosen.append(("weights", wt[0]))                 # first save: no weights yet
        if len(wt) > 1:
            chosen.append(("weights", wt[1]))             # later save: moves model.pt away first
        if tier == "thorough" and len(wt) > 2:
            chosen.append(("weights", wt[2]))
    fracs = [0.0, 0.5, 0.97] if tier == "quick" else [0.0, 0.01, 0.25, 0.5, 0.75, 0.97, 0.999]
    for call in chosen:
        ops = ops_by_call[call]
        for i in range(len(ops) + 1):
            if i < len(ops) and ops[i].startswith("write:"):
                for f in fracs:
                    targets.append(dict(mode="kill", target=list(call), op=i, frac=f))
            else:
                targets.append(dict(mode="kill", target=list(call), op=i, frac=None))
    return targets


def analyse(h, v: Verdict, table, stats):
    raw = load_events([f for f in h["events"] if os.path.exists(f)])
    fault = next((e for e in raw if e["ev"] == "fault"), None)
    what = {"fault": h["spec"]["extra_by_proc"]["0"]["fs_faults"], "codes": h["codes"]}
    if fault is None:
        v.mismatch(f"kill point never reached: {what}")
        return
    stats["kills"] += 1
    p0 = [e for e in raw if e["proc"] == 0]
    p1 = [e for e in raw if e["proc"] == 1]
    done_ckpts = [e for e in p0 if e["ev"] == "ckpt"]
    begun = [e for e in p0 if e["ev"] == "ckpt_begin"]
    new_completed = fault["kind"] == "ckpt" and any(
        o.startswith("move:") and ".temp->" in o for o in fault.get("ops_done", []))
    completed = len(done_ckpts) + (1 if new_completed else 0)
    saved_w = {e["flow_w"] for e in p0 if e["ev"] in ("weights_saved", "weights_begin")}
    resume = next((e for e in p1 if e["ev"] == "resume"), None)
    exc = next((e for e in p1 if e["ev"] == "exception"), None)
    init1 = next((e for e in p1 if e["ev"] == "init"), None)
    finished = any(e["ev"] == "done" for e in p1)
    replay = {"spec": h["spec"], "fault_event": fault, "codes": h["codes"]}
    where = f"kill before op {fault['op']} ({fault['before']}, frac={fault['frac']}) of {fault['kind']} #{fault['nth']}"

    in_weights_window = fault["kind"] == "weights" and (
        any(o.startswith("move:") for o in fault["ops_done"]) or any(o.startswith("open:") for o in fault["ops_done"])
        or fault["before"].startswith("write:")) and fault["before"] != "return"
    sigp = "weights_in_place:" if in_weights_window else ""
    h["in_weights_window"] = bool(in_weights_window)

    if resume is not None:
        outcome = "ok"
        valid = [e["digest"] for e in done_ckpts[-2:]] + [e["digest"] for e in begun[-1:]]
        if not any(resume["digest"] == d for d in valid):
            v.violation(sigp + "loaded_state_is_neither_previous_nor_new",
                        f"{where}: restored state matches no checkpoint of the killed process", replay)
        if resume.get("train", 0) > 0 and resume.get("flow_w", 0) not in saved_w:
            outcome = "ok_missing_weights"
            v.violation(sigp + "weights_not_restored",
                        f"{where}: resumed with training_count={resume['train']} but the flow weights are not those "
                        f"of any completed save (a freshly initialised flow)", replay)
    elif exc is not None or (h["codes"][-1] == 3):
        outcome = "failed"
        v.violation(sigp + "resume_failed", f"{where}: resume raised {exc['what'] if exc else '?'}", replay)
    elif init1 is not None:
        outcome = "fresh"
        if completed > 0:
            v.violation(sigp + "fresh_start_although_checkpoint_completed",
                        f"{where}: {completed} checkpoints had completed but the run started afresh", replay)
    else:
        outcome = "unknown"
        v.mismatch(f"{where}: could not classify the resumed process (codes {h['codes']})")
    if outcome in ("ok", "ok_missing_weights", "fresh") and not finished and h["codes"][-1] == -9:
        v.mismatch(f"{where}: the continued run hit the harness timeout")
    elif outcome in ("ok", "ok_missing_weights", "fresh") and not finished:
        v.violation(sigp + "continued_run_did_not_complete", f"{where}: sampling did not complete after the resume "
                    f"(exit codes {h['codes']})", replay)
    stats["outcomes"][outcome] = stats["outcomes"].get(outcome, 0) + 1
    # M-clause: the outcome predicted by Checkpoint.tla for this kill state
    out = Path(h["dir"]) / "out"
    h["real_outcome"] = outcome
    h["where"] = where


def ins_part(scratch, tier, seed, v, stats):
    """The same enumeration for the importance sampler (per-level weight files, with and without
    keeping the previous checkpoint)."""
    from .nsruns import ins_spec, validate_ins

    n_targets = 0
    all_hs = []
    for keep in (False, True):
        def mk():
            return ins_spec("gauss2", seed * 100 + 12, 100, max_iteration=5, save_existing_checkpoint=keep)
        rec = mk()
        rec["extra"] = {"fs_faults": {"mode": "record"}}
        (h0,) = run_corpus([rec], scratch / f"ins_rec_{keep}")
        if h0["codes"][-1] != 0:
            raise MachineryError(f"INS recording run failed: {h0['codes']} {h0['dir']}")
        raw = load_events(h0["events"])
        ops_by_call = {(e["kind"], e["nth"]): e["ops"] for e in raw if e["ev"] == "fs_ops"}
        targets = plan(ops_by_call, tier)
        n_targets += len(targets)
        specs = []
        for t in targets:
            s_ = mk()
            s_["extra_by_proc"] = {"0": {"fs_faults": t}}
            specs.append(s_)
        hs = run_corpus(specs, scratch / f"ins_kills_{keep}")
        for h in hs:
            raw = load_events([f for f in h["events"] if os.path.exists(f)])
            fault = next((e for e in raw if e["ev"] == "fault"), None)
            if fault is None:
                v.mismatch(f"INS kill point never reached: {h['spec']['extra_by_proc']['0']['fs_faults']}")
                continue
            stats["kills"] += 1
            where = (f"INS (save_existing_checkpoint={keep}): kill before op {fault['op']} ({fault['before']}, "
                     f"frac={fault['frac']}) of {fault['kind']} #{fault['nth']}")
            h["where"] = where
            p0 = [e for e in raw if e["proc"] == 0]
            p1 = [e for e in raw if e["proc"] == 1]
            done_ckpts = [e for e in p0 if e["ev"] == "ckpt"]
            begun = [e for e in p0 if e["ev"] == "ckpt_begin"]
            new_completed = fault["kind"] == "ckpt" and any(
                o.startswith("move:") and ".temp->" in o for o in fault.get("ops_done", []))
            completed = len(done_ckpts) + (1 if new_completed else 0)
            resume = next((e for e in p1 if e["ev"] == "resume"), None)
            exc = next((e for e in p1 if e["ev"] == "exception"), None)
            init1 = next((e for e in p1 if e["ev"] == "ins_init"), None)
            replay = {"spec": h["spec"], "fault_event": fault, "codes": h["codes"]}
            if resume is not None:
                out = "ok"
                valid = [e["digest"] for e in done_ckpts[-2:]] + [e["digest"] for e in begun[-1:]]
                if not any(resume["digest"] == d for d in valid):
                    v.violation("ins:loaded_state_is_neither_previous_nor_new",
                                f"{where}: restored state matches no checkpoint of the killed process", replay)
            elif exc is not None or h["codes"][-1] == 3:
                out = "failed"
                v.violation("ins:resume_failed", f"{where}: resume raised {exc['what'] if exc else '?'}", replay)
            elif init1 is not None:
                out = "fresh"
                if completed > 0:
                    v.violation("ins:fresh_start_although_checkpoint_completed",
                                f"{where}: {completed} checkpoints had completed but the run started afresh", replay)
            else:
                out = "unknown"
                v.mismatch(f"{where}: could not classify the resumed process (codes {h['codes']})")
            if out in ("ok", "fresh") and not any(e["ev"] == "done" for e in p1) and h["codes"][-1] == -9:
                v.mismatch(f"{where}: the continued run hit the harness timeout")
            elif out in ("ok", "fresh") and not any(e["ev"] == "done" for e in p1):
                v.violation("ins:continued_run_did_not_complete", f"{where}: sampling did not complete after the resume "
                            f"(exit codes {h['codes']})", replay)
            stats["outcomes"]["ins_" + out] = stats["outcomes"].get("ins_" + out, 0) + 1
        all_hs += [h for h in hs if h["codes"][-1] == 0]
    if all_hs:
        records, tstats, _ = validate_ins(all_hs, scratch, tag="ins_c11")
        for r in records:
            if r["k"] == "P" and r["p"] in ("C03", "C04", "C05"):
                h = all_hs[r["h"]]
                v.violation("ins:continued_run_invalid:" + r["c"].split(":")[-1].strip()[:60],
                            f"{h.get('where')}: clause {r['p']}/{r['c']} fails in the continued run",
                            {"spec": h["spec"], "event": r["ev"]})
    return n_targets, len(all_hs)


def main(tier: str) -> int:
    seed = seed_from_env()
    v = Verdict(PROP, tier, seed, "fault_enumeration")
    stats = {"kills": 0, "outcomes": {}}
    with Scratch("c11-") as scratch:
        states, trans, table = tlc_part(scratch, v)
        # 1. record the real operation sequences
        rec = base_spec(seed * 100 + 11)
        rec["extra"] = {"fs_faults": {"mode": "record"}}
        (h0,) = run_corpus([rec], scratch / "rec")
        if h0["codes"][-1] != 0:
            raise MachineryError(f"recording run failed: {h0['codes']} {h0['dir']}")
        raw = load_events(h0["events"])
        ops_by_call = {(e["kind"], e["nth"]): e["ops"] for e in raw if e["ev"] == "fs_ops"}
        if not ops_by_call:
            raise MachineryError("no checkpoint operations recorded")
        targets = plan(ops_by_call, tier)
        v.note(f"recorded {len(ops_by_call)} checkpoint/weights calls; {len(targets)} kill points")
        # 2. kill at every point, resume, continue
        specs = []
        for t in targets:
            s = base_spec(seed * 100 + 11)
            s["extra_by_proc"] = {"0": {"fs_faults": t}}
            specs.append(s)
        hs = run_corpus(specs, scratch / "kills")
        for h in hs:
            analyse(h, v, table, stats)
        # 2b. two kills: first inside a late checkpoint after the previous file was moved to .old (the resume
        #     falls back to .old), then inside the first checkpoint of the RESUMED process, resume again
        late = max(n for (k_, n) in ops_by_call if k_ == "ckpt" and n <= 3)
        ops_late = ops_by_call[("ckpt", late)]
        first_points = [i for i, o in enumerate(ops_late) if i > 0 and not o.startswith("move:nested") or
                        (o.startswith("move:") and ".temp->" in o)]
        first_points = [i for i in range(1, len(ops_late))]          # every point after the move to .old
        specs2 = []
        for i1 in (first_points if tier == "thorough" else first_points[:2] + first_points[-1:]):
            for i2 in (range(1, len(ops_late)) if tier == "thorough" else (1, len(ops_late) - 1)):
                s2 = base_spec(seed * 100 + 11)
                s2["extra_by_proc"] = {
                    "0": {"fs_faults": dict(mode="kill", target=["ckpt", late], op=i1, frac=0.5)},
                    "1": {"fs_faults": dict(mode="kill", target=["ckpt", 1], op=i2, frac=0.5)}}
                specs2.append(s2)
        hs2 = run_corpus(specs2, scratch / "kills2")
        for h in hs2:
            raw = load_events([f for f in h["events"] if os.path.exists(f)])
            faults = [e for e in raw if e["ev"] == "fault"]
            f2 = h["spec"]["extra_by_proc"]
            where = (f"two kills: op {f2['0']['fs_faults']['op']} of checkpoint #{late}, then op "
                     f"{f2['1']['fs_faults']['op']} of the resumed process's first checkpoint")
            h["where"] = where
            if len(faults) < 2:
                v.mismatch(f"{where}: second kill point not reached (codes {h['codes']})")
                if h["codes"][-1] == 0:
                    good_hs2 = True
                continue
            stats["kills"] += 1
            stats["double_kills"] = stats.get("double_kills", 0) + 1
            last = max(e["proc"] for e in raw)
            pl = [e for e in raw if e["proc"] == last]
            completed = sum(1 for e in raw if e["ev"] == "ckpt")
            resume = next((e for e in pl if e["ev"] == "resume"), None)
            exc = next((e for e in pl if e["ev"] == "exception"), None)
            init_l = next((e for e in pl if e["ev"] == "init"), None)
            replay = {"spec": h["spec"], "codes": h["codes"], "faults": faults}
            if resume is None and (exc is not None or h["codes"][-1] == 3):
                v.violation("double_kill:resume_failed", f"{where}: resume raised {exc['what'] if exc else '?'}", replay)
            elif resume is None and init_l is not None and completed > 0:
                v.violation("double_kill:fresh_start_although_checkpoint_completed",
                            f"{where}: {completed} checkpoints had completed but the run started afresh", replay)
            elif resume is not None:
                all_digests = [e["digest"] for e in raw if e["ev"] in ("ckpt", "ckpt_begin")]
                if not any(resume["digest"] == d for d in all_digests):
                    v.violation("double_kill:loaded_state_matches_no_checkpoint",
                                f"{where}: restored state matches no checkpoint written before", replay)
            if h["codes"][-1] == 3 and resume is not None:
                v.violation("double_kill:continued_run_failed", f"{where}: the continued run raised an exception", replay)
        # 3. the continued runs must be valid runs (trace validation, C01/C05 clauses)
        ok_hs = [h for h in hs if h["codes"][-1] == 0] + [h for h in hs2 if h["codes"][-1] == 0]
        records, tstats, packed = validate_standard(ok_hs, scratch) if ok_hs else ([], {"states": 0, "transitions": 0}, [])
        for r in records:
            if r["k"] == "P" and r["p"] in ("C01", "C05"):
                h = ok_hs[r["h"]]
                v.violation(("weights_in_place:" if h.get("in_weights_window") else "") + "continued_run_invalid:" + r["c"],
                            f"{h.get('where')}: clause {r['p']}/{r['c']} fails in the continued run",
                            {"spec": h["spec"], "event": r["ev"]})
        n_ins, n_ins_ok = ins_part(scratch, tier, seed, v, stats)
        distinct = len({(t["target"][0], t["target"][1], t["op"], t["frac"]) for t in targets}) + n_ins
        v.coverage = {
            "evaluations": stats["kills"],
            "distinct_nontrivial": distinct,
            "rule": "kill points = every prefix of the operation sequence recorded from the real checkpoint / "
                    "weights-save calls (early and late ones), writes torn at several lengths; each is one real run "
                    "killed there with os._exit, resumed in a fresh process and run to completion; distinct = "
                    "distinct (call, operation index, torn fraction)",
            "samples": [{"operations_of_a_late_checkpoint": ops_by_call.get(("ckpt", 3)),
                         "operations_of_a_weights_save": ops_by_call.get(("weights", 2)),
                         "a_kill_point": targets[len(targets) // 2]}],
            "outcomes": stats["outcomes"], "double_kill_histories": stats.get("double_kills", 0),
            "spec_states": states, "spec_transitions": trans,
            "continued_runs_validated_by_TLC": len(ok_hs) + n_ins_ok, "ins_kill_points": n_ins,
            "trace_states": tstats["states"],
        }
    v.assumptions = ["rename is atomic; a killed process leaves a prefix of the file it was writing",
                     "torch.save is emulated as open+write+close (saved, then truncated to the torn length)"]
    return v.finish()


if __name__ == "__main__":
    sys.exit(main(sys.argv[1] if len(sys.argv) > 1 else "quick"))
