"""Generates MANIFEST.json from the table below (single source of truth)."""

import json
from pathlib import Path

VERIF = Path(__file__).resolve().parent.parent

NS_NOTE = 'Trusted: TLC, the observers in vf/observe.py (wrappers at class level, linearisation point = return of the public call), the projection vf/pack.py (ids = 64-bit digests, dense ranks), the mpmath oracle vf/oracle.py. Exhaustive result holds for NLive=3, ranks<=3(4), 3 iterations, 1 kill/signal; real runs use tiny flows (2 blocks, 8 neurons, 30 epochs) on 2-4 parameter models.'

CHECKS = {
    "C04": dict(
        category="model_checking",
        technique="TLA+ spec OrderedSamples.tla checked exhaustively by TLC; every edge of its state graph "
                  "replayed on the real OrderedSamples; random long executions validated as traces by TLC",
        text="TLC proves the C04 invariants for all histories of the transcribed store (4 modes, bounded "
             "alphabet/batch/size, ties exhaustive); each of the ~10^5 edges is then executed on the real "
             "object and the property's clauses are evaluated on the real arrays, so a code change that "
             "breaks a clause on any bounded history is seen; long random runs are checked by trace validation.",
        design_ref="DESIGN.md 4 C04",
        note="Bounds: alphabet 3, batches <=2 (3 thorough), <=6 (8) stored samples for the exhaustive part; "
             "trusted: TLC, the projection in vf/c04.py; finalise's evidence update is not part of this check.",
    ),
    "C10": dict(
        category="model_checking",
        technique="TLA+ spec BatchEval.tla (all configurations x all pool execution orders) checked by TLC; "
                  "every configuration replayed on the real batch_evaluate_function / Model.batch_evaluate_*",
        text="TLC proves on the transcribed splitting rules that the calls partition the batch in order, each "
             "point is evaluated once and the counter rises once, for every (n, chunksize, n_pool, vectorised, "
             "pool) and every order in which a pool executes calls; each configuration is then executed on "
             "the real functions with a recording function and a fake pool running calls in random order, "
             "plus real fork pools.",
        design_ref="DESIGN.md 4 C10",
        note="Bounds n<=8 (12), chunksize<=9 (13), n_pool<=4 (5); Pool.map order preservation assumed; "
             "worker scheduling of real pools exercised, not enumerated.",
    ),
    "C17": dict(
        category="model_checking",
        technique="TLA+ spec Threshold.tla (clamp of determine_log_likelihood_threshold as integer function, entropy "
                  "cut as exact integer arithmetic) checked by TLC, theorems also discharged for unbounded integers by "
                  "Apalache; every exported state replayed as a call of the real method",
        text="TLC enumerates every (n0, size, min_samples, min_remove, max_samples, nlive, draw_constant) up to the "
             "bound and proves the C17 clauses in the domain where they are satisfiable; each state is one call of the "
             "real ImportanceNestedSampler.determine_log_likelihood_threshold with the cut index scripted; the two cut "
             "functions and weighted_quantile are exercised on TLC-enumerated weight shapes against an mpmath oracle.",
        design_ref="DESIGN.md 4 C17",
        note="'the method's own choice' is read after the code's n0=0 -> 1 rule; the training-set floor in real runs is "
             "checked by the INS trace validation (C03 corpus); quantile cut judged against a Harrell-Davis oracle.",
    ),
    "C18": dict(
        category="model_checking",
        technique="TLA+ spec LivePoints.tla (global registry of extra fields + conversions on abstract values) checked "
                  "by TLC; every edge replayed on the real registry and conversion functions; recorded random "
                  "histories validated by TLC (TraceLivePoints.tla)",
        text="TLC checks names/order/defaults/round-trip theorems for all add/reset histories within the bound; each "
             "edge is replayed on the real global registry and after each step every conversion function is called on "
             "instantiated names/values/shapes and compared field by field; zero-copy is checked with shares_memory and "
             "write-through.",
        design_ref="DESIGN.md 4 C18",
        note="Bounds: 3 extra names, <=2 names per add; names 1..20 and shapes up to 64 points sampled from the seed; "
             "where the statement is silent (re-adding a name with another default) deviations are MODEL-MISMATCH only.",
    ),
    "C01": dict(
        category="model_checking",
        technique="TLA+ spec NestedSampler.tla checked exhaustively by TLC (design configuration); real observed runs "
                  "validated step by step by TLC against TraceNestedSampler.tla (trace validation)",
        text="The state machine of the standard sampler (7-step critical section, pool, training, checkpoint, kill, "
             "resume, run-again) is model checked for all bounded histories; then every iteration of a corpus of real "
             "runs (ties via a discretised likelihood, a prior with a hole, several proposals/latent priors/"
             "reparameterisations, kill+resume histories) is a step of the trace specification on which TLC evaluates "
             "the replacement clause, sortedness, strictness, recorded-once and insertion-index clauses.",
        design_ref="DESIGN.md 4 C01",
        note=NS_NOTE,
    ),
    "C05": dict(
        category="model_checking",
        technique="terminal invariants of NestedSampler.tla checked by TLC; Done events of real runs validated by TLC "
                  "against TraceNestedSampler.tla with numeric facts recomputed by an independent mpmath oracle",
        text="TLC proves the terminal count/schedule invariants for all bounded histories incl. resumes; at the end of "
             "every real run the oracle recomputes evidence, uncertainty, weights and volumes from the returned samples "
             "alone, re-evaluates the model at every sample, checks birth likelihoods and the result dictionary; TLC "
             "requires all of these at the Done event together with the counts of the recorded history. Standard "
             "sampler here; the importance sampler's Done events are validated in the C03 corpus.",
        design_ref="DESIGN.md 4 C05",
        note=NS_NOTE,
    ),
    "C09": dict(
        category="model_checking",
        technique="Pool.tla (population by rejection sampling, three modes) model checked by TLC; population batches "
                  "(guarded hooks: weights, uniforms, acceptance mask), pools, draws and likelihood calls of real runs "
                  "validated by TLC against TraceNestedSampler.tla; LatentBall.tla (radial rule of the uniform n-ball "
                  "candidate draw) enumerated by TLC and replayed through the real draw_nsphere with scripted uniforms",
        text="Every pool of every real run is checked for bounds, prior and likelihood equal to the model's, size, each "
             "index handed out once, rejected draws unacceptable, the latent contour, and the likelihood never being "
             "called outside the support; through the guarded hooks every rejection-sampling batch must satisfy "
             "accept = (log w - max log w > log u) and the pool must be the first N accepted candidates in order "
             "(Pool.tla). The distributional clause (pool ~ prior restricted to the contour) is thereby reduced to the "
             "exactness of the acceptance rule given the candidates' density, which is assumed (C08).",
        design_ref="DESIGN.md 4 C09",
        note=NS_NOTE + " Not covered: statistical indistinguishability from brute-force rejection sampling (the "
             "candidates' density q is assumed); the contour clause is checked only where the forward pass is a "
             "point-wise inverse (plain FlowProposal, no auxiliary parameters, no boundary inversion).",
    ),
    "C12": dict(
        category="model_checking",
        technique="Kill/Resume actions of NestedSampler.tla model checked by TLC; real kill/resume histories (os._exit at "
                  "chosen likelihood calls, fresh process per resume) of both samplers validated by TLC against "
                  "TraceNestedSampler.tla / TraceImportanceSampler.tla; Schedule.tla (when a checkpoint call writes) "
                  "model checked and evaluated on every real checkpoint() call",
        text="TLC explores every placement of a kill and resume in the bounded model; real histories with 1-4 kills are "
             "traced across processes: at each resume the deep digest of the restored sampler must equal the digest at "
             "the checkpoint, the evaluation counter and the sampling time must continue cumulatively, and the "
             "completed run must satisfy the C01/C05 clauses.",
        design_ref="DESIGN.md 4 C12",
        note=NS_NOTE + " Sampling time is checked against the wall clock with a 1 s tolerance (downtime between "
             "processes is several seconds). Both samplers (INS histories with 1-3 kills, with and without saved "
             "density tables). Further clauses: a later process never starts afresh while a checkpoint exists; the "
             "restored proposal pool is usable exactly if it was when the checkpoint was written (targeted history: "
             "checkpoint_on_training after a retraining with samples left in the pool).",
    ),
    "C15": dict(
        category="model_checking",
        technique="loop-control actions of NestedSampler.tla (StopRule, Idempotent) model checked by TLC; per-iteration "
                  "condition values, run-again and resume-after-finish histories of real runs validated by TLC; "
                  "spec->code replay: behaviours of SimNestedSampler.tla (tlc -simulate) and every behaviour of the "
                  "stopping rule of SimImportanceSampler.tla are scripted through the real samplers, which must stop "
                  "where the specification stops",
        text="TLC checks that the loop body is entered only while the condition holds and that a finalised run is "
             "unchanged by run-again/resume; in real runs every iteration event requires the previous condition to "
             "exceed the tolerance, finalise requires it not to, the history must report the compared values, and "
             "run()-again / resume from the final checkpoint must return the same digest and evaluation count.",
        design_ref="DESIGN.md 4 C15",
        note=NS_NOTE + " Known finding cap_stopped_rerun (known_findings.json). The importance sampler's criteria "
             "(values = standard definitions, pairing with the user's tolerances, any/all, min/max iteration) are "
             "checked on its own corpus and by the scripted replays.",
    ),
    "C02": dict(
        category="model_checking",
        technique="TLA+ spec Integral.tla (the NS quadrature with exact rationals, incremental vs one-pass schedules) "
                  "checked by TLC; every exported case replayed through _NSIntegralState and compute_weights against a "
                  "Fraction/mpmath oracle; integrator calls of real runs validated by TLC (TraceIntegral.tla)",
        text="TLC enumerates all order types (ties, leading -inf), schedules and lengths within the bound and proves "
             "alignment, strictly decreasing volumes, incremental = one-pass schedule and scale equivariance on the "
             "exact model; each case is instantiated at 32 float scales/offsets and the real incremental and one-pass "
             "code must agree with each other and with a 50-digit oracle; long random sequences and real runs on top.",
        design_ref="DESIGN.md 4 C02",
        note="Exhaustive only structurally (length <=7/8, nlive <=4/5, 5 symbols); IEEE accuracy is sampled, not proved; "
             "tolerances are explicit float64 forward-error bounds stated in vf/c02.py.",
    ),
    "C11": dict(
        category="fault_enumeration",
        technique="TLA+ spec Checkpoint.tla (file-system states, writer statements, kill anywhere, resume protocol with "
                  "its exception filter) checked by TLC; the recorded real operation sequence of real checkpoints and "
                  "weights saves is killed at every prefix and torn length, resumed in a fresh process and classified",
        text="TLC shows that the pickle protocol alone is resumable from every kill point and that the in-place weights "
             "save is not (design vs code-faithful configuration); the harness interposes on shutil.move/open/"
             "torch.save, records what a real checkpoint and a real weights save do, and for every prefix (writes torn "
             "at several lengths) kills a real run there, resumes with FlowSampler(resume=True) and requires: loaded "
             "state = previous or new checkpoint, weights of a completed save, or a fresh start only if nothing had "
             "completed; the continued run must complete and satisfy the C01/C05 clauses (trace validation).",
        design_ref="DESIGN.md 4 C11",
        note="Both samplers (standard: save_existing=True, the only mode it uses; importance sampler: with and without "
             "save_existing_checkpoint, per-level weight files); process kill, not power loss (rename atomic; a killed "
             "writer leaves a prefix of the file, bytes still in a user-space buffer are lost); known findings "
             "weights_in_place:* (known_findings.json).",
    ),
    "C16": dict(
        category="model_checking",
        technique="TLA+ spec Resample.tla (rejection scan and multinomial arguments with the random source as input, ESS as "
                  "exact rational) checked by TLC; every case replayed through draw_posterior_samples / "
                  "effective_sample_size with the generator scripted; seeded real-generator calls validated by TLC "
                  "(TraceResample.tla) and by exact binomial bounds",
        text="TLC checks the keep rule (max always, zero never, monotone), indices/membership, exact size, p proportional "
             "to weights and the ESS bounds/scale invariance for all weight vectors up to the bound and all grid "
             "uniforms; each case is executed on the real functions with numpy's generator replaced by the spec's "
             "uniforms / a recorder, at several float instantiations.",
        design_ref="DESIGN.md 4 C16",
        note="Probability statements are reduced to deterministic rules on the random source (i.i.d. uniforms and a "
             "correct numpy.random.choice assumed; a seeded frequency test at <1e-9 checks those assumptions).",
    ),
    "C19": dict(
        category="exploration",
        technique="TLA+ spec Codec.tla (grammar of value kinds, per-format stored/read-back forms, extension handling) "
                  "checked by TLC; every generated dictionary written/read by the real save_results/save_kwargs; "
                  "kind-trees of real result dictionaries checked for membership by TLC (TraceCodec.tla)",
        text="The specification enumerates dictionaries over the kinds that appear in results (and those that must only "
             "not break the config file); each is instantiated with concrete values (NaN, infinities, None, numpy "
             "scalars, structured arrays, pools/classes/callbacks), saved with the real code in json/hdf5/h5, read back "
             "and compared leaf by leaf; result files and config.json of real runs of both samplers are read back and "
             "compared with the in-memory dictionary. This is encode/decode fidelity: the family serves as case "
             "generator with an oracle.",
        design_ref="DESIGN.md 4 C19",
        note="JSON stores most structured arrays as positional records (values compared position by position); numpy "
             "longdouble is compared after rounding to double; depth <=3, <=2 (3) leaves per generated dictionary.",
    ),
    "C13": dict(
        category="fault_enumeration",
        technique="Signal action of NestedSampler.tla model checked by TLC (safe at boundaries, unsafe inside the critical "
                  "section as the code allows); a real handler call is injected before every distinct source line of "
                  "an iteration and of finalise (sys.settrace), the run is resumed and the whole history validated by "
                  "TLC against TraceNestedSampler.tla; importance sampler: handler injected before/after each of the 13 "
                  "per-iteration steps; with a multiprocessing pool (n_pool=2) the pool operations are validated "
                  "against PoolLife.tla",
        text="TLC classifies every program counter of the iteration as safe/unsafe for a signal followed by a resume; "
             "the harness enumerates the source lines actually executed in a flow-phase iteration (training and a "
             "population inside) and in finalise, and for each runs the real history: handler (SIGTERM/SIGINT/SIGALRM, "
             "two exit codes), exit status, checkpoint present, resume in a fresh process, run to the end; TLC then "
             "evaluates the recorded-once / counts / live-set / valid-result clauses on the resumed history.",
        design_ref="DESIGN.md 4 C13",
        note=NS_NOTE + " Standard sampler; the handler is invoked from a line trace hook (= between bytecodes, before a "
             "source line). Known findings mid_iteration_pickle:* identified by region and shape of the pickled state.",
    ),
    "C03": dict(
        category="model_checking",
        technique="TLA+ spec ImportanceSampler.tla (proposal/column/count bookkeeping, stopping rule, checkpoint/resume) "
                  "checked by TLC; every iteration, finalise and resume of real INS runs validated by TLC against "
                  "TraceImportanceSampler.tla with the numeric equalities evaluated by an independent oracle",
        text="TLC proves for all bounded histories (incl. kill/resume) that every stored row has one density column per "
             "proposal and that the per-proposal counts add up to the stored samples (so weights counts/total sum to "
             "one); in real runs the oracle re-evaluates the saved proposals at every stored sample of both stores "
             "(float32 accuracy), recomputes the mixture density with weights = fraction of samples per proposal read "
             "from the samples' own iteration labels, the log-weights, the unit-hypercube test and the model's "
             "likelihood; TLC requires these booleans and the bookkeeping at every boundary, after finalise and after "
             "every resume.",
        design_ref="DESIGN.md 4 C03",
        note="Numeric equalities are evaluated by vf/oracle_ins.py (float32 tolerance 2e-4 on flow log-densities, 1e-9 on "
             "float64 quantities); the specification contributes the bookkeeping that makes them meaningful. Tiny flows, "
             "2-4 parameter models, <=6 levels.",
    ),
    "C14": dict(
        category="model_checking",
        technique="TLA+ self-composition Determinism.tla (two runs in lock-step, every chunking of every batch) and "
                  "BatchEval.tla model checked by TLC; pairs of real runs compared event by event by TLC "
                  "(TraceDeterminism.tla)",
        text="The 2-safety property is checked on the model for every way the two runs may split their batches (and "
             "refuted for a variant where the split leaks into the random stream); real runs of both samplers with the "
             "same seed - in another process, twice in one process, with pool sizes 1-3, a user-supplied pool, chunk "
             "sizes 1/7/huge, parallel prior - are compared with the base run at every iteration boundary (digests of "
             "samples, live points, integrator, evaluation counter, numpy/torch generator state) and on the final "
             "digests; the first differing event localises a divergence.",
        design_ref="DESIGN.md 4 C14",
        note="Likelihood built from exactly rounded operations (vectorised == pointwise bitwise); worker scheduling of "
             "real pools is exercised, not enumerated; Pool.map order preservation assumed.",
    ),
    "C20": dict(
        category="exploration",
        technique="TLA+ spec Config.tla (option domains of both samplers, up-front validation transcribed as "
                  "RejectedUpFront) enumerated by TLC; every single-option configuration (thorough: sampled pairs) run "
                  "for real in a bounded subprocess; completed runs validated by TLC against the sampler trace specs",
        text="TLC enumerates the configurations that differ from the default in one documented option value (default, "
             "alternatives, one invalid value; 60+ options of both samplers) and predicts which are rejected up front; "
             "each is executed on a 2- or 3-parameter Gaussian under the observers with a wall-clock bound and "
             "classified: configuration error before the initial points are drawn and before any likelihood call / "
             "completed (then the C01, C03, C05 clauses are checked by trace validation) / failure after sampling "
             "started / no termination.",
        design_ref="DESIGN.md 4 C20",
        note="Termination is bounded by wall clock (150 s vs ~5 s nominal), proposal draws are not counted; gravitational-"
             "wave options are not covered (lalsuite/bilby absent); known findings late_failure:* / no_termination:* "
             "identified by the option value that triggers them (known_findings.json).",
    ),
}

NOT_YET = {k: 'check not built yet (work in progress; see DESIGN.md 8 for the order of work)' for k in ['C01', 'C02', 'C03', 'C05', 'C09', 'C10', 'C11', 'C12', 'C13', 'C14', 'C15', 'C16', 'C17', 'C18', 'C19', 'C20']}
for _k in CHECKS:
    NOT_YET.pop(_k, None)

NOT_APPLICABLE = {
    "C06": "statistical calibration of evidence/posterior over seeds: a statement about a distribution of "
           "floating-point outcomes; no state machine decides it and TLC has neither reals nor probability",
    "C07": "numeric identities of real-valued reparameterisation maps and Jacobians on a continuum; not "
           "representable in TLA+'s integer universe (discrete parts covered under C12/C20)",
    "C08": "floating-point consistency/normalisation of neural flow densities; nothing to enumerate as states",
}


def build():
    checks = []
    for pid, c in sorted(CHECKS.items()):
        checks.append({
            "property_id": pid,
            "quick_cmd": f"./check {pid} --tier quick",
            "thorough_cmd": f"./check {pid} --tier thorough",
            "evidence_file": f"/verif/evidence/{pid}.json",
            "replay_cmd_template": f"./check {pid} --replay {{path}}",
            "engine": "tlc+vf",
            "level_claimed": {"category": c["category"], "text": c["text"],
                              "design_ref": c["design_ref"]},
            "level_note": c["note"],
            "technique": c["technique"],
        })
    na = [{"property_id": k, "reason": v} for k, v in sorted({**NOT_APPLICABLE, **NOT_YET}.items())]
    return {
        "version": 1,
        "setup_cmd": "./setup.sh",
        "hooks": {
            "guard": "NESSAI_VERIF",
            "enable": "checks export NESSAI_VERIF=1 before importing nessai from /repo (editable install in /venv)",
            "baseline_off_cmd": "cd /repo && env -u NESSAI_VERIF /venv/bin/python -m pytest -ra -q -p no:cacheprovider --timeout=900 --continue-on-collection-errors",
            "source_commits": ["ae66aba"],
            "add_only": True,
        },
        "engines": [
            {"name": "tlc+vf", "path": "/verif/check",
             "serves_properties": sorted(CHECKS),
             "kind_free_text": "TLA+ specifications in /verif/spec checked by TLC 1.8; Python harness /verif/vf binds them "
                               "to nessai by trace validation (code->spec) and behaviour replay (spec->code); Apalache "
                               "0.58 discharges unbounded integer theorems / inductive invariants (Threshold.tla in "
                               "C17, spec/apalache/MC_Schedule.tla in C12); tlapm proves the operator lemmas in "
                               "spec/proofs (C12)"},
        ],
        "checks": checks,
        "notes": "See DESIGN.md. Exit 0 held / 1 violation (VIOLATION line) / 2 machinery failure. "
                 "Known findings: known_findings.json.",
        "not_applicable": na,
    }


if __name__ == "__main__":
    m = build()
    (VERIF / "MANIFEST.json").write_text(json.dumps(m, indent=1) + "\n")
    print("wrote MANIFEST.json with", len(m["checks"]), "checks")
