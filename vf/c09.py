"""C09 — proposal pools follow the prior inside the contour and never leave
the prior (structural part: every population of real runs of the standard
sampler; the importance-sampler populations ride on vf/c03.py's corpus)."""

from __future__ import annotations

import sys

from .common import seed_from_env
from .nscheck import run_property
from .nsruns import std_spec, ins_spec

PROP = "C09"


def corpus(tier, seed):
    s = seed * 1000 + 900
    specs = [
        std_spec("gauss2", s + 1, 50),
        std_spec("hole2", s + 2, 50),
        std_spec("nonuni2", s + 3, 50, latent_prior="gaussian", constant_volume_mode=False),
        std_spec("gauss2", s + 4, 50, analytic_priors=True),
        std_spec("hole2", s + 5, 25, latent_prior="uniform_nball", constant_volume_mode=False),
        std_spec("gauss4", s + 6, 50, drawsize=37, poolsize=73),
        std_spec("nonuni2", s + 7, 50, accumulate_weights=True),
        std_spec("hole2", s + 15, 50, accumulate_weights=True, drawsize=41),
        std_spec("gauss2", s + 8, 50, truncate_log_q=True),
        std_spec("rosen2", s + 9, 50, fixed_radius=2.5, constant_volume_mode=False),
        std_spec("gauss2", s + 13, 50, constant_volume_mode=False, expansion_fraction=0.0, fuzz=1.0),
        std_spec("rosen2", s + 14, 25, constant_volume_mode=False, expansion_fraction=0.5),
        std_spec("plateau2", s + 10, 25, update_poolsize=False),
        std_spec("hole2", s + 11, 50, reparameterisations={"x0": "rescaletobounds", "x1": "logit"}),
        std_spec("gauss2", s + 12, 50, flow_proposal_class="clusteringflowproposal"),
        std_spec("angle2", s + 21, 50, reparameterisations={"phi": "angle", "y": "rescaletobounds"}),
        std_spec("angle2", s + 22, 25, reparameterisations={"phi": "angle-2pi"}, kills=[150]),
        # explicit reparameterisation for the SECOND parameter only: the proposal's parameter order differs
        # from model.names
        std_spec("angle2", s + 23, 50, reparameterisations={"y": "rescaletobounds"}),
        std_spec("rosen2", s + 24, 50, reparameterisations={"x1": {"reparameterisation": "default"}}),
        # different bounds per parameter, proposal order != model.names, likelihood mass at the narrow edge
        std_spec("rect2", s + 25, 50, reparameterisations={"c": "rescaletobounds"}),
        std_spec("rect2", s + 26, 50),
        std_spec("rect3", s + 28, 50, reparameterisations={"q": "rescaletobounds", "a": "logit"}),
        # prior that is -inf inside the bounds (disc in a box)
        std_spec("disc2", s + 27, 50),
        # tiny rejection batches on a prior with zero-density regions: a batch may hold only zero-prior candidates
        std_spec("disc2", s + 29, 25, drawsize=2, poolsize=40, update_poolsize=False, max_iteration=120),
        std_spec("disc2", s + 30, 25, drawsize=3, poolsize=40, update_poolsize=False, max_iteration=120,
                 latent_prior="uniform_nball", constant_volume_mode=False),
    ]
    if tier == "thorough":
        k = 13
        for model in ("gauss2", "hole2", "nonuni2", "rosen2", "gauss4"):
            for lp in ("truncated_gaussian", "gaussian", "uniform_nball", "uniform_nsphere"):
                for extra in ({}, {"accumulate_weights": True}, {"truncate_log_q": True},
                              {"drawsize": 31, "poolsize": 77}):
                    kw = dict(latent_prior=lp, **extra)
                    if lp != "truncated_gaussian":
                        kw["constant_volume_mode"] = False
                    specs.append(std_spec(model, s + k, 50, **kw))
                    k += 1
    return specs


def ins_corpus(tier, seed):
    s = seed * 1000 + 950
    specs = [ins_spec("gauss2", s + 1, 100), ins_spec("rosen2", s + 2, 100, draw_constant=False),
             ins_spec("gauss4", s + 3, 100, reparameterisation=None, strict_threshold=True),
             ins_spec("angle2", s + 4, 100, clip=True),
             # priors that are -inf inside the unit hypercube: candidates rejected by the prior filter must not
             # count towards the requested number
             ins_spec("disc2", s + 5, 60, max_iteration=4), ins_spec("disc2", s + 6, 100, draw_constant=False),
             ins_spec("rect3", s + 7, 60, max_iteration=3)]
    if tier == "thorough":
        k = 5
        for model in ("gauss2", "rosen2", "gauss4", "angle2"):
            for rep in ("logit", None):
                for dc in (True, False):
                    specs.append(ins_spec(model, s + k, 100, reparameterisation=rep, draw_constant=dc))
                    k += 1
    return specs


BALL_CFG = """SPECIFICATION Spec
CONSTANTS
  MaxD = {maxd}
  N = {n}
INVARIANT WellDefined
INVARIANT Monotone
INVARIANT EndPoints
INVARIANT Export
CHECK_DEADLOCK FALSE
"""


def latent_ball(v, scratch, tier, seed):
    """spec -> code: the radial rule of LatentBall.tla replayed through the real draw_nsphere with the uniform
    variates scripted (the direction is left to the real generator): a draw with u = k^D / N^D has radius
    fuzz * r * k / N.  A different use of the random source is a model mismatch, not a verdict."""
    import numpy as np

    from .tlc import run_tlc, require_ok

    cfg = scratch / "ball.cfg"
    cfg.write_text(BALL_CFG.format(maxd=4 if tier == "quick" else 6, n=8 if tier == "quick" else 12))
    res = run_tlc("LatentBall", str(cfg), metadir=scratch / "m_ball", workers=1, timeout=600, collect_prefix="BALL")
    require_ok(res, "LatentBall.tla")
    cases = {}
    for c in res.printed:
        cases.setdefault(int(c["d"]), []).append(c)
    from nessai.utils import sampling

    real_uniform = np.random.uniform
    n_calls = n_cases = 0
    unscripted = False
    for d, cs in sorted(cases.items()):
        cs.sort(key=lambda c: c["k"])
        u = np.array([c["unum"] / c["uden"] for c in cs], dtype=float)
        for r, fuzz in ((1.0, 1.0), (2.5, 1.0), (1.5, 2.0), (3.0, 1.3), (0.7, 0.5)):
            used = {"n": 0}

            def scripted(low=0.0, high=1.0, size=None):
                shape = tuple(np.atleast_1d(size).astype(int).tolist()) if size is not None else ()
                if (low, high) == (0, 1) and shape in ((len(u), 1), (len(u),)):
                    used["n"] += 1
                    return u.reshape(shape).copy()
                return real_uniform(low, high, size)

            np.random.uniform = scripted
            try:
                z = np.asarray(sampling.draw_nsphere(d, r=r, N=len(u), fuzz=fuzz), dtype=float)
            except Exception as ex:  # noqa: BLE001
                v.violation("latent_ball_raises", f"draw_nsphere(dims={d}, r={r}, N={len(u)}, fuzz={fuzz}) raised "
                            f"{type(ex).__name__}: {ex}", {"d": d, "r": r, "fuzz": fuzz})
                continue
            finally:
                np.random.uniform = real_uniform
            n_calls += 1
            if used["n"] != 1 or z.shape != (len(u), d):
                unscripted = True
                continue
            rho = np.sqrt(np.sum(z * z, axis=1))
            want = fuzz * r * np.array([c["radial"] / c["n"] for c in cs], dtype=float)
            n_cases += len(cs)
            bad = np.abs(rho - want) > 1e-9 * max(1.0, fuzz * r)
            if np.any(bad):
                i = int(np.flatnonzero(bad)[0])
                v.violation("latent_ball_radial_rule",
                            f"draw_nsphere(dims={d}, r={r}, fuzz={fuzz}): the uniform variate u = {cs[i]['unum']}/"
                            f"{cs[i]['uden']} must give the radius enclosing that fraction of the ball of radius "
                            f"fuzz*r = {fuzz * r}, i.e. {want[i]!r}; got {float(rho[i])!r} (candidates are not uniform "
                            f"in the contour the proposal claims)",
                            {"d": d, "r": r, "fuzz": fuzz, "u": u.tolist(), "radii": rho.tolist(), "want": want.tolist()})
    if unscripted:
        v.mismatch("draw_nsphere does not consume one vector of uniform variates per call as LatentBall.tla assumes")
    # the flow proposal uses this function for the two ball priors
    try:
        from nessai.proposal.flowproposal import FlowProposal  # noqa: F401
        import inspect

        src = inspect.getsource(FlowProposal.configure_latent_prior)
        if "draw_nsphere" not in src:
            v.mismatch("FlowProposal.configure_latent_prior no longer refers to draw_nsphere")
    except Exception:  # noqa: BLE001
        pass
    return {"latent_ball": {"spec_cases": len(res.printed), "real_calls": n_calls, "radii_compared": n_cases}}


def main(tier: str) -> int:
    seed = seed_from_env()
    return run_property(PROP, tier, corpus(tier, seed), ins_specs=ins_corpus(tier, seed), extra_checks=latent_ball,
                        note="Every population of every run: in bounds, prior finite and equal to the model's, "
                             "likelihood equal to the model's, pool size, each pool index handed out once, rejected "
                             "draws really unacceptable, likelihood never called outside the support. The "
                             "distributional clause is reduced to these structural facts (DESIGN 4 C09).")


if __name__ == "__main__":
    sys.exit(main(sys.argv[1] if len(sys.argv) > 1 else "quick"))
