"""C09 — proposal pools follow the prior inside the contour and never leave
the prior (structural part: every population of real runs of the standard
sampler; the importance-sampler populations ride on vf/c03.py's corpus)."""

from __future__ import annotations

import sys

from .common import seed_from_env
from .nscheck import run_property
from .nsruns import std_spec, ins_spec

PROP = "C09"


def corpus(tier, seed):
    s = seed * 1000 + 900
    specs = [
        std_spec("gauss2", s + 1, 50),
        std_spec("hole2", s + 2, 50),
        std_spec("nonuni2", s + 3, 50, latent_prior="gaussian", constant_volume_mode=False),
        std_spec("gauss2", s + 4, 50, analytic_priors=True),
        std_spec("hole2", s + 5, 25, latent_prior="uniform_nball", constant_volume_mode=False),
        std_spec("gauss4", s + 6, 50, drawsize=37, poolsize=73),
        std_spec("nonuni2", s + 7, 50, accumulate_weights=True),
        std_spec("hole2", s + 15, 50, accumulate_weights=True, drawsize=41),
        std_spec("gauss2", s + 8, 50, truncate_log_q=True),
        std_spec("rosen2", s + 9, 50, fixed_radius=2.5, constant_volume_mode=False),
        std_spec("gauss2", s + 13, 50, constant_volume_mode=False, expansion_fraction=0.0, fuzz=1.0),
        std_spec("rosen2", s + 14, 25, constant_volume_mode=False, expansion_fraction=0.5),
        std_spec("plateau2", s + 10, 25, update_poolsize=False),
        std_spec("hole2", s + 11, 50, reparameterisations={"x0": "rescaletobounds", "x1": "logit"}),
        std_spec("gauss2", s + 12, 50, flow_proposal_class="clusteringflowproposal"),
        std_spec("angle2", s + 21, 50, reparameterisations={"phi": "angle", "y": "rescaletobounds"}),
        std_spec("angle2", s + 22, 25, reparameterisations={"phi": "angle-2pi"}, kills=[150]),
        # explicit reparameterisation for the SECOND parameter only: the proposal's parameter order differs
        # from model.names
        std_spec("angle2", s + 23, 50, reparameterisations={"y": "rescaletobounds"}),
        std_spec("rosen2", s + 24, 50, reparameterisations={"x1": {"reparameterisation": "default"}}),
        # different bounds per parameter, proposal order != model.names, likelihood mass at the narrow edge
        std_spec("rect2", s + 25, 50, reparameterisations={"c": "rescaletobounds"}),
        std_spec("rect2", s + 26, 50),
        std_spec("rect3", s + 28, 50, reparameterisations={"q": "rescaletobounds", "a": "logit"}),
        # prior that is -inf inside the bounds (disc in a box)
        std_spec("disc2", s + 27, 50),
        # tiny rejection batches on a prior with zero-density regions: a batch may hold only zero-prior candidates
        std_spec("disc2", s + 29, 25, drawsize=2, poolsize=40, update_poolsize=False, max_iteration=120),
        std_spec("disc2", s + 30, 25, drawsize=3, poolsize=40, update_poolsize=False, max_iteration=120,
                 latent_prior="uniform_nball", constant_volume_mode=False),
    ]
    if tier == "thorough":
        k = 13
        for model in ("gauss2", "hole2", "nonuni2", "rosen2", "gauss4"):
            for lp in ("truncated_gaussian", "gaussian", "uniform_nball", "uniform_nsphere"):
                for extra in ({}, {"accumulate_weights": True}, {"truncate_log_q": True},
                              {"drawsize": 31, "poolsize": 77}):
                    kw = dict(latent_prior=lp, **extra)
                    if lp != "truncated_gaussian":
                        kw["constant_volume_mode"] = False
                    specs.append(std_spec(model, s + k, 50, **kw))
                    k += 1
    return specs


def ins_corpus(tier, seed):
    s = seed * 1000 + 950
    specs = [ins_spec("gauss2", s + 1, 100), ins_spec("rosen2", s + 2, 100, draw_constant=False),
             ins_spec("gauss4", s + 3, 100, reparameterisation=None, strict_threshold=True),
             ins_spec("angle2", s + 4, 100, clip=True),
             # priors that are -inf inside the unit hypercube: candidates rejected by the prior filter must not
             # count towards the requested number
             ins_spec("disc2", s + 5, 60, max_iteration=4), ins_spec("disc2", s + 6, 100, draw_constant=False),
             ins_spec("rect3", s + 7, 60, max_iteration=3)]
    if tier == "thorough":
        k = 5
        for model in ("gauss2", "rosen2", "gauss4", "angle2"):
            for rep in ("logit", None):
                for dc in (True, False):
                    specs.append(ins_spec(model, s + k, 100, reparameterisation=rep, draw_constant=dc))
                    k += 1
    return specs


def main(tier: str) -> int:
    seed = seed_from_env()
    return run_property(PROP, tier, corpus(tier, seed), ins_specs=ins_corpus(tier, seed),
                        note="Every population of every run: in bounds, prior finite and equal to the model's, "
                             "likelihood equal to the model's, pool size, each pool index handed out once, rejected "
                             "draws really unacceptable, likelihood never called outside the support. The "
                             "distributional clause is reduced to these structural facts (DESIGN 4 C09).")


if __name__ == "__main__":
    sys.exit(main(sys.argv[1] if len(sys.argv) > 1 else "quick"))
