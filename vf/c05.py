"""C05 — returned results are mutually consistent and faithful to the model
(standard sampler part; the importance sampler part rides on vf/c03.py's corpus)."""

from __future__ import annotations

import sys

from .common import seed_from_env
from .nscheck import run_property
from .nsruns import std_spec, ins_spec

PROP = "C05"


def corpus(tier, seed):
    s = seed * 1000 + 500
    specs = [
        std_spec("gauss2", s + 1, 50),
        std_spec("gauss2", s + 2, 50, shrinkage_expectation="t"),
        std_spec("plateau2", s + 3, 25, kills=[120, 90]),
        std_spec("hole2", s + 4, 50, max_iteration=130),
        std_spec("rosen2", s + 5, 50, kills=[400]),
        std_spec("gauss4", s + 6, 100),
        std_spec("nonuni2", s + 7, 50, kills=[150, 150, 150]),
        std_spec("plateau2", s + 8, 10, max_iteration=60, kills=[50]),
        std_spec("dyadic2", s + 9, 50, stopping=1.0),
        std_spec("gauss2", s + 10, 20, stopping=0.01),
        std_spec("angle2", s + 21, 50, reparameterisations={"phi": "angle", "y": "rescaletobounds"}),
        std_spec("angle2", s + 22, 25, reparameterisations={"phi": "angle-2pi"}, kills=[150]),
        # explicit reparameterisation for the SECOND parameter only: the proposal's parameter order differs
        # from model.names
        std_spec("angle2", s + 23, 50, reparameterisations={"y": "rescaletobounds"}),
        std_spec("rosen2", s + 24, 50, reparameterisations={"x1": {"reparameterisation": "default"}}),
        # unnormalised likelihoods: ln Z ~ -700 / +700
        std_spec("offlow2", s + 25, 25),
        std_spec("offhigh2", s + 26, 25),
        # prior_sampling: the result is the sorted initial live set, finalised at once
        std_spec("gauss2", s + 27, 50, prior_sampling=True),
        std_spec("nonuni2", s + 28, 20, prior_sampling=True, resume_after_done=1),
        std_spec("rect2", s + 29, 50, reparameterisations={"c": "rescaletobounds"}, kills=[200]),
        std_spec("disc2", s + 30, 25, max_iteration=100),
        std_spec("rect3", s + 31, 50, reparameterisations={"q": "rescaletobounds"}, kills=[220]),
        std_spec("gauss2", s + 32, 50, plot=True),       # with the sampler's own plots enabled
        # the option is accepted case-insensitively: every reader of it must agree on <log t>
        std_spec("gauss2", s + 33, 25, shrinkage_expectation="LogT"),
    ]
    if tier == "thorough":
        k = 11
        for model in ("gauss2", "plateau2", "hole2", "rosen2", "gauss4", "nonuni2", "dyadic2"):
            for nlive in (10, 25, 50, 100):
                for exp in ("logt", "t"):
                    kills = [80 + 31 * (k % 7)] * (k % 4)
                    cap = {"max_iteration": 3 * nlive} if k % 5 == 0 else {}
                    specs.append(std_spec(model, s + k, nlive, kills=kills, shrinkage_expectation=exp, **cap))
                    k += 1
    return specs


def ins_corpus(tier, seed):
    s = seed * 1000 + 550
    specs = [
        ins_spec("gauss2", s + 1, 100, resume_after_done=1, run_again=1),   # and resumed after it finished
        ins_spec("rosen2", s + 2, 100, draw_iid_live=False, resume_after_done=1),
        ins_spec("gauss4", s + 3, 100, strict_threshold=True, kills=[400]),
        ins_spec("gauss2", s + 4, 80, n_initial=150, draw_constant=False, kills=[300, 300]),
        ins_spec("gauss2", s + 5, 100, max_iteration=2, reparameterisation=None),
        ins_spec("trunc2", s + 6, 100, max_iteration=4),          # samples with log-likelihood -inf are returned
        ins_spec("offlow2", s + 7, 100, max_iteration=3),         # ln Z ~ -700: exp(ln Z) underflows float64
        ins_spec("offhigh2", s + 8, 100, max_iteration=3),        # ln Z ~ +700
        ins_spec("uprior2", s + 9, 100, max_iteration=4),         # prior not uniform in the unit hypercube
        ins_spec("offvlow2", s + 10, 100, max_iteration=3),       # ln L ~ -2e4: exp(ln Z) underflows long double
        ins_spec("rect2", s + 11, 100, max_iteration=4),          # different bounds per parameter, names not sorted
        ins_spec("rect3", s + 13, 100, max_iteration=4, draw_iid_live=False),
        ins_spec("disc2", s + 12, 100, max_iteration=3, kills=[300]),   # prior -inf inside the unit hypercube
    ]
    if tier == "thorough":
        k = 6
        for model in ("gauss2", "rosen2", "gauss4"):
            for iid in (True, False):
                for strict in (True, False):
                    for cap in (2, 6):
                        specs.append(ins_spec(model, s + k, 100, draw_iid_live=iid, strict_threshold=strict,
                                              max_iteration=cap, kills=[350] * (k % 3)))
                        k += 1
    return specs


def main(tier: str) -> int:
    seed = seed_from_env()
    return run_property(PROP, tier, corpus(tier, seed), ins_specs=ins_corpus(tier, seed),
                        note="At Done the oracle (vf/oracle.py, mpmath) recomputes evidence, uncertainty, weights and "
                             "volumes from the returned samples alone and re-evaluates the model at every sample; "
                             "uninterrupted, cap-stopped and killed/resumed histories.")


if __name__ == "__main__":
    sys.exit(main(sys.argv[1] if len(sys.argv) > 1 else "quick"))
