"""Running corpora of real sampler histories under observation and validating
their traces with TLC (binding 1, code -> spec)."""

from __future__ import annotations

import json
import os
import subprocess
import sys
from concurrent.futures import ThreadPoolExecutor
from pathlib import Path

from .common import NCPU, PY, VERIF, MachineryError
from .pack import load_events, pack_standard
from .tlc import run_tlc

TINY_FLOW = {"flow_config": {"n_blocks": 2, "n_neurons": 8},
             "training_config": {"max_epochs": 30, "patience": 5}}


def std_spec(model="gauss2", seed=1, nlive=50, kills=(), run_again=0, save=None,
             resume_after_done=0, **kw):
    kwargs = dict(TINY_FLOW)
    kwargs.update(maximum_uninformed=nlive, poolsize=2 * nlive,
                  checkpoint_on_iteration=True, checkpoint_interval=max(10, nlive // 2))
    kwargs.update(kw)
    return {"kind": "standard", "model": model, "seed": seed, "nlive": nlive, "kwargs": kwargs,
            "kills": list(kills), "run_again": run_again, "save": save,
            "resume_after_done": resume_after_done}


def run_history(spec, hdir: Path, timeout=600):
    """Run all processes of one history. Returns dict(events=[paths], codes=[...])."""
    hdir.mkdir(parents=True, exist_ok=True)
    out = hdir / "out"
    codes, files = [], []
    kills = list(spec.get("kills", []))
    env = dict(os.environ)
    env["PYTHONPATH"] = f"{env.get('VERIF_REPO', '/repo')}:{VERIF}" + (
        ":" + env["PYTHONPATH"] if env.get("PYTHONPATH") else "")
    env.setdefault("PYTHONHASHSEED", "0")
    env["OMP_NUM_THREADS"] = "1"
    proc = 0
    after_done = int(spec.get("resume_after_done", 0))
    while True:
        cfg = {k: spec[k] for k in ("kind", "model", "seed", "nlive", "kwargs")}
        cfg.update(output=str(out), events=str(hdir / f"ev{proc}.ndjson"), proc=proc,
                   resume=proc > 0, kill_at_eval=kills[proc] if proc < len(kills) else None,
                   run_again=spec.get("run_again", 0), save=spec.get("save"),
                   signal_handling=spec.get("signal_handling", False), exit_code=spec.get("exit_code"),
                   run_kwargs=spec.get("run_kwargs", {}))
        cfg.update(spec.get("extra", {}))
        cfg.update(spec.get("extra_by_proc", {}).get(str(proc), {}))
        cpath = hdir / f"cfg{proc}.json"
        cpath.write_text(json.dumps(cfg))
        try:
            p = subprocess.run([PY, "-m", "vf.runner", str(cpath)], env=env, cwd=str(VERIF),
                               capture_output=True, text=True, timeout=timeout)
            rc = p.returncode
        except subprocess.TimeoutExpired:
            rc = -9
        codes.append(rc)
        files.append(cfg["events"])
        if (rc == 137 or (spec.get("signal_exit") is not None and rc == spec["signal_exit"] and proc == 0)) \
                and proc < 20:
            proc += 1
            continue
        if rc == 0 and after_done > 0:
            after_done -= 1
            proc += 1
            continue
        break
    return {"events": files, "codes": codes, "spec": spec, "dir": str(hdir)}


def run_corpus(specs, scratch: Path, workers=None, timeout=600):
    workers = workers or max(1, NCPU - 1)
    with ThreadPoolExecutor(max_workers=workers) as ex:
        futs = [ex.submit(run_history, s, scratch / f"h{i}", timeout) for i, s in enumerate(specs)]
        return [f.result() for f in futs]


TRACE_CFG = """SPECIFICATION TraceSpec
CONSTANTS
  NLive = {nlive}
  MaxRank = 0
  MaxIt = 0
  PoolN = 0
  CapIt = 0
  CkptOnTraining = FALSE
  MidIterSignal = FALSE
  MaxStops = 0
CHECK_DEADLOCK FALSE
"""


def promote_completed_ckpt(raw):
    """A kill injected after the final rename of a checkpoint left the NEW
    checkpoint on disk although the observer's `ckpt` event (emitted when the
    dump returns) never appeared: turn the preceding ckpt_begin into it."""
    for i, e in enumerate(raw):
        if e["ev"] == "fault" and e.get("kind") == "ckpt" and \
                any(o.startswith("move:") and ".temp->" in o for o in e.get("ops_done", [])):
            for j in range(i - 1, -1, -1):
                if raw[j]["ev"] == "ckpt_begin" and raw[j]["proc"] == e["proc"]:
                    raw[j] = dict(raw[j], ev="ckpt")
                    break
    return raw


def bad_value(obj, path="$"):
    """First value TLC's JSON reader cannot take (non-integer number, |int| >= 2^31, null)."""
    if isinstance(obj, bool) or isinstance(obj, str):
        return None
    if isinstance(obj, int):
        return None if abs(obj) < 2 ** 31 else f"{path}={obj}"
    if isinstance(obj, dict):
        for k, v in obj.items():
            r = bad_value(v, f"{path}.{k}")
            if r:
                return r
        return None
    if isinstance(obj, (list, tuple)):
        for i, v in enumerate(obj):
            r = bad_value(v, f"{path}[{i}]")
            if r:
                return r
        return None
    return f"{path}={obj!r}"


def validate_standard(histories, scratch: Path, tag="std"):
    """Pack the histories, run TLC per nlive. Returns (records, stats).

    records: list of dicts {k: P|M, p: property, c: clause, h: history index,
    l: event index within history, ev: the packed event}."""
    packed = []
    for h in histories:
        raw = promote_completed_ckpt(load_events([f for f in h["events"] if os.path.exists(f)]))
        evs, info = pack_standard(raw)
        bad = bad_value(evs)
        if bad:
            # a trace that cannot be represented is a machinery problem of that history only
            print(f"MODEL-MISMATCH trace of history {len(packed)} not representable for TLC ({bad}); skipped",
                  flush=True)
            evs = [e for e in evs if not bad_value(e)]
        packed.append(evs)
    groups = {}
    for i, h in enumerate(histories):
        groups.setdefault(h["spec"]["nlive"], []).append(i)
    records, states, trans, done = [], 0, 0, set()
    skipped = []
    counter = [0]

    def run_group(nlive, idxs):
        nonlocal states, trans
        events, windows = [], []
        for i in idxs:
            windows.append([len(events) + 1, len(events) + len(packed[i])])
            events.extend(packed[i])
        counter[0] += 1
        tf = scratch / f"trace_{tag}_{nlive}_{counter[0]}.json"
        tf.write_text(json.dumps({"ev": events, "win": windows}))
        cfg = scratch / f"trace_{tag}_{nlive}_{counter[0]}.cfg"
        cfg.write_text(TRACE_CFG.format(nlive=nlive))
        res = run_tlc("TraceNestedSampler", str(cfg), workers=min(NCPU, max(1, len(idxs))),
                      metadir=scratch / f"mt_{tag}_{nlive}_{counter[0]}", env={"TRACE_FILE": str(tf)},
                      collect_prefix="TR", timeout=3000)
        if not res.ok:
            if len(idxs) > 1:           # isolate the history TLC cannot take
                mid = len(idxs) // 2
                run_group(nlive, idxs[:mid])
                run_group(nlive, idxs[mid:])
                return
            print(f"MODEL-MISMATCH trace of history {idxs[0]} could not be validated by TLC "
                  f"({res.error[:120]}); skipped", flush=True)
            skipped.append(idxs[0])
            done.add(idxs[0])
            return
        states += res.distinct
        trans += res.generated
        for r in res.printed:
            hi = idxs[r["tid"] - 1]
            if r["k"] == "done":
                done.add(hi)
                continue
            off = r["l"] - windows[r["tid"] - 1][0]
            records.append({"k": r["k"], "p": r["p"], "c": r["c"], "h": hi, "l": off,
                            "ev": packed[hi][off] if 0 <= off < len(packed[hi]) else None})

    for nlive, idxs in groups.items():
        run_group(nlive, idxs)
    if len(skipped) > max(1, len(histories) // 10):
        raise MachineryError(f"TLC could not validate {len(skipped)} of {len(histories)} traces")
    if len(done) != len(histories):
        raise MachineryError(f"only {len(done)}/{len(histories)} traces were consumed by TLC")
    stats = {"states": states, "transitions": trans, "events": sum(len(p) for p in packed),
             "iterations": sum(1 for p in packed for e in p if e["ev"] == "iter"),
             "populations": sum(1 for p in packed for e in p if e["ev"] == "populate"),
             "population_batches_hooked": sum(1 for p in packed for e in p if e["ev"] == "pbatch"),
             "pools_hooked": sum(1 for p in packed for e in p if e["ev"] == "ppool"),
             "checkpoints": sum(1 for p in packed for e in p if e["ev"] == "ckpt"),
             "resumes": sum(1 for p in packed for e in p if e["ev"] == "resume"),
             "tie_iterations": sum(1 for p in packed for e in p if e["ev"] == "iter"
                                   and len(set(e["live_ranks"])) < len(e["live_ranks"]))}
    return records, stats, packed


# ---------------------------------------------------------------------------
# importance nested sampler

INS_TRACE_CFG = """SPECIFICATION TraceSpec
CONSTANTS
  NInit = {ninit}
  NLive = 0
  DrawConstant = FALSE
  Iid = {iid}
  MinIt = 0
  MaxIt = 0
  NCrit = {ncrit}
  StopAny = FALSE
  MaxStops = 0
CHECK_DEADLOCK FALSE
"""


def ins_spec(model="gauss2", seed=1, nlive=100, kills=(), run_again=0, save=None, resume_after_done=0, **kw):
    kwargs = {"flow_config": {"n_blocks": 2, "n_neurons": 8},
              "training_config": {"max_epochs": 20, "patience": 5},
              "min_samples": max(10, nlive // 5), "max_iteration": 6,
              "checkpoint_on_iteration": True, "checkpoint_interval": 1}
    kwargs.update(kw)
    return {"kind": "ins", "model": model, "seed": seed, "nlive": nlive, "kwargs": kwargs,
            "kills": list(kills), "run_again": run_again, "save": save,
            "resume_after_done": resume_after_done}


def validate_ins(histories, scratch: Path, tag="ins"):
    from .pack_ins import pack_ins

    packed = [pack_ins(promote_completed_ckpt(load_events([f for f in h["events"] if os.path.exists(f)])))
              for h in histories]
    groups = {}
    for i, h in enumerate(histories):
        kw = h["spec"]["kwargs"]
        ninit = kw.get("n_initial") or h["spec"]["nlive"]
        crit = kw.get("stopping_criterion", "ratio")
        ncrit = len(crit) if isinstance(crit, list) else 1
        groups.setdefault((ninit, bool(kw.get("draw_iid_live", True)), ncrit), []).append(i)
    records, states, trans, done = [], 0, 0, set()
    for (ninit, iid, ncrit), idxs in groups.items():
        events, windows = [], []
        for i in idxs:
            windows.append([len(events) + 1, len(events) + len(packed[i])])
            events.extend(packed[i])
        name = f"{tag}_{ninit}_{int(iid)}_{ncrit}"
        tf = scratch / f"trace_{name}.json"
        tf.write_text(json.dumps({"ev": events, "win": windows}))
        cfg = scratch / f"trace_{name}.cfg"
        cfg.write_text(INS_TRACE_CFG.format(ninit=ninit, iid="TRUE" if iid else "FALSE", ncrit=ncrit))
        res = run_tlc("TraceImportanceSampler", str(cfg), workers=min(NCPU, max(1, len(idxs))),
                      metadir=scratch / f"mt_{name}", env={"TRACE_FILE": str(tf)},
                      collect_prefix="TR", timeout=3000)
        if not res.ok:
            raise MachineryError(f"INS trace validation ({name}) failed to run: {res.error}\n"
                                 + "\n".join(res.stdout.splitlines()[-40:]))
        states += res.distinct
        trans += res.generated
        for r in res.printed:
            hi = idxs[r["tid"] - 1]
            if r["k"] == "done":
                done.add(hi)
                continue
            off = r["l"] - windows[r["tid"] - 1][0]
            records.append({"k": r["k"], "p": r["p"], "c": r["c"], "h": hi, "l": off,
                            "ev": packed[hi][off] if 0 <= off < len(packed[hi]) else None})
    if len(done) != len(histories):
        raise MachineryError(f"only {len(done)}/{len(histories)} INS traces were consumed by TLC")
    stats = {"states": states, "transitions": trans, "events": sum(len(p) for p in packed),
             "iterations": sum(1 for p in packed for e in p if e["ev"] == "ins_iter"),
             "checkpoints": sum(1 for p in packed for e in p if e["ev"] == "ckpt"),
             "resumes": sum(1 for p in packed for e in p if e["ev"] == "resume"),
             "samples_checked": sum(e["tr"]["n"] + e["iid"]["n"] for p in packed for e in p
                                    if e["ev"] in ("ins_iter", "ins_final", "resume"))}
    return records, stats, packed


def validate_trainings(histories, scratch: Path, tag="train"):
    """Flow trainings of the histories as one trace for TraceTraining.tla. Returns (mismatch texts, n, states)."""
    evs = []
    for h in histories:
        for e in load_events([f for f in h["events"] if os.path.exists(f)]):
            if e["ev"] == "train":
                evs.append({k: e[k] for k in ("losses", "max_epochs", "patience", "validate", "restored")})
    if not evs:
        return [], 0, 0
    tf = scratch / f"trace_{tag}.json"
    tf.write_text(json.dumps({"ev": evs}))
    cfg = scratch / f"trace_{tag}.cfg"
    cfg.write_text("SPECIFICATION TraceSpec\nCHECK_DEADLOCK FALSE\n")
    res = run_tlc("TraceTraining", str(cfg), workers=1, metadir=scratch / f"mt_{tag}",
                  env={"TRACE_FILE": str(tf)}, collect_prefix="TR", timeout=1200)
    if not res.ok:
        return [f"TraceTraining could not be run: {res.error[:150]}"], len(evs), 0
    out = [f"training event {r['l']}: {r['c']} ({evs[r['l'] - 1]})" for r in res.printed if r["k"] == "M"]
    return out, len(evs), res.distinct
