"""Observer of the importance nested sampler (C03 and the INS halves of
C04 C05 C09 C12 C13 C15 C17)."""

from __future__ import annotations

import math
import os

import numpy as np

from .observe import Emitter, StandardObserver, fl
from .oracle_ins import store_facts, result_facts_ins, criteria_facts


class INSObserver(StandardObserver):
    def __init__(self, em: Emitter, model, kill_at_eval=None):
        super().__init__(em, model, kill_at_eval=kill_at_eval)
        self.trace_stores = False  # emit one event per OrderedSamples call (C04)
        self.user_stop = None     # the user's (criteria, tolerances, any/all), from the run configuration
        self.last_train_n = None
        self.last_threshold = None
        self.pre_remove = None

    # -- projections -----------------------------------------------------
    def store_state(self, ns, store, tol_q=None):
        if store is None or store.samples is None:
            return None
        from .oracle_ins import F32, F64

        # in a resumed process the density tables were re-derived (float32 accuracy) while the stored logQ of
        # samples that are not touched again still comes from the original tables
        default = F32 if getattr(self, "rederived", False) else F64
        return store_facts(ns, store, self.model, self, tol_q=tol_q or default)

    def counts(self, ns):
        import datetime as _dt

        prop = ns.proposal
        w = getattr(prop, "_weights", {})
        n_main = len(ns.samples_unit) if ns.samples_unit is not None else 0
        counts = [int(ns.sample_counts.get(k, -1)) for k in sorted(ns.sample_counts)]
        wl = [float(w[k]) for k in sorted(w)]
        # integer counts read back from the code's weights
        w_counts = [int(round(x * n_main)) if not math.isnan(x) else -1 for x in wl]
        w_resid = max([abs(x * n_main - c) for x, c in zip(wl, w_counts) if c >= 0] or [0.0])
        return {
            "it": int(ns.iteration),
            "nprop": int(len(w)),
            "n_flows": int(getattr(getattr(prop, "flow", None), "n_models", 0) or 0),
            "counts": counts, "w_counts": w_counts, "w_exact": bool(w_resid < 1e-9),
            "w_sum_one": bool(abs(sum(x for x in wl if not math.isnan(x)) - 1.0) < 1e-9),
            "w_set": bool(all(not math.isnan(x) for x in wl)),
            "n_main": int(n_main),
            "evals": int(ns.model.likelihood_evaluations),
            "evals_here": int(self.evals_here),
            "fin": bool(ns.finalised),
            "st": float(ns.sampling_time.total_seconds()),
            "el": self.elapsed(),
            "n_hist": len(ns.history["logZ"]) if ns.history else 0,
            "levels_on_disk": _levels_on_disk(ns),
            "sched": repr(getattr(ns, "_last_checkpoint", None)),
        }

    def deep_digest(self, ns):
        from .common import digest31

        d = {"it": int(ns.iteration), "fin": bool(ns.finalised)}
        for name, st in (("tr", ns.training_samples), ("iid", ns.iid_samples)):
            if st is None or st.samples is None:
                d[name] = None
                continue
            d[name + "_samples"] = digest31(st.samples.tobytes())
            d[name + "_live"] = None if st.live_points_indices is None else digest31(
                np.asarray(st.live_points_indices).tobytes())
            d[name + "_nested"] = digest31(np.asarray(st.nested_samples_indices).tobytes())
            d[name + "_thr"] = repr(st.log_likelihood_threshold)
        d["counts"] = repr(sorted(ns.sample_counts.items()))
        d["weights"] = repr(sorted((k, float(v)) for k, v in ns.proposal._weights.items()))
        d["level_count"] = int(ns.proposal.level_count)
        # the weights of the flow of every level, in level order (restored from levels/level_<k>/model.pt)
        try:
            from .observe import state_digest

            models = getattr(getattr(ns.proposal, "flow", None), "models", None)
            d["flows"] = repr([state_digest(m) for m in models]) if models is not None else "none"
        except Exception as ex:  # noqa
            d["flows"] = "error:" + type(ex).__name__
        h = ns.history or {}
        d["hist"] = digest31(repr({k: (len(v), repr(v[-1]) if len(v) else None) for k, v in sorted(h.items())
                                   if isinstance(v, list) and k != "sampling_time"}),
                             repr({k: (len(v), repr(v[-1]) if len(v) else None)
                                   for k, v in sorted(h.get("stopping_criteria", {}).items())}))
        d["crit"] = repr([float(c) for c in (ns.criterion or [])])
        d["thr"] = repr(float(ns.log_likelihood_threshold))
        d["evals"] = int(ns.model.likelihood_evaluations)
        try:
            d["ll_time"] = round(float(ns.model.likelihood_evaluation_time.total_seconds()), 4)
        except Exception:  # noqa
            d["ll_time"] = None
        return d

    # -- installation ------------------------------------------------------
    def install(self):
        from nessai.samplers.importancesampler import ImportanceNestedSampler as INS
        from nessai.samplers import base as sbase
        from nessai.proposal.importance import ImportanceFlowProposal

        obs = self
        self.install_model_hooks()

        orig_pop = INS.populate_live_points

        def populate_live_points(ns):
            obs.ns = ns
            r = orig_pop(ns)
            obs.em.emit("ins_init", tr=obs.store_state(ns, ns.training_samples),
                        iid=obs.store_state(ns, ns.iid_samples),
                        n_initial=int(ns.n_initial), nlive=int(ns.nlive), **obs.counts(ns))
            return r

        INS.populate_live_points = populate_live_points

        orig_loop = INS.nested_sampling_loop

        def nested_sampling_loop(ns):
            import datetime as _dt

            obs.ns = ns
            if obs.t_loop is None:
                obs.t_loop = _dt.datetime.now()
            obs.st_at_loop = float(ns.sampling_time.total_seconds())
            return orig_loop(ns)

        INS.nested_sampling_loop = nested_sampling_loop

        orig_thr = INS.update_log_likelihood_threshold

        def update_log_likelihood_threshold(ns, threshold):
            lp = ns.live_points_unit
            obs.pre_remove = {
                "thr_is_live": bool(np.any(lp["logL"] == threshold)),
                "n_live": int(lp.size),
                "n_below": int(np.sum(lp["logL"] < threshold)),
            }
            return orig_thr(ns, threshold)

        INS.update_log_likelihood_threshold = update_log_likelihood_threshold

        orig_train = ImportanceFlowProposal.train

        def train(prop, samples, *a, **k):
            obs.last_train_n = int(len(samples))
            return orig_train(prop, samples, *a, **k)

        ImportanceFlowProposal.train = train

        orig_hist = INS.update_history

        def update_history(ns):
            r = orig_hist(ns)
            crit = criteria_facts(ns)
            if getattr(obs, "scripted_criteria", False):
                # scripted replay (SimImportanceSampler.tla): the criterion VALUES are the script's, only the
                # "compared values are the reported ones" facts remain meaningful
                crit = {k: (v if k in ("reported_ok", "compared_is_reported") else True) for k, v in crit.items()}
            obs.em.emit(
                "ins_iter", tr=obs.store_state(ns, ns.training_samples),
                iid=obs.store_state(ns, ns.iid_samples),
                pre_remove=obs.pre_remove, train_n=obs.last_train_n,
                n_removed=int(ns.history["n_removed"][-1]), n_added=int(ns.history["n_added"][-1]),
                min_samples=int(ns.min_samples), min_remove=int(ns.min_remove), replace_all=bool(ns.replace_all),
                draw_constant=bool(ns.draw_constant), nlive_cfg=int(ns.nlive),
                max_samples=-1 if ns.max_samples is None else int(ns.max_samples),
                criterion=[fl(c) for c in ns.criterion], tolerance=[fl(t) for t in ns.tolerance],
                met=obs.user_met(ns)[0], stop_any=obs.user_met(ns)[1], min_it=int(ns.min_iteration),
                max_it=-1 if not np.isfinite(ns.max_iteration) else int(ns.max_iteration),
                crit=crit, **obs.counts(ns))
            return r

        INS.update_history = update_history

        orig_fin = INS.finalise

        def finalise(ns):
            was = bool(ns.finalised)
            crit_met = [bool(c <= t) for c, t in zip(ns.criterion, ns.tolerance)]
            it = int(ns.iteration)
            obs.in_finalise = True
            try:
                r = orig_fin(ns)
            finally:
                obs.in_finalise = False
            if not was:
                obs.em.emit("ins_final", tr=obs.store_state(ns, ns.training_samples),
                            iid=obs.store_state(ns, ns.iid_samples), met=crit_met,
                            stop_any=bool(ns._stop_any), min_it=int(ns.min_iteration),
                            max_it=-1 if not np.isfinite(ns.max_iteration) else int(ns.max_iteration),
                            **obs.counts(ns))
            return r

        INS.finalise = finalise

        # --- the two OrderedSamples stores, call by call (C04 code -> spec)
        from nessai.samplers.importancesampler import OrderedSamples

        def store_name(os_):
            ns = obs.ns
            if ns is None:
                return None
            if os_ is ns.training_samples:
                return "tr"
            if os_ is ns.iid_samples:
                return "iid"
            return None

        def os_ids(samples):
            names = list(obs.model.names) + ["logP", "logL", "it", "logU"]
            cols = np.empty((samples.size, len(names)))
            for j, nme in enumerate(names):
                cols[:, j] = samples[nme]
            return [hash(cols[i].tobytes()) & 0x3FFFFFFFFFFFFFFF for i in range(samples.size)]

        def os_event(os_, op, batch=None, t=None, ret=None):
            name = store_name(os_)
            if name is None or not obs.trace_stores:
                return
            smp = os_.samples
            live = os_.live_points_indices
            obs.em.emit("os", store=name, op=op,
                        b=[] if batch is None else [float(x) for x in np.sort(batch["logL"])],
                        t=None if t is None else float(t),
                        logL=[float(x) for x in smp["logL"]], ids=os_ids(smp),
                        rows=-1 if os_.log_q is None else int(os_.log_q.shape[0]),
                        live=None if live is None else [int(i) for i in live],
                        nested=[int(i) for i in os_.nested_samples_indices],
                        thr=None if os_.log_likelihood_threshold is None else float(os_.log_likelihood_threshold),
                        ret=None if ret is None else int(ret),
                        strict=bool(os_.strict_threshold), replace_all=bool(os_.replace_all))

        def wrap_os(method, op, has_batch=False, has_t=False, is_remove=False):
            orig = getattr(OrderedSamples, method)

            def wrapper(os_, *a, **k):
                r = orig(os_, *a, **k)
                os_event(os_, op, batch=a[0] if has_batch else None, t=a[0] if has_t else None,
                         ret=r if is_remove else None)
                return r

            setattr(OrderedSamples, method, wrapper)

        wrap_os("add_initial_samples", "add_initial", has_batch=True)
        wrap_os("add_samples", "add", has_batch=True)
        wrap_os("update_log_likelihood_threshold", "threshold", has_t=True)
        wrap_os("remove_samples", "remove", is_remove=True)
        wrap_os("finalise", "finalise")

        orig_dump = sbase.safe_file_dump

        def safe_file_dump(obj, filename, *a, **k):
            r = orig_dump(obj, filename, *a, **k)
            obs.ckpt_wrote = True
            if obs.ns is not None and obj is obs.ns:
                obs.em.emit("ckpt", digest=obs.deep_digest(obj), in_finalise=bool(getattr(obs, "in_finalise", False)),
                            **obs.counts(obj))
            return r

        sbase.safe_file_dump = safe_file_dump

        from .observe import wrap_checkpoint

        wrap_checkpoint(obs)

    def user_met(self, ns):
        """Which of the user's criteria are met, pairing each criterion AS THE USER WROTE IT with the
        tolerance the user gave for it and reading its value from the reported history."""
        from nessai.samplers.importancesampler import ImportanceNestedSampler as INS

        us = self.user_stop or {}
        crit = us.get("criteria", "ratio")
        tol = us.get("tolerance", 0.0)
        crit = [crit] if isinstance(crit, str) else list(crit)
        tol = list(tol) if isinstance(tol, (list, tuple)) else [tol]
        canon = []
        for c in crit:
            for name, aliases in INS.stopping_criterion_aliases.items():
                if c in aliases:
                    canon.append(name)
                    break
        sc = ns.history["stopping_criteria"]
        met = []
        for name, t in zip(canon, tol):
            val = sc[name][-1] if sc[name] else float("inf")
            met.append(bool(float(val) <= float(t)))
        return met, (us.get("check", "any") == "any")

    INS_STEPS = ("_compute_gradient", "determine_log_likelihood_threshold", "update_log_likelihood_threshold",
                 "remove_samples", "add_new_proposal", "add_new_proposal_weight", "draw_n_samples",
                 "add_and_update_points", "update_evidence", "compute_importance", "compute_stopping_criterion",
                 "update_history", "checkpoint")

    def arm_signal(self, spec):
        """C13 (importance sampler): deliver a termination signal right before (or, for the steps that
        call other steps, inside) the given step of the given iteration."""
        import hashlib
        import signal as _signal

        from nessai.samplers.importancesampler import ImportanceNestedSampler as INS

        obs = self
        method, at_it, signum = spec["method"], int(spec["iteration"]), int(spec.get("signum", 15))
        when = spec.get("when", "before")
        orig = getattr(INS, method)
        fired = {"done": False}

        def file_digest(path):
            try:
                return hashlib.sha256(open(path, "rb").read()).hexdigest()
            except OSError:
                return None

        def fire(ns):
            fired["done"] = True
            obs.em.emit("signal", method=method, when=when, signum=signum, ckpt_sha=file_digest(ns.resume_file),
                        **obs.counts(ns))
            _signal.getsignal(signum)(signum, None)

        def wrapper(ns, *a, **k):
            if not fired["done"] and int(ns.iteration) == at_it and when == "before":
                fire(ns)
            r = orig(ns, *a, **k)
            if not fired["done"] and int(ns.iteration) == at_it and when == "after":
                fire(ns)
            return r

        setattr(INS, method, wrapper)

    def done_event(self, fs, tag):
        counts = self.counts(fs.ns)     # (timers are read before the oracle spends time)
        self.em.emit(tag, **result_facts_ins(fs, self), **counts)

    def resume_event(self, ns):
        from .oracle_ins import F32

        self.rederived = True
        # the density tables are re-derived on resume unless save_log_q: float32 accuracy
        self.em.emit("resume", digest=self.deep_digest(ns), tr=self.store_state(ns, ns.training_samples, F32),
                     iid=self.store_state(ns, ns.iid_samples, F32), **self.counts(ns))


def _levels_on_disk(ns):
    out = getattr(ns.proposal, "output", None)
    n = 0
    if out and os.path.isdir(out):
        while os.path.exists(os.path.join(out, f"level_{n}", "model.pt")):
            n += 1
    return n
