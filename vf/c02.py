"""C02 — evidence and posterior weights equal the documented NS quadrature.

spec/Integral.tla is the documented quadrature written once (entries
``(l_k, n_k)``, shrinkage ``-1/n`` or ``n/(n+1)``, rectangle terms, trapezoid
with the closing point at X = 0, weights) with exact rationals.  TLC checks it
exhaustively (volumes start at log 0 and strictly decrease, list alignment,
incremental = one-pass volumes, the one-pass schedule of
``compute_weights(samples, nlive:int)`` = sampling + finalise, scale
invariance) and exports every closed case.

spec -> code: every exported case is replayed, with the alphabet instantiated
as float log-likelihoods at several scales / offsets (and as ``log(rank)``, for
which the spec's own exact rationals are the expected value), through

  (i)  the real ``_NSIntegralState``: ``increment`` ... ``finalise``,
       ``log_evidence`` (before and after finalise), ``log_vols``,
       ``log_posterior_weights``;
  (ii) the real ``compute_weights`` in one pass (``nlive`` as int and as array),

and compared with an independent evaluation of the same quadrature
(``fractions.Fraction`` volumes, ``mpmath`` at 50 digits, evaluated in LINEAR
space -- mpmath has no exponent limit -- so it shares no log-sum-exp trick with
the code).  The oracle itself is bound to the specification: its volumes (both
modes) and, in mode ``t`` with L = rank, its terms / Z_rect / Z_trap must equal
TLC's rationals exactly (a disagreement is a machinery failure).

code -> spec: real ``NestedSampler`` runs with the integrator's ``increment``
/ ``finalise`` calls recorded; TLC validates each recorded call sequence as a
behaviour of Integral.tla (kind "const": ``n = nlive`` while sampling, then
``nlive - i``, then the trapezoid), and the P-clauses are evaluated on the
run's final state against the one-pass computation from the stored nested
samples and the oracle.

P-clauses (exactly the statement): agreement of incremental, one-pass and
oracle values for log-evidence, log-volumes, log-weights; log-volumes start at
0 and strictly decrease; shift equivariance; finite results for magnitudes up
to 1e5.  Everything else (list lengths, recorded counts) is an M-clause.

Tolerances ("floating-point accuracy" made explicit; eps = 2^-52, k = entry
index, m = number of entries, S = max(1, |finite logL|, |log X_m|, |logZ|)):

  log-volume k      (k + 4) * 2 eps * max(1, |log X_k|)
                    (k sequential additions of terms that are themselves
                    rounded: rigorous bound (k + 2) * eps / 2 * |log X_k|, x4)
  log dX_k          2 (n_k + 1) (tol_vol[k-1] + tol_vol[k]) + 8 eps
                    (log(X_{k-1} - X_k) is formed from the DIFFERENCE of two
                    accumulated log-volumes; d/dd log(1 - e^-d) = n_k exactly
                    (mode t) / < n_k (mode logt))
  logZ (both)       32 eps S + max_k tol_dX[k] + (m + 2) * 2 eps
                    (~10 roundings at magnitude S per term; the error of a
                    log-sum-exp is bounded by the largest error of its terms
                    plus the summation error)
  running logZ      tol_logZ + (m + 2) eps S   (before finalise: m successive
                    logaddexp updates, each rounding a value of magnitude <= S)
  log-weight k      tol_dX[k] + tol_logZ + 8 eps S
  shift by c        the sum of the tolerances at both inputs plus (2x for the
                    weights) the exact rounding error max_k |fl(l_k + c) -
                    (l_k + c)| of forming the shifted input, since logZ is
                    1-Lipschitz in the sup norm of the log-likelihoods.

For the exhaustive cases (m <= 8, n <= 5) these are ~5e-14 at S = 1 and
~7e-10 at S = 1e5 (ulp(1e5) = 1.5e-11).  The largest observed error/tolerance
ratio per clause is recorded in the evidence file.
"""

from __future__ import annotations

import json
import logging
import math
import os
import random
import sys
import time
import warnings
from fractions import Fraction
from functools import lru_cache

import numpy as np

from .common import NCPU, SPEC, MachineryError, Scratch, Verdict, seed_from_env
from .tlc import require_ok, run_tlc

PROP = "C02"
EPS = 2.0 ** -52
NINF = float("-inf")

INVARIANTS = ["TypeOK", "Aligned", "VolStart", "VolDecreasing", "VolOnePass", "Monotone", "RectDef",
              "ScheduleOnePass", "ScheduleFinal", "ScaleInvariant", "TrapIdentity", "WeightsDefined"]

CFG = """SPECIFICATION Spec
CONSTANTS
  MaxLen = {max_len}
  MaxN = {max_n}
  NSym = {n_sym}
  MaxLenVary = {max_len_vary}
  MaxNVary = {max_n_vary}
  NSymVary = {n_sym_vary}
  Exact = TRUE
""" + "".join(f"INVARIANT {i}\n" for i in INVARIANTS) + """ACTION_CONSTRAINT ExportCase
CHECK_DEADLOCK FALSE
"""

TRACE_CFG = """SPECIFICATION TraceSpec
CONSTANTS
  MaxLen = 100000000
  MaxN = {max_n}
  NSym = 100000000
  MaxLenVary = 0
  MaxNVary = 0
  NSymVary = 0
  Exact = FALSE
INVARIANT TypeOK
INVARIANT Aligned
INVARIANT Monotone
INVARIANT ScheduleOnePass
INVARIANT ScheduleFinal
CHECK_DEADLOCK FALSE
"""


# ---------------------------------------------------------------------------
# the oracle: the same quadrature, written a second time, on exact / 50-digit
# numbers in linear space

def _mpm():
    import mpmath

    mpmath.mp.dps = 50
    return mpmath


def quadrature(L, X):
    """Rectangle terms, rectangle evidence and trapezoidal evidence for
    likelihoods L_1..L_m and volumes X_0..X_m (any exact number type)."""
    m = len(L)
    zero = X[0] - X[0]
    terms = [L[k - 1] * (X[k - 1] - X[k]) for k in range(1, m + 1)]
    zrect = zero
    for t in terms:
        zrect = zrect + t
    lx = [zero] + list(L) + [L[-1]]
    xx = list(X) + [zero]
    ztrap = zero
    for i in range(m + 1):
        ztrap = ztrap + (lx[i] + lx[i + 1]) / 2 * (xx[i] - xx[i + 1])
    return terms, zrect, ztrap


def volumes_exact(ns, mode):
    """X_0..X_m (mode t) or log X_0..log X_m (mode logt) as Fractions."""
    if mode == "t":
        v = [Fraction(1)]
        for n in ns:
            v.append(v[-1] * Fraction(n, n + 1))
    else:
        v = [Fraction(0)]
        for n in ns:
            v.append(v[-1] - Fraction(1, n))
    return v


@lru_cache(maxsize=200000)
def _vol_cache(ns, mode):
    """mp volumes, log-volumes and log dX for a schedule (exact Fractions inside)."""
    mpm = _mpm()
    mpf = mpm.mpf
    v = volumes_exact(ns, mode)
    if mode == "t":
        X = [mpf(q.numerator) / mpf(q.denominator) for q in v]
        lv = [mpm.log(x) for x in X]
        dq = [v[k - 1] - v[k] for k in range(1, len(v))]
        dX = [mpf(q.numerator) / mpf(q.denominator) for q in dq]
    else:
        lv = [mpf(q.numerator) / mpf(q.denominator) for q in v]
        X = [mpm.exp(x) for x in lv]
        dX = [X[k - 1] - X[k] for k in range(1, len(X))]
    ldx = [mpm.log(d) for d in dX]
    return X, lv, dX, ldx


def _vols_long(ns, mode):
    """The same in 50-digit arithmetic only (long sequences)."""
    mpm = _mpm()
    mpf = mpm.mpf
    step = {}
    lv = [mpf(0)]
    for n in ns:
        n = int(n)
        s = step.get(n)
        if s is None:
            s = -mpf(1) / n if mode == "logt" else -mpm.log(1 + mpf(1) / n)
            step[n] = s
        lv.append(lv[-1] + s)
    X = [mpm.exp(x) for x in lv]
    dX = [X[k - 1] - X[k] for k in range(1, len(X))]
    ldx = [mpm.log(d) for d in dX]
    return X, lv, dX, ldx


def oracle(logL, ns, mode, exact=True):
    """Independent evaluation for float log-likelihoods (taken as exact reals).

    Returns floats: lv (m+1), logzr, logz, logw (m).  Z = 0 gives -inf / None.
    """
    mpm = _mpm()
    mpf = mpm.mpf
    X, lv, dX, ldx = _vol_cache(tuple(int(n) for n in ns), mode) if exact else _vols_long(ns, mode)
    L = [mpm.exp(mpf(float(l))) if l != NINF else mpf(0) for l in logL]
    m = len(L)
    zero = mpf(0)
    zrect = zero
    for k in range(m):
        zrect += L[k] * dX[k]
    ztrap = zero
    prev = zero
    for k in range(m):
        ztrap += (prev + L[k]) / 2 * dX[k]
        prev = L[k]
    ztrap += L[-1] * X[-1]
    out = {"lv": np.array([float(x) for x in lv])}
    if ztrap == 0:
        out.update(logzr=NINF, logz=NINF, logw=None)
        return out
    logz = mpm.log(ztrap)
    out["logz"] = float(logz)
    out["logzr"] = float(mpm.log(zrect)) if zrect > 0 else NINF
    out["logw"] = np.array([float(mpf(float(logL[k])) + ldx[k] - logz) if logL[k] != NINF else NINF
                            for k in range(m)])
    return out


def tolerances(logL, ns, orc):
    """See the module docstring."""
    logL = np.asarray(logL, dtype=float)
    ns = np.asarray(ns, dtype=float)
    m = len(ns)
    lv = orc["lv"]
    fin = logL[np.isfinite(logL)]
    S = max(1.0, float(np.max(np.abs(fin))) if fin.size else 0.0, abs(float(lv[-1])),
            abs(orc["logz"]) if math.isfinite(orc["logz"]) else 0.0)
    k = np.arange(m + 1)
    tol_vol = (k + 4) * 2 * EPS * np.maximum(1.0, np.abs(lv))
    tol_dx = 2 * (ns + 1) * (tol_vol[:-1] + tol_vol[1:]) + 8 * EPS
    tol_z = 32 * EPS * S + max(float(np.max(tol_dx)), float(tol_vol[-1])) + (m + 2) * 2 * EPS
    tol_w = tol_dx + tol_z + 8 * EPS * S
    return {"S": S, "vol": tol_vol, "z": tol_z, "zr": tol_z + (m + 2) * EPS * S, "w": tol_w}


# ---------------------------------------------------------------------------
# the real code

def run_incremental(logL, ns, mode, kind, nlive, track):
    """_NSIntegralState driven as the sampler drives it (kind const) or with an
    explicit live count at every entry (kind vary)."""
    from nessai.evidence import _NSIntegralState

    m = len(logL)
    logx_live = None
    if kind == "const":
        st = _NSIntegralState(nlive, track_gradients=track, expectation=mode)
        for k in range(m - nlive):
            st.increment(logL[k])
        logx_live = np.asarray(st.get_logx_live_points(nlive), dtype=float)
        for i in range(nlive):
            st.increment(logL[m - nlive + i], nlive=nlive - i)
    else:
        st = _NSIntegralState(int(ns[0]), track_gradients=track, expectation=mode)
        for l, n in zip(logL, ns):
            st.increment(l, nlive=int(n))
    zrect = float(st.log_evidence)
    w_pre = np.asarray(st.log_posterior_weights, dtype=float)
    ret = st.finalise()
    w_first = np.asarray(st.log_posterior_weights, dtype=float).copy()
    # the other public reads of the state must not disturb what the next read of the weights returns
    _ = st.effective_n_posterior_samples
    _ = st.log_evidence_error
    w_again = np.asarray(st.log_posterior_weights, dtype=float).copy()
    return {
        "w_again": w_again,
        "zrect": zrect,
        "w_pre": w_pre,
        "logx_live": logx_live,
        "z": float(st.log_evidence),
        "ret": float(ret),
        "lv": np.asarray(st.log_vols, dtype=float),
        "w": w_first,
        "n_logLs": len(st.logLs), "n_vols": len(st.log_vols), "nlive_list": [int(x) for x in st.nlive],
    }


def run_refinalise(logL, ns, mode, track):
    """finalise() is a pure read of the lists: calling it early (a refined intermediate estimate), then
    incrementing further and finalising again must give the evidence / weights of ALL the points."""
    from nessai.evidence import _NSIntegralState

    m = len(logL)
    st = _NSIntegralState(int(ns[0]), track_gradients=track, expectation=mode)
    half = max(1, m // 2)
    for l, n in zip(logL[:half], ns[:half]):
        st.increment(l, nlive=int(n))
    st.finalise()
    for l, n in zip(logL[half:], ns[half:]):
        st.increment(l, nlive=int(n))
    ret = st.finalise()
    return {"z": float(st.log_evidence), "ret": float(ret),
            "w": np.asarray(st.log_posterior_weights, dtype=float), "lv": np.asarray(st.log_vols, dtype=float)}


def run_onepass(logL, ns, mode, kind, nlive, variant):
    from nessai.posterior import compute_weights

    x = np.array(logL, dtype=float)
    if variant == "int":
        z, w = compute_weights(x, int(nlive), expectation=mode)
    elif variant == "array_int":
        z, w = compute_weights(x, np.array(ns, dtype=int), expectation=mode)
    else:
        z, w = compute_weights(x, np.array(ns, dtype=float), expectation=mode)
    return {"z": float(z), "w": np.asarray(w, dtype=float)}


def _cmp_scalar(got, want, tol):
    """(ok, error) -- error is inf for nan / wrong infinities."""
    if want == NINF:
        return (got == NINF), (0.0 if got == NINF else math.inf)
    if not math.isfinite(got):
        return False, math.inf
    e = abs(got - want)
    return e <= tol, e


def _cmp_array(got, want, tol):
    """Largest error/tolerance ratio and its index; -inf must match exactly."""
    got = np.asarray(got, dtype=float)
    if got.shape != want.shape:
        return math.inf, -1
    inf_w = np.isneginf(want)
    bad = (inf_w & ~np.isneginf(got)) | (~inf_w & ~np.isfinite(got))
    if bad.any():
        return math.inf, int(np.argmax(bad))
    with np.errstate(invalid="ignore"):
        r = np.where(inf_w, 0.0, np.abs(got - want) / tol)
    i = int(np.argmax(r)) if r.size else -1
    return (float(r[i]) if r.size else 0.0), i


class Ratios(dict):
    def see(self, clause, r):
        if r > self.get(clause, 0.0) and math.isfinite(r):
            self[clause] = r


def check_instance(mode, kind, nlive, ns, logL, shifts=(), exact=True, track=True, spec=None,
                   ratios=None, stats=None):
    """All P-clauses for one entry sequence.  Returns a list of failures
    (sig, what, detail) and a list of M-clause messages."""
    ratios = ratios if ratios is not None else Ratios()
    stats = stats if stats is not None else {}
    fails, mism = [], []
    logL = np.asarray(logL, dtype=float)
    ns = [int(n) for n in ns]
    m = len(ns)
    orc = oracle(logL, ns, mode, exact=exact)
    degenerate = orc["logw"] is None
    tol = tolerances(logL, ns, orc)

    def fail(sig, what, **detail):
        fails.append((sig, what, detail))

    def num(x):
        return x if isinstance(x, (int, str)) else float(x)

    def cmp_z(clause, who, got, want, t):
        ok, e = _cmp_scalar(got, want, t)
        ratios.see(clause, e / t)
        if not ok:
            fail(clause, f"{who}: {clause} = {got!r}, documented quadrature gives {want!r} "
                         f"(|diff| {e:.3e} > tol {t:.3e})", who=who, observed=num(got), expected=num(want), tol=t)

    def cmp_w(clause, who, got, want, t):
        r, i = _cmp_array(got, want, t)
        ratios.see(clause, r)
        if not r <= 1.0:
            g = np.asarray(got, dtype=float)
            fail(clause, f"{who}: {clause}[{i}] = {float(g[i]) if 0 <= i < g.size else g.shape!r}, documented "
                         f"quadrature gives {float(want[i]) if i >= 0 else want.shape!r} (error/tol {r:.3e})",
                 who=who, index=i, observed=g.tolist(), expected=want.tolist(),
                 tol=(t if np.ndim(t) == 0 else np.asarray(t).tolist()))

    # ---- (i) incremental
    inc = None
    try:
        inc = run_incremental(logL, ns, mode, kind, nlive, track)
    except Exception as ex:  # noqa: BLE001
        fail("exception", f"_NSIntegralState raised {type(ex).__name__}: {ex}")
    if inc is not None:
        stats["incremental"] = stats.get("incremental", 0) + 1
        if not (inc["n_logLs"] == inc["n_vols"] == m + 1 and inc["nlive_list"] == ns):
            mism.append(f"lists of the integrator not as in the specification: len(logLs)={inc['n_logLs']} "
                        f"len(log_vols)={inc['n_vols']} nlive={inc['nlive_list'][:8]} for ns={ns[:8]}")
        lv = inc["lv"]
        if lv.shape != (m + 1,):
            fail("vols", f"log_vols has {lv.shape} entries for {m} increments")
        else:
            if lv[0] != 0.0:
                fail("vol_start", f"log-volumes start at {lv[0]!r}, not 0", observed=float(lv[0]))
            if not np.all(np.diff(lv) < 0):
                i = int(np.argmax(~(np.diff(lv) < 0)))
                fail("vol_decrease", f"log-volumes do not strictly decrease at entry {i + 1}: "
                                     f"{lv[i]!r} -> {lv[i + 1]!r}", index=i, observed=lv.tolist())
            cmp_w("vols", "incremental", lv, orc["lv"], tol["vol"])
            if inc["logx_live"] is not None:
                r, i = _cmp_array(inc["logx_live"], orc["lv"][m + 1 - nlive:], tol["vol"][m + 1 - nlive:])
                if not r <= 1.0:
                    mism.append(f"get_logx_live_points({nlive})[{i}] is not the log-volume the live point gets in "
                                f"finalise (mode {mode}, {m - nlive} entries before)")
        if not degenerate:
            cmp_z("logZ_rect", "incremental (before finalise)", inc["zrect"], orc["logzr"], tol["zr"])
            cmp_z("logZ", "incremental (after finalise)", inc["z"], orc["logz"], tol["z"])
            if inc["ret"] != inc["z"]:
                mism.append(f"finalise() returned {inc['ret']!r} but log_evidence is {inc['z']!r}")
            cmp_w("weights", "incremental (before finalise)", inc["w_pre"], orc["logw"], tol["w"])
            cmp_w("weights", "incremental (after finalise)", inc["w"], orc["logw"], tol["w"])
            cmp_w("weights", "incremental (read again after the effective sample size was queried)",
                  inc["w_again"], orc["logw"], tol["w"])

    # ---- (i') finalise early, increment further, finalise again
    if not degenerate and m >= 2:
        try:
            ref = run_refinalise(logL, ns, mode, track)
            stats["refinalised"] = stats.get("refinalised", 0) + 1
            cmp_z("logZ", "incremental (finalise, further increments, finalise again)", ref["z"], orc["logz"], tol["z"])
            cmp_w("weights", "incremental (after the second finalise)", ref["w"], orc["logw"], tol["w"])
            cmp_w("vols", "incremental (after the second finalise)", ref["lv"], orc["lv"], tol["vol"])
        except Exception as ex:  # noqa: BLE001
            fail("exception", f"_NSIntegralState raised {type(ex).__name__}: {ex} (finalise twice)")

    # ---- (ii) one pass
    variants = (["int"] if kind == "const" else []) + ["array_int", "array_float"]
    one = {}
    for var in variants:
        try:
            one[var] = run_onepass(logL, ns, mode, kind, nlive, var)
        except Exception as ex:  # noqa: BLE001
            fail("exception", f"compute_weights(nlive as {var}) raised {type(ex).__name__}: {ex}", who=var)
            continue
        stats["onepass"] = stats.get("onepass", 0) + 1
        if degenerate:
            continue
        cmp_z("logZ", f"one-pass (nlive as {var})", one[var]["z"], orc["logz"], tol["z"])
        cmp_w("weights", f"one-pass (nlive as {var})", one[var]["w"], orc["logw"], tol["w"])
        if inc is not None:
            ok, e = _cmp_scalar(inc["z"], one[var]["z"], 2 * tol["z"])
            if not ok:
                fail("agree", f"incremental logZ {inc['z']!r} != one-pass ({var}) logZ {one[var]['z']!r}",
                     who=var, observed=inc["z"], expected=one[var]["z"], tol=2 * tol["z"])
            r, i = _cmp_array(inc["w"], one[var]["w"], 2 * tol["w"])
            if not r <= 1.0:
                fail("agree", f"incremental and one-pass ({var}) log-weights differ at entry {i}", who=var,
                     index=i, observed=inc["w"].tolist(), expected=one[var]["w"].tolist())

    # ---- the specification's own exact values (alphabet read as L = rank)
    if spec is not None and inc is not None:
        mpm = _mpm()
        q = [Fraction(a, b) for a, b in spec["vols"]]
        if mode == "t":
            slv = np.array([float(mpm.log(mpm.mpf(x.numerator) / x.denominator)) for x in q])
        else:
            slv = np.array([float(mpm.mpf(x.numerator) / x.denominator) for x in q])
        cmp_w("vols", "incremental vs Integral.tla", inc["lv"], slv, tol["vol"] + 4 * EPS)
        if mode == "t" and spec["ztrap"][0] > 0:
            zt = float(mpm.log(mpm.mpf(spec["ztrap"][0]) / spec["ztrap"][1]))
            zr = float(mpm.log(mpm.mpf(spec["zrect"][0]) / spec["zrect"][1]))
            cmp_z("logZ", "incremental vs Integral.tla", inc["z"], zt, tol["z"] + 8 * EPS)
            cmp_z("logZ_rect", "incremental vs Integral.tla", inc["zrect"], zr, tol["zr"] + 8 * EPS)
            sw = np.array([float(mpm.log(mpm.mpf(a) / b) - mpm.log(mpm.mpf(spec["ztrap"][0]) / spec["ztrap"][1]))
                           if a > 0 else NINF for a, b in spec["terms"]])
            cmp_w("weights", "incremental vs Integral.tla", inc["w"], sw, tol["w"] + 8 * EPS)
            for var, o in one.items():
                cmp_z("logZ", f"one-pass ({var}) vs Integral.tla", o["z"], zt, tol["z"] + 8 * EPS)
                cmp_w("weights", f"one-pass ({var}) vs Integral.tla", o["w"], sw, tol["w"] + 8 * EPS)

    # ---- shift equivariance (real code against real code)
    if not degenerate and inc is not None:
        for c in shifts:
            sh = logL + c
            d = 0.0
            for a, b in zip(logL.tolist(), sh.tolist()):
                if a != NINF:
                    d = max(d, abs(float(Fraction(b) - Fraction(a) - Fraction(c))))
            fin = sh[np.isfinite(sh)]
            S2 = max(tol["S"], float(np.max(np.abs(fin))), abs(c))
            extra = 32 * EPS * (S2 - tol["S"]) + 8 * EPS * S2
            tz = 2 * tol["z"] + extra + d
            tw = 2 * tol["w"] + 2 * extra + 2 * d
            runs = []
            try:
                runs.append(("incremental", inc, run_incremental(sh, ns, mode, kind, nlive, track)))
                var = "int" if kind == "const" else "array_int"
                if var in one:
                    runs.append((f"one-pass ({var})", one[var], run_onepass(sh, ns, mode, kind, nlive, var)))
            except Exception as ex:  # noqa: BLE001
                fail("exception", f"shifted input (c={c!r}) raised {type(ex).__name__}: {ex}", shift=c)
            stats["shifted"] = stats.get("shifted", 0) + len(runs)
            for who, base, s in runs:
                ok, e = _cmp_scalar(s["z"] - c, base["z"], tz)
                ratios.see("shift_logZ", e / tz)
                if not ok:
                    fail("shift", f"{who}: logZ(l + c) - c = {s['z'] - c!r} but logZ(l) = {base['z']!r} for c = {c!r} "
                                  f"(|diff| {e:.3e} > tol {tz:.3e})", who=who, shift=c, observed=s["z"] - c,
                         expected=base["z"], tol=tz)
                r, i = _cmp_array(s["w"], base["w"], tw)
                ratios.see("shift_weights", r)
                if not r <= 1.0:
                    fail("shift", f"{who}: log-weights change under the shift c = {c!r} at entry {i} "
                                  f"(error/tol {r:.3e})", who=who, shift=c, index=i,
                         observed=s["w"].tolist(), expected=base["w"].tolist())
    if degenerate:
        stats["degenerate"] = stats.get("degenerate", 0) + 1
    return fails, mism


# ---------------------------------------------------------------------------
# instantiation of the alphabet

SPACINGS = [1e-12, 1e-9, 1e-6, 1e-3, 1.0, 30.0, 1e3, 2.5e4]
OFFSETS = [0.0, 1e5, -1e5]
SHIFTS = [1e5, -1e5, 2e5, -2e5, 12345.6789, -0.1, 1e-3, -777.0, 65536.0]
NSYM = 4


def build_instantiations(rng):
    """Symbol -> float log-likelihood maps (symbol 0 is always -inf); every map
    is non-decreasing and has magnitudes <= 1e5."""
    inst = []
    for sp in SPACINGS:
        for off in OFFSETS:
            if off > 0:
                vals = [off - (NSYM - s) * sp for s in range(1, NSYM + 1)]
            elif off < 0:
                vals = [off + (s - 1) * sp for s in range(1, NSYM + 1)]
            else:
                vals = [(s - 2.5) * sp for s in range(1, NSYM + 1)]
            inst.append({"name": f"spacing={sp:g},offset={off:g}", "vals": vals})
    for j in range(8):
        start = rng.choice([-1e5, 0.0, -rng.uniform(0, 3e4), rng.uniform(0, 2e4)])
        vals = [start]
        for _ in range(NSYM - 1):
            vals.append(vals[-1] + rng.choice(SPACINGS) * rng.uniform(0.5, 1.5))
        inst.append({"name": f"mixed#{j}", "vals": vals})
    for i in inst:
        v = i["vals"]
        if any(b < a for a, b in zip(v, v[1:])) or max(abs(x) for x in v) > 1.0001e5:
            raise MachineryError(f"bad instantiation {i}")
    return inst


SPEC_INST = {"name": "L=rank", "vals": [math.log(s) for s in range(1, NSYM + 1)]}


def instantiate(ls, inst):
    return np.array([NINF if s == 0 else inst["vals"][s - 1] for s in ls], dtype=float)


def pick_shifts(logL, rng, k):
    fin = logL[np.isfinite(logL)]
    if not fin.size:
        return []
    ok = [c for c in SHIFTS if float(np.max(np.abs(fin + c))) <= 1.0001e5 + 1.0]
    rng.shuffle(ok)
    return ok[:k]


def case_key(c):
    return (c["mode"], c["kind"], c["nlive"], len(c["ns"]), tuple(c["ns"]), tuple(c["ls"]))


def check_oracle_against_spec(c):
    """The Python oracle and Integral.tla are the same quadrature: exact equality."""
    ns, mode = c["ns"], c["mode"]
    v = volumes_exact(ns, mode)
    if [[q.numerator, q.denominator] for q in v] != [list(x) for x in c["vols"]]:
        raise MachineryError(f"oracle volumes differ from Integral.tla for {c}")
    if mode == "t":
        terms, zr, zt = quadrature([Fraction(s) for s in c["ls"]], v)
        got = ([[t.numerator, t.denominator] for t in terms], [zr.numerator, zr.denominator],
               [zt.numerator, zt.denominator])
        if got != ([list(x) for x in c["terms"]], list(c["zrect"]), list(c["ztrap"])):
            raise MachineryError(f"oracle quadrature differs from Integral.tla for {c}: {got}")


# ---------------------------------------------------------------------------
# long sequences

def build_long(spec, exact=False):
    """A long entry sequence from a small description (built in the worker)."""
    rng = np.random.default_rng(spec["seed"])
    m, nlive, kind = spec["m"], spec["nlive"], spec["kind"]
    shape = spec["shape"]
    if shape == "gauss":          # like a real run: logL = -r^2/2 climbing to a maximum
        x = np.sort(-0.5 * rng.chisquare(spec.get("dim", 4), size=m))
    elif shape == "linear":
        x = np.sort(rng.uniform(-1.0, 0.0, size=m))
    else:                          # heavy dynamic range
        x = np.sort(-np.exp(rng.normal(0, 3, size=m)))
        x = x / max(1.0, abs(x[0]))
    x = x * spec["scale"] + spec["offset"]
    if spec.get("grid"):
        x = np.round(x / spec["grid"]) * spec["grid"]     # plateaus (ties)
    x = np.clip(x, -1e5, 1e5)
    x = np.sort(x)
    if spec.get("ninf"):
        x[: spec["ninf"]] = NINF
    if kind == "const":
        ns = np.full(m, nlive, dtype=int)
        ns[-nlive:] = np.arange(nlive, 0, -1)
    else:
        walk = spec.get("walk", 3)
        if spec.get("batches"):        # dynamic-NS like: blocks of constant counts
            nb = spec["batches"]
            edges = np.sort(rng.choice(np.arange(1, m), size=nb - 1, replace=False))
            vals = rng.integers(1, nlive + 1, size=nb)
            ns = np.repeat(vals, np.diff(np.concatenate([[0], edges, [m]])))
        else:
            steps = rng.integers(-walk, walk + 1, size=m)
            ns = np.empty(m, dtype=int)
            cur = nlive
            for i in range(m):
                cur = min(max(cur + int(steps[i]), 1), nlive)
                ns[i] = cur
        tail = min(nlive, m, int(ns[-1]))
        ns[-tail:] = np.arange(tail, 0, -1)
    return x, ns


def long_specs(tier, rng):
    specs = []
    if tier == "quick":
        grid = [(1000, 1), (1000, 50), (2000, 500), (1000, 1000), (10000, 100), (10000, 2000)]
        reps = 1
    else:
        grid = [(1000, 1), (1000, 7), (1000, 50), (1000, 1000), (3000, 500), (10000, 10), (10000, 100),
                (10000, 2000), (10000, 10000), (30000, 1000), (100000, 100), (100000, 1000), (100000, 5000),
                (100000, 50000)]
        reps = 2
    scales = [(1.0, 0.0), (1e-6, 1e5), (1e3, -1e5), (1e5, 0.0), (1e-12, 0.0), (50.0, 1e5), (2e4, 5e4)]
    shapes = ["gauss", "linear", "heavy"]
    j = 0
    for m, nlive in grid:
        for _ in range(reps):
            for kind in ("const", "vary"):
                for mode in ("logt", "t"):
                    sc, off = scales[j % len(scales)]
                    if shapes[j % 3] == "gauss" and sc >= 1e3:
                        off = min(off, 0.0) + (1e5 if off > 0 else 0.0)
                    sp = {"seed": rng.randrange(2 ** 31), "m": m, "nlive": nlive, "kind": kind, "mode": mode,
                          "shape": shapes[j % 3], "scale": sc, "offset": off,
                          "grid": (sc * 1e-2 if j % 4 == 1 else 0), "ninf": (j % 5 == 2) * min(3, m - 1),
                          "batches": (8 if (kind == "vary" and j % 2) else 0), "walk": 1 + j % 4,
                          "dim": 2 + j % 7}
                    specs.append(sp)
                    j += 1
    return specs


# ---------------------------------------------------------------------------
# workers

def _worker_init():
    warnings.simplefilter("ignore")
    logging.getLogger("nessai").setLevel(logging.CRITICAL)
    np.seterr(all="ignore")
    _mpm()


def _small_chunk(task):
    """task: (seed, tier, [(index, case)...])."""
    seed, tier, items, n_inst = task
    _worker_init()
    insts = build_instantiations(random.Random(seed))
    ratios, stats = Ratios(), {}
    fails, mism = [], []
    used = set()
    for idx, c in items:
        check_oracle_against_spec(c)
        rng = random.Random(seed * 1000003 + idx)
        k_inst = n_inst[c["kind"]]
        if k_inst >= len(insts):
            chosen = list(range(len(insts)))
        else:
            first = idx % len(insts)
            chosen = [first] + rng.sample([i for i in range(len(insts)) if i != first], k_inst - 1)
        todo = [(SPEC_INST, True)] + [(insts[i], False) for i in chosen]
        for inst, is_spec in todo:
            logL = instantiate(c["ls"], inst)
            shifts = pick_shifts(logL, rng, 1 if (is_spec or tier == "quick") else 2)
            f, mm = check_instance(c["mode"], c["kind"], c["nlive"], c["ns"], logL, shifts=shifts,
                                   exact=True, track=bool((idx + len(used)) % 2), spec=c if is_spec else None,
                                   ratios=ratios, stats=stats)
            used.add(inst["name"])
            stats["instances"] = stats.get("instances", 0) + 1
            for sig, what, det in f[:3]:
                if len(fails) < 40:
                    fails.append((sig, what, {"case": {k: c[k] for k in ("mode", "kind", "nlive", "ls", "ns")},
                                              "instantiation": inst["name"], "logL": logL.tolist(),
                                              "shifts": shifts, "detail": det}))
            stats["failures"] = stats.get("failures", 0) + len(f)
            mism.extend(mm[:1])
    return {"ratios": dict(ratios), "stats": stats, "fails": fails, "mism": mism[:5], "inst": sorted(used)}


def _long_one(spec):
    _worker_init()
    t0 = time.time()
    logL, ns = build_long(spec)
    rng = random.Random(spec["seed"])
    shifts = pick_shifts(logL, rng, 1)
    ratios, stats = Ratios(), {}
    f, mm = check_instance(spec["mode"], spec["kind"], spec["nlive"], ns.tolist(), logL, shifts=shifts,
                           exact=False, track=bool(spec["seed"] % 2), ratios=ratios, stats=stats)
    stats["instances"] = 1
    stats["failures"] = len(f)
    fails = []
    for sig, what, det in f[:3]:
        slim = {k: v for k, v in det.items() if k not in ("observed", "expected", "tol") or np.ndim(v) == 0}
        fails.append((sig, what, {"long": spec, "shifts": shifts, "detail": slim}))
    return {"ratios": dict(ratios), "stats": stats, "fails": fails, "mism": mm[:2], "wall": time.time() - t0,
            "spec": spec}


# ---------------------------------------------------------------------------
# code -> spec: real sampler runs, the integrator's calls recorded

def _real_run(args):
    """One real NestedSampler run; returns the recorded integrator events, the
    final integrator state and the stored nested samples."""
    seed, nlive, mode, stopping, outdir = args
    os.dup2(os.open(os.devnull, os.O_WRONLY), 2)      # progress bars
    warnings.simplefilter("ignore")
    logging.getLogger("nessai").setLevel(logging.CRITICAL)
    from nessai import evidence
    from nessai.model import Model
    from nessai.samplers.nestedsampler import NestedSampler

    class Gaussian(Model):
        def __init__(self):
            self.names = ["x", "y"]
            self.bounds = {"x": [-5.0, 5.0], "y": [-5.0, 5.0]}

        def log_prior(self, x):
            return np.log(self.in_bounds(x), dtype=float) - np.log(100.0)

        def log_likelihood(self, x):
            return -0.5 * (x["x"] ** 2 + x["y"] ** 2)

    events = []
    orig_inc, orig_fin = evidence._NSIntegralState.increment, evidence._NSIntegralState.finalise

    def inc(self, logL, nlive=None):
        events.append(["inc", float(logL), 0 if nlive is None else int(nlive)])
        return orig_inc(self, logL, nlive=nlive)

    def fin(self):
        events.append(["fin"])
        return orig_fin(self)

    evidence._NSIntegralState.increment = inc
    evidence._NSIntegralState.finalise = fin
    try:
        ns = NestedSampler(Gaussian(), nlive=nlive, output=outdir, plot=False, checkpointing=False, seed=seed,
                           shrinkage_expectation=mode, stopping=stopping, maximum_uninformed=10 ** 9)
        ns.initialise()
        ns.nested_sampling_loop()
    finally:
        evidence._NSIntegralState.increment = orig_inc
        evidence._NSIntegralState.finalise = orig_fin
    st = ns.state
    return {
        "seed": seed, "nlive": nlive, "mode": mode, "stopping": stopping, "events": events,
        "finalised": bool(ns.finalised),
        "stored_logL": [float(p["logL"]) for p in ns.nested_samples],
        "state": {"z": float(st.log_evidence), "lv": [float(x) for x in st.log_vols],
                  "w": [float(x) for x in st.log_posterior_weights], "logLs": [float(x) for x in st.logLs],
                  "nlive_list": [int(x) for x in st.nlive]},
    }


def check_real_run(run, v: Verdict, ratios, stats):
    """P-clauses on a real run: the sampler's incrementally accumulated values
    against the one-pass computation from the STORED samples and the oracle."""
    from nessai.posterior import compute_weights

    if not run["finalised"]:
        raise MachineryError(f"real run did not finalise: {run['seed']}")
    logL = np.array(run["stored_logL"])
    nlive, mode = run["nlive"], run["mode"]
    m = len(logL)
    ns = np.full(m, nlive, dtype=int)
    ns[-nlive:] = np.arange(nlive, 0, -1)
    orc = oracle(logL, ns, mode, exact=False)
    tol = tolerances(logL, ns, orc)
    st = run["state"]
    what = {"real_run": {k: run[k] for k in ("seed", "nlive", "mode", "stopping")}, "n_entries": m}

    def bad(sig, msg):
        v.violation(sig, f"real NestedSampler run (nlive={nlive}, {mode}, seed={run['seed']}): {msg}",
                    dict(what, stored_logL=run["stored_logL"], state=st))

    lv = np.array(st["lv"])
    if lv.shape != (m + 1,) or lv[0] != 0.0 or not np.all(np.diff(lv) < 0):
        bad("vol_decrease", "log-volumes do not start at 0 and strictly decrease")
    r, i = _cmp_array(lv, orc["lv"], tol["vol"])
    ratios.see("vols", r)
    if not r <= 1:
        bad("vols", f"log-volume {i} differs from the documented quadrature (error/tol {r:.2e})")
    ok, e = _cmp_scalar(st["z"], orc["logz"], tol["z"])
    ratios.see("logZ", e / tol["z"])
    if not ok:
        bad("logZ", f"sampler log-evidence {st['z']!r}, documented quadrature {orc['logz']!r}")
    r, i = _cmp_array(np.array(st["w"]), orc["logw"], tol["w"])
    ratios.see("weights", r)
    if not r <= 1:
        bad("weights", f"sampler log-weight {i} differs from the documented quadrature (error/tol {r:.2e})")
    try:
        z1, w1 = compute_weights(logL, nlive, expectation=mode)
    except Exception as ex:  # noqa: BLE001
        bad("exception", f"compute_weights on the stored samples raised {type(ex).__name__}: {ex}")
        return
    ok, e = _cmp_scalar(float(z1), st["z"], 2 * tol["z"])
    if not ok:
        bad("agree", f"one-pass logZ from stored samples {float(z1)!r} != accumulated {st['z']!r}")
    r, i = _cmp_array(np.asarray(w1), np.array(st["w"]), 2 * tol["w"])
    if not r <= 1:
        bad("agree", f"one-pass log-weight {i} from stored samples differs from the accumulated one")
    stats["real_runs"] = stats.get("real_runs", 0) + 1
    stats["real_run_entries"] = stats.get("real_run_entries", 0) + m


def events_to_trace(run):
    """Project the recorded calls: log-likelihoods -> dense ranks (ties kept,
    -inf -> 0), default live count -> 0."""
    vals = sorted({e[1] for e in run["events"] if e[0] == "inc" and e[1] != NINF})
    rank = {x: i + 1 for i, x in enumerate(vals)}
    ev = []
    for e in run["events"]:
        if e[0] == "inc":
            ev.append({"op": "inc", "l": 0 if e[1] == NINF else rank[e[1]], "n": e[2]})
        else:
            ev.append({"op": "fin", "l": 0, "n": 0})
    return ev


def validate_traces(runs, scratch, v: Verdict):
    """All recorded call sequences in one TLC invocation (TraceIntegral.tla)."""
    ev, win, meta = [], [], []
    for r in runs:
        t = events_to_trace(r)
        win.append([len(ev) + 1, len(ev) + len(t)])
        ev.extend(t)
        meta.append({"mode": r["mode"], "nlive": r["nlive"]})
    path = scratch / "traces.json"
    path.write_text(json.dumps({"ev": ev, "win": win, "meta": meta}))
    cfg = scratch / "trace.cfg"
    cfg.write_text(TRACE_CFG.format(max_n=max(r["nlive"] for r in runs)))
    res = run_tlc("TraceIntegral", str(cfg), metadir=scratch / "mt", workers=1, collect_prefix="TR",
                  env={"TRACE_FILE": str(path)}, timeout=900)
    require_ok(res, "TraceIntegral")       # an invariant failing here is a modelling error
    done = {p["tid"] for p in res.printed if p.get("k") == "done"}
    for tid in range(1, len(runs) + 1):
        if tid not in done:
            r = runs[tid - 1]
            incs = [e for e in r["events"] if e[0] == "inc"]
            want = [0] * (len(incs) - r["nlive"]) + list(range(r["nlive"], 0, -1))
            got = [e[2] for e in incs]
            at = next((k for k, (a, b) in enumerate(zip(got, want)) if a != b and not (b == 0 and a == r["nlive"])),
                      None)
            v.mismatch(f"real run #{tid} ({meta[tid - 1]}): the recorded integrator calls are not a behaviour of "
                       f"Integral.tla (kind const); {len(incs)} increments, first count off the protocol at "
                       f"entry {at}: got {got[at] if at is not None else None}, "
                       f"last call {r['events'][-1][0] if r['events'] else None}")
    return res, len(done)


# ---------------------------------------------------------------------------

def check_defaults(v: Verdict):
    """M-clauses: the default expectation is <log t> in both entry points."""
    from nessai.evidence import _NSIntegralState
    from nessai.posterior import compute_weights

    x = np.array([-3.0, -1.0, -0.5, 0.0])
    z0, w0 = compute_weights(x, 2)
    z1, w1 = compute_weights(x, 2, expectation="logt")
    st = _NSIntegralState(2)
    if not (z0 == z1 and np.array_equal(w0, w1)):
        v.mismatch("compute_weights: the default expectation is not 'logt'")
    if st.expectation != "logt":
        v.mismatch("_NSIntegralState: the default expectation is not 'logt'")


def _merge(agg_r, agg_s, out):
    for k, r in out["ratios"].items():
        agg_r.see(k, r)
    for k, n in out["stats"].items():
        agg_s[k] = agg_s.get(k, 0) + n


def main(tier: str) -> int:
    import multiprocessing

    seed = seed_from_env()
    v = Verdict(PROP, tier, seed, "model_checking")
    rng = random.Random(seed)
    quick = tier == "quick"
    # import the code under test once, before forking the workers
    import nessai.evidence  # noqa: F401
    import nessai.posterior  # noqa: F401
    import nessai.samplers.nestedsampler  # noqa: F401
    v.note(f"code under test: {os.path.dirname(nessai.evidence.__file__)}")
    bounds = dict(max_len=7, max_n=4, n_sym=4, max_len_vary=5, max_n_vary=3, n_sym_vary=3) if quick else \
        dict(max_len=8, max_n=5, n_sym=4, max_len_vary=5, max_n_vary=4, n_sym_vary=4)
    # float instantiations per case (besides L = rank): the sampler's own protocol gets more
    n_inst = {"const": 8, "vary": 2} if quick else {"const": 10 ** 6, "vary": 3}
    ratios, stats = Ratios(), {}
    ctx = multiprocessing.get_context("fork")
    with Scratch("c02-") as scratch:
        # real sampler runs start first, in the background
        real_args = [(seed * 100 + i, nl, mode, stop, str(scratch / f"run{i}"))
                     for i, (nl, mode, stop) in enumerate(
                         [(10, "logt", 0.5), (10, "t", 0.5), (25, "logt", 0.1), (40, "t", 2.0)] if quick else
                         [(10, "logt", 0.5), (10, "t", 0.5), (25, "logt", 0.1), (40, "t", 2.0),
                          (100, "logt", 0.1), (100, "t", 0.1), (13, "t", 1e-3), (64, "logt", 5.0)])]
        real_pool = ctx.Pool(min(len(real_args), max(2, NCPU // 4)))
        real_async = real_pool.map_async(_real_run, real_args)

        cfg = scratch / "integral.cfg"
        cfg.write_text(CFG.format(**bounds))
        res = run_tlc("Integral", str(cfg), metadir=scratch / "m", collect_prefix="CASE", timeout=3000)
        require_ok(res, "Integral")
        cases = sorted(res.printed, key=case_key)
        if len({case_key(c) for c in cases}) != len(cases):
            raise MachineryError("TLC exported a case twice")
        kinds = {(c["mode"], c["kind"]) for c in cases}
        if len(kinds) != 4:
            raise MachineryError(f"vacuous exploration: only {kinds} exported")
        v.note(f"TLC Integral: {res.distinct} states, {res.generated} transitions, {len(cases)} closed cases "
               f"in {res.wall_s:.1f}s")

        # replay, in parallel
        t_replay = time.time()
        items = list(enumerate(cases))
        rng.shuffle(items)          # balance the chunks
        chunk = max(50, len(items) // (NCPU * 8))
        tasks = [(seed, tier, items[i:i + chunk], n_inst) for i in range(0, len(items), chunk)]
        lspecs = long_specs(tier, rng)
        lspecs.sort(key=lambda s: -s["m"])
        all_fails, used_inst, long_walls = [], set(), []
        with ctx.Pool(NCPU) as pool:
            long_async = [pool.apply_async(_long_one, (s,)) for s in lspecs]
            for out in pool.imap_unordered(_small_chunk, tasks):
                _merge(ratios, stats, out)
                all_fails.extend(out["fails"])
                used_inst.update(out["inst"])
                for mm in out["mism"]:
                    v.mismatch(mm)
            small_stats = dict(stats)
            lstats = {}
            for a in long_async:
                out = a.get(timeout=3000)
                _merge(ratios, lstats, out)
                all_fails.extend(out["fails"])
                long_walls.append(out["wall"])
                for mm in out["mism"]:
                    v.mismatch(mm)
        for sig, what, rep in all_fails:
            v.violation(sig, what, rep)
        v.note(f"replay wall {time.time() - t_replay:.1f}s")
        v.note(f"replayed {len(cases)} cases as {small_stats.get('instances', 0)} float instances "
               f"({small_stats.get('incremental', 0)} incremental, {small_stats.get('onepass', 0)} one-pass, "
               f"{small_stats.get('shifted', 0)} shifted runs); {len(lspecs)} long sequences "
               f"(max {max(s['m'] for s in lspecs)} entries, slowest {max(long_walls):.1f}s)")

        check_defaults(v)
        # real runs: P-clauses in Python, the call protocol in TLC
        runs = real_async.get(timeout=1500)
        real_pool.close()
        rstats = {}
        for r in runs:
            check_real_run(r, v, ratios, rstats)
        tres, n_ok = validate_traces(runs, scratch, v)
        v.note(f"real runs: {len(runs)} ({rstats.get('real_run_entries', 0)} integrator entries), "
               f"{n_ok} call sequences accepted by TraceIntegral ({tres.distinct} states)")

    n_total = len(build_instantiations(random.Random(seed)))
    sample_case = cases[len(cases) // 2]
    v.coverage = {
        "states": res.distinct + tres.distinct, "transitions": res.generated + tres.generated,
        "states_integral": res.distinct, "states_trace": tres.distinct,
        "traces_validated_against_impl": n_ok,
        "cases_exported_and_replayed": len(cases),
        "cases_by_kind": {f"{m}/{k}": sum(1 for c in cases if (c["mode"], c["kind"]) == (m, k))
                          for m, k in sorted(kinds)},
        "float_instances": small_stats.get("instances", 0),
        "incremental_runs": small_stats.get("incremental", 0) + lstats.get("incremental", 0),
        "onepass_runs": small_stats.get("onepass", 0) + lstats.get("onepass", 0),
        "shifted_runs": small_stats.get("shifted", 0) + lstats.get("shifted", 0),
        "degenerate_all_minus_inf_instances": small_stats.get("degenerate", 0),
        "instantiations_used": len(used_inst),
        "long_sequences": len(lspecs), "long_max_entries": max(s["m"] for s in lspecs),
        "long_max_nlive": max(s["nlive"] for s in lspecs),
        "real_runs": rstats.get("real_runs", 0), "real_run_entries": rstats.get("real_run_entries", 0),
        "max_error_over_tolerance": {k: float(f"{r:.3g}") for k, r in sorted(ratios.items())},
        "exhaustive": True, "bounds": bounds,
        "samples": [
            {k: sample_case[k] for k in ("mode", "kind", "nlive", "ls", "ns", "vols", "zrect", "ztrap")},
            {"long": lspecs[0]},
            {"real_run_trace_prefix": events_to_trace(runs[0])[:6], "nlive": runs[0]["nlive"],
             "mode": runs[0]["mode"], "entries": len(runs[0]["stored_logL"])},
        ],
        "rule": "every closed case of Integral.tla's complete graph within the bounds: all non-decreasing symbol "
                "sequences (symbol 0 = -inf, ties) x {sampling+finalise schedule for every nlive and every length "
                ">= nlive, arbitrary per-entry live counts} x {logt, t}; each case is run through the real "
                "_NSIntegralState and compute_weights as L = rank (expected value: TLC's exact rationals) and as "
                f"{n_total if n_inst['const'] > n_total else n_inst['const']} (sampler protocol) / {n_inst['vary']} "
                f"(varying counts) of {n_total} float instantiations (spacings 1e-12..2.5e4, "
                "offsets 0/+-1e5, mixed gaps) against the Fraction/mpmath(50 digits) oracle, with 1-2 shifts each; "
                "long random sequences and real sampler runs on top",
    }
    v.assumptions = [
        "mpmath at 50 digits and fractions.Fraction are correct; the oracle is checked for exact equality with "
        "TLC's rationals on every exported case",
        "tolerances as stated in vf/c02.py's docstring (float64 forward-error bounds with conditioning)",
        "sequences whose every log-likelihood is -inf (Z = 0, weights 0/0) are only checked for their volumes",
        "nlive is passed to compute_weights as a Python int or a numpy array (a numpy integer scalar raises "
        "TypeError in compute_weights; not part of the statement)",
    ]
    return v.finish()


def replay(path: str) -> int:
    """Re-run one recorded failing instance on the current tree."""
    _worker_init()
    with open(path) as f:
        rep = json.load(f)
    if "case" in rep:
        c = rep["case"]
        logL = np.array(rep["logL"], dtype=float)
        fails, mism = check_instance(c["mode"], c["kind"], c["nlive"], c["ns"], logL,
                                     shifts=rep.get("shifts", []), exact=True)
    elif "long" in rep:
        sp = rep["long"]
        logL, ns = build_long(sp)
        fails, mism = check_instance(sp["mode"], sp["kind"], sp["nlive"], ns.tolist(), logL,
                                     shifts=rep.get("shifts", []), exact=False)
    elif "real_run" in rep:
        a = rep["real_run"]
        v = Verdict(PROP, "quick", rep.get("seed", 0), "model_checking")
        v.violation = lambda sig, what, replay=None: fails.append((sig, what, None))   # no new replay files
        fails, mism = [], []
        with Scratch("c02r-") as scratch:
            run = _real_run((a["seed"], a["nlive"], a["mode"], a["stopping"], str(scratch / "run")))
        check_real_run(run, v, Ratios(), {})
    else:
        raise MachineryError(f"not a C02 replay file: {path}")
    for sig, what, _ in fails:
        print(f"VIOLATION property={PROP} replay={path}  # {sig}: {what}")
    for mm in mism:
        print(f"MODEL-MISMATCH property={PROP} {mm}")
    print(f"[{PROP}] replay: {len(fails)} failing clause(s)")
    return 1 if fails else 0


if __name__ == "__main__":
    sys.exit(main(sys.argv[1] if len(sys.argv) > 1 else "quick"))
