"""Projection of raw INS observer events to trace events for TLC (integers,
booleans, strings only)."""

from __future__ import annotations

from .pack import TIME_TOL, pack_ckpt_call


def _clean(v):
    if isinstance(v, float):
        return None
    if isinstance(v, dict):
        return {k: _clean(x) for k, x in v.items() if x is not None and not isinstance(x, float)}
    if isinstance(v, list):
        return [_clean(x) for x in v if not isinstance(x, float)]
    return v


def pack_ins(evs):
    out = []
    ev_base, st_base = {}, {}
    last_ckpt_digest = None
    last_ckpt_sched = None
    first_done = None
    for e in evs:
        ev = e["ev"]
        b = {k: _clean(v) for k, v in e.items() if not isinstance(v, float) and v is not None}
        b.pop("criterion", None)
        b.pop("tolerance", None)
        b.pop("digest", None)
        b.pop("sched", None)
        for store in ("tr", "iid"):
            if b.get(store) is None:
                b[store] = {"n": 0, "n_live": -1, "n_nested": 0, "ncols": 0, "rows": 0, "sorted": True,
                            "partition": True, "thr_set": False, "it_counts": [], "in_unit": True,
                            "logL_ok": True, "logU_ok": True, "densities_ok": True, "logQ_ok": True,
                            "logW_ok": True, "digest": 0, "clip_ok": True, "strict_ok": True}
            else:
                b[store].pop("density_error", None)
                b[store].setdefault("clip_ok", True)
                b[store].setdefault("strict_ok", True)
        if ev == "start":
            ev_base[e["proc"]] = 0
            st_base[e["proc"]] = 0.0
        if ev == "resume":
            ev_base[e["proc"]] = int(e.get("evals", 0))
            st_base[e["proc"]] = float(e.get("st", 0.0))
        if "evals" in e and "evals_here" in e and ev != "resume":
            b["evals_ok"] = bool(int(e["evals"]) == ev_base.get(e["proc"], 0) + int(e["evals_here"]))
        else:
            b["evals_ok"] = True
        if ev in ("ckpt", "done") and e.get("el", -1.0) >= 0:
            exp = st_base.get(e["proc"], 0.0) + float(e["el"])
            b["time_ok"] = bool(abs(float(e["st"]) - exp) <= TIME_TOL + 0.02 * exp)
            b["time_diff_ms"] = int(1000 * (float(e["st"]) - exp))
        else:
            b["time_ok"] = True
            b["time_diff_ms"] = 0
        if ev == "ckpt":
            last_ckpt_digest = e["digest"]
            last_ckpt_sched = e.get("sched")
            b["sched_ok"] = True
            b.setdefault("in_finalise", False)
        if ev == "resume":
            d = e["digest"]
            if last_ckpt_digest is None:
                b["digest_ok"], b["digest_diff"] = False, "no checkpoint event"
            else:
                diff = sorted(k for k in set(d) | set(last_ckpt_digest) if d.get(k) != last_ckpt_digest.get(k))
                b["digest_ok"], b["digest_diff"] = (not diff), ",".join(diff)
            b["sched_ok"] = bool(not b["digest_ok"] or e.get("sched") == last_ckpt_sched)
            # the flows restored from the level directories are the flows that were in memory at the checkpoint
            b["flows_ok"] = bool(last_ckpt_digest is None or d.get("flows") == last_ckpt_digest.get("flows"))
        if ev in ("done", "done_again"):
            if first_done is None:
                first_done = e
                b["same_as_done"] = True
            else:
                b["same_as_done"] = bool(first_done["res_digest"] == e["res_digest"]
                                         and first_done["evals"] == e["evals"])
        if ev == "ins_iter":
            if b.get("pre_remove") is None:
                b["pre_remove"] = {"thr_is_live": False, "n_live": 0, "n_below": -1}
            if b.get("train_n") is None:
                b["train_n"] = -1
        if ev == "ckpt_call":
            b = pack_ckpt_call(e, {"ev": ev, "proc": e["proc"], "seq": e["seq"]})
        if ev == "exception":
            b["what"] = str(e.get("what", ""))[:200]
        out.append(b)
    return out
