"""C19 — saved results read back equal to the in-memory results.

spec/Codec.tla is a grammar of value KINDS (None, floats, NaN, infinities,
numpy scalars, arrays, structured arrays, lists, nested dicts, objects that
cannot be serialised ...) with, per format, the stored form and what a standard
reader returns; TLC enumerates every dictionary within the bounds for
``FlowSampler.save_results`` (json / hdf5 / h5 and, on a smaller set, every
combination of filename extension and ``extension`` argument) and for
``FlowSampler.save_kwargs`` (config.json).

spec -> code: every case TLC exports is instantiated with concrete values and
run through the REAL ``FlowSampler.save_results`` / ``save_kwargs`` (hence
``save_to_json`` / ``save_dict_to_hdf5``), the file is read back with
``json.load`` / ``h5py`` and compared leaf by leaf.

code -> spec: tiny real runs of both samplers; the dictionary each run hands to
``save_results`` is captured, projected to its kind-tree, handed to TLC
(spec/TraceCodec.tla: it must be in the language of Codec.tla and gets the
specification's predictions), written with every spelling and compared leaf by
leaf with what is read back.

P-clauses (alarm): a result file in one of the three spellings whose
dictionary consists of result kinds must be written, be readable and hold the
same values; the real result files likewise (always); config.json must be
readable by ``json.load``.  Everything else (stored forms, Python types, which
kinds outside the result language raise or degrade, file names) is compared
with the specification as M-clauses (MODEL-MISMATCH only).
"""

from __future__ import annotations

import datetime
import functools
import json
import os
import random
import subprocess
import sys
import time
from fractions import Fraction
from pathlib import Path
from types import SimpleNamespace

import numpy as np

from .common import (NCPU, PY, VERIF, MachineryError, Scratch, Verdict,
                     digest31, seed_from_env)
from .tlc import require_ok, run_tlc

PROP = "C19"

CFG = """SPECIFICATION Spec
CONSTANTS
  MaxDepth = {depth}
  MaxLeaves = {leaves}
  ExtMode = "{mode}"
INVARIANT TypeOK
INVARIANT ResultRoundTrip
INVARIANT Spellings
INVARIANT ConfigReadable
INVARIANT RaisesOnlyOutside
INVARIANT JsonLoss
PROPERTY Terminates
ACTION_CONSTRAINT Export
CHECK_DEADLOCK FALSE
"""

TRACE_CFG = """SPECIFICATION TraceSpec
CONSTANTS
  MaxDepth = 1
  MaxLeaves = 0
  ExtMode = "run"
INVARIANT ResultRoundTrip
INVARIANT Spellings
INVARIANT ConfigReadable
INVARIANT RaisesOnlyOutside
INVARIANT JsonLoss
ACTION_CONSTRAINT TraceExport
CHECK_DEADLOCK FALSE
"""

SPELLINGS = ("json", "hdf5", "h5")
ADDED_BY_CALL = {
    "save_results": {"posterior_samples", "initial_posterior_samples"},
    "save_kwargs": {"eps", "torch_dtype", "importance_sampler"},
}
HDF5_MAGIC = b"\x89HDF\r\n\x1a\n"


# ---------------------------------------------------------------------------
# projection: concrete value -> kind (the same function in both directions)

def _is_bool(x):
    return isinstance(x, (bool, np.bool_))


def _is_num(x):
    return isinstance(x, (int, float, np.integer, np.floating)) and not _is_bool(x)


def _is_long(x):
    return isinstance(x, np.floating) and x.dtype.itemsize > 8


def kind_of(v) -> str:
    if v is None:
        return "none"
    if isinstance(v, np.bool_):
        return "npbool"
    if isinstance(v, bool):
        return "bool"
    if isinstance(v, np.integer):
        return "npint"
    if isinstance(v, int):
        return "int"
    if isinstance(v, (float, np.floating)):
        if np.isnan(v):
            return "nan"
        if np.isinf(v):
            return "pinf" if v > 0 else "ninf"
        if _is_long(v):
            return "nplongdouble"
        return "npfloat" if isinstance(v, np.floating) else "float"
    if isinstance(v, str):
        return "str"
    if isinstance(v, np.ndarray):
        if v.dtype.names:
            return "sarr" if v.ndim == 1 else f"unknown:sarr{v.ndim}d"
        if v.dtype.kind not in "fiu":
            return f"unknown:ndarray[{v.dtype}]"
        return {0: "arr0", 1: "arr1", 2: "arr2"}.get(v.ndim, f"unknown:arr{v.ndim}d")
    if isinstance(v, dict):
        return "dict"
    if isinstance(v, (list, tuple)):
        if isinstance(v, tuple):
            return "unknown:tuple"
        if len(v) == 0:
            return "emptylist"
        if all(_is_num(x) for x in v):
            return "numlist"
        if all(x is None or _is_num(x) for x in v):
            return "nonelist"
        if all(isinstance(x, str) for x in v):
            return "strlist"
        if all(isinstance(x, np.ndarray) and x.ndim == 1 and not x.dtype.names for x in v):
            return "arrlist" if len({len(x) for x in v}) == 1 else "raggedlist"
        return "unknown:list"
    if isinstance(v, (bytes, complex, set, frozenset)):
        return f"unknown:{type(v).__name__}"
    return "obj"


def kind_tree(d: dict, prefix="", parent=""):
    """Entries [path, parent, kind] of a (nested) dictionary."""
    out = []
    for k, v in d.items():
        if not isinstance(k, str) or "/" in k or k == "":
            out.append({"path": prefix + repr(k), "parent": parent, "kind": "unknown:key"})
            continue
        p = prefix + k
        kd = kind_of(v)
        out.append({"path": p, "parent": parent, "kind": kd})
        if kd == "dict":
            out.extend(kind_tree(v, p + "/", p))
    return out


# ---------------------------------------------------------------------------
# instantiation: kind -> concrete value

class NotSerialisable:
    """a class handed around as a keyword argument (flow_proposal_class=...)"""

    def method(self):
        return None


def a_callback(state):
    return None


class Ctx:
    """Shared expensive objects (a real multiprocessing pool)."""

    def __init__(self):
        self._pool = None

    @property
    def pool(self):
        if self._pool is None:
            import multiprocessing

            self._pool = multiprocessing.get_context("fork").Pool(1)
        return self._pool

    def close(self):
        if self._pool is not None:
            self._pool.terminate()
            self._pool.join()
            self._pool = None


def _finite(rng):
    c = rng.randrange(12)
    if c == 0:
        return 0.0
    if c == 1:
        return -0.0
    if c == 2:
        return 5e-324
    if c == 3:
        return 1.7976931348623157e308
    if c == 4:
        return 0.1 + 0.2
    if c == 5:
        return 1e5 + rng.random()
    if c == 6:
        return -1e5 - rng.random()
    if c == 7:
        return datetime.timedelta(microseconds=rng.randrange(10 ** 10)).total_seconds()
    if c == 8:
        return float(rng.randrange(-1000, 1000))
    return rng.uniform(-1, 1) * 10.0 ** rng.randint(-12, 12)


def _float_elems(rng, n, special=True):
    out = np.array([_finite(rng) for _ in range(n)], dtype=float)
    if special and n:
        for _ in range(rng.randrange(3)):
            out[rng.randrange(n)] = rng.choice([np.nan, np.inf, -np.inf])
    return out


def _np_float(x, rng):
    t = rng.choice([np.float64, np.float64, np.float32, np.float16])
    with np.errstate(over="ignore"):
        y = t(x)
    if not np.isfinite(y):
        y = t(rng.uniform(-100, 100))
    return y


def _int(rng):
    return rng.choice([0, 1, -1, rng.randrange(-10 ** 6, 10 ** 6), 2 ** 31, -2 ** 31 - 1,
                       2 ** 53 + 1, 2 ** 63 - 1, -2 ** 63, rng.randrange(-2 ** 62, 2 ** 62)])


def _np_int(rng):
    t = rng.choice([np.int64, np.int32, np.int16, np.int8, np.uint8, np.uint16, np.uint32, np.uint64])
    info = np.iinfo(t)
    return t(rng.choice([info.min, info.max, 0, 1, rng.randint(info.min, info.max)]))


def _sarr(rng, n=None):
    from nessai.livepoint import numpy_array_to_live_points

    n = rng.choice([0, 1, 2, 3, 5, 8]) if n is None else n
    names = rng.choice([["x", "y"], ["x_0"], ["mass_1", "mass_2", "chi"], ["a", "b", "c", "d"]])
    arr = np.stack([_float_elems(rng, n, special=False) for _ in names], axis=-1) if n else \
        np.empty((0, len(names)))
    x = numpy_array_to_live_points(arr, names)
    if n:
        x["logL"] = _float_elems(rng, n)
        x["logP"] = _float_elems(rng, n)
        if "it" in x.dtype.names:
            x["it"] = [rng.randrange(-1, 1000) for _ in range(n)]
    return x


_STRINGS = ["", "abc", "0.13.2", "nessai 0.13.2+dirty", "ünïcode ✓ λ", "a\nb\tc", '"quoted" \\ back',
            "with/slash", " ", "None", "nan", "True", "1.5", "[1, 2]"]


def inst(kind: str, rng: random.Random, ctx: Ctx):
    if kind == "none":
        return None
    if kind == "float":
        return _finite(rng)
    if kind in ("nan", "pinf", "ninf"):
        x = {"nan": float("nan"), "pinf": float("inf"), "ninf": float("-inf")}[kind]
        t = rng.choice([float, float, np.float64, np.float32, np.longdouble])
        return t(x)
    if kind == "bool":
        return rng.random() < 0.5
    if kind == "int":
        return _int(rng)
    if kind == "npint":
        return _np_int(rng)
    if kind == "npfloat":
        return _np_float(_finite(rng), rng)
    if kind == "nplongdouble":
        return rng.choice([np.longdouble(1) / np.longdouble(3),
                           np.longdouble(_finite(rng)),
                           np.longdouble(rng.randrange(1, 10 ** 6)) / np.longdouble(7),
                           np.exp(np.longdouble(rng.uniform(-5, 5)))])
    if kind == "npbool":
        return np.bool_(rng.random() < 0.5)
    if kind == "str":
        return rng.choice(_STRINGS)
    if kind == "arr0":
        return np.array(_finite(rng))
    if kind == "arr1":
        n = rng.choice([0, 1, 2, 3, 7, 20])
        c = rng.randrange(6)
        if c == 0:
            return np.array([rng.randrange(-2 ** 40, 2 ** 40) for _ in range(n)], dtype=np.int64)
        if c == 1:
            return rng_f32(rng, n)
        if c == 2:
            return np.array([rng.randrange(0, 2 ** 31) for _ in range(n)], dtype=np.int32)
        return _float_elems(rng, n)
    if kind == "arr2":
        n, m = rng.choice([0, 1, 2, 4]), rng.choice([1, 2, 3])
        if rng.randrange(8) == 0:
            n, m = 2, 0
        return _float_elems(rng, n * m).reshape(n, m)
    if kind == "sarr":
        return _sarr(rng)
    if kind == "numlist":
        n = rng.randint(1, 6)
        c = rng.randrange(4)
        if c == 0:      # iteration counters: Python / numpy integers
            return [rng.choice([int, np.int64])(rng.randrange(0, 2 ** 40)) for _ in range(n)]
        if c == 1:      # all Python floats
            return [float(x) for x in _float_elems(rng, n)]
        out = []        # what the history lists hold: Python and numpy numbers mixed
        for x in _float_elems(rng, n):
            t = rng.randrange(6)
            if t == 5:  # (INS history: fractional_error is extended precision)
                out.append(np.longdouble(x) / np.longdouble(3))
            elif t == 0:
                out.append(float(x))
            elif t == 1:
                out.append(np.float64(x))
            elif t == 2:
                out.append(rng.randrange(-1000, 1000))
            elif t == 3:
                out.append(np.int64(rng.randrange(-1000, 1000)))
            else:
                with np.errstate(over="ignore"):
                    out.append(np.float32(x))
        return out
    if kind == "emptylist":
        return []
    if kind == "arrlist":
        k, n = rng.randint(1, 3), rng.choice([0, 1, 2, 4])
        return [_float_elems(rng, n) for _ in range(k)]
    if kind == "raggedlist":
        k = rng.randint(2, 3)
        lens = rng.sample(range(0, 5), k)
        return [_float_elems(rng, n) for n in lens]
    if kind == "nonelist":
        n = rng.randint(1, 4)
        out = [rng.choice([float, np.float64])(_finite(rng)) for _ in range(n)]
        out[rng.randrange(n)] = None
        return out
    if kind == "strlist":
        return [rng.choice(_STRINGS) for _ in range(rng.randint(1, 3))]
    if kind == "obj":
        c = rng.randrange(8)
        if c == 0:
            return NotSerialisable
        if c == 1:
            return a_callback
        if c == 2:
            return ctx.pool
        if c == 3:
            return NotSerialisable()
        if c == 4:
            return lambda x: x
        if c == 5:
            return NotSerialisable().method
        if c == 6:
            return functools.partial(a_callback, 1)
        return print
    raise MachineryError(f"no instantiation for kind {kind!r}")


def rng_f32(rng, n):
    with np.errstate(over="ignore"):
        a = _float_elems(rng, n).astype(np.float32)
    return a


def build_dict(entries, rng, ctx, skip=()):
    """Concrete nested dictionary from entries [{p, q, k}] (TLC's Short form)."""
    root: dict = {}
    nodes = {"": root}
    for e in sorted(entries, key=lambda e: (e["p"].count("/"), e["p"])):
        if e["q"] == "" and e["p"] in skip:
            continue
        key = e["p"][len(e["q"]) + 1:] if e["q"] else e["p"]
        parent = nodes[e["q"]]
        if e["k"] == "dict":
            parent[key] = nodes[e["p"]] = {}
        else:
            parent[key] = inst(e["k"], rng, ctx)
            got = kind_of(parent[key])
            if got != e["k"]:
                raise MachineryError(f"instantiation of {e['k']} has kind {got}")
    return root


def describe(v, depth=0):
    """A compact, JSON-able description of a concrete value (for replay files)."""
    if isinstance(v, dict):
        return {k: describe(x, depth + 1) for k, x in v.items()}
    if isinstance(v, np.ndarray):
        return f"ndarray(dtype={v.dtype}, shape={v.shape}): {np.array2string(v, threshold=12, precision=17)}"
    if isinstance(v, (list, tuple)):
        return [describe(x, depth + 1) for x in v[:12]]
    return f"{type(v).__module__}.{type(v).__name__}: {v!r}"


# ---------------------------------------------------------------------------
# readers and observation of what a file holds

class Tok:
    __slots__ = ("form",)

    def __init__(self, form):
        self.form = form


def json_forms(text: str):
    """path -> JSON form, from the token structure of the file."""
    tree = json.loads(text, parse_float=lambda s: Tok("real"), parse_int=lambda s: Tok("integer"),
                      parse_constant=lambda c: Tok(c))
    out = {}

    def form(v):
        if v is None:
            return "null"
        if isinstance(v, bool):
            return "boolean"
        if isinstance(v, Tok):
            return v.form
        if isinstance(v, str):
            return "string"
        if isinstance(v, list):
            if len(v) == 0:
                return "array_empty"
            return "array_of_arrays" if all(isinstance(x, list) for x in v) else "array"
        if isinstance(v, dict):
            return "object"
        return "?"

    def walk(d, prefix):
        for k, v in d.items():
            out[prefix + k] = form(v)
            if isinstance(v, dict):
                walk(v, prefix + k + "/")

    if isinstance(tree, dict):
        walk(tree, "")
    return out


def hdf5_forms(path):
    import h5py

    out = {}

    def visit(name, item):
        if isinstance(item, h5py.Group):
            out[name] = "group"
            return
        dt, nd = item.dtype, item.ndim
        if dt.names:
            base = "compound"
        elif dt.kind == "f":
            base = "float"
        elif dt.kind in "iu":
            base = "int"
        elif dt.kind == "b":
            base = "bool"
        elif dt.kind in "OS":
            base = "string"
        else:
            base = f"?{dt}"
        if nd == 0:
            out[name] = f"{base}_scalar"
        elif base in ("float", "int"):
            out[name] = f"dataset{nd}"
        else:
            out[name] = f"{base}{'_dataset' if base in ('string', 'bool') else ''}{nd}"

    with h5py.File(path, "r") as f:
        f.visititems(visit)
    return out


def read_hdf5(path) -> dict:
    """Generic HDF5 -> dict reader honouring nessai's conventions: groups are
    dictionaries, byte strings are text, the text "__none__" is None."""
    import h5py

    def rec(g):
        out = {}
        for k, item in g.items():
            if isinstance(item, h5py.Group):
                out[k] = rec(item)
                continue
            v = item[()]
            if isinstance(v, bytes):
                v = v.decode("utf-8")
            if isinstance(v, str) and v == "__none__":
                v = None
            out[k] = v
        return out

    with h5py.File(path, "r") as f:
        return rec(f)


def read_any(path):
    """(format, dictionary) of a result file, format found from the content."""
    with open(path, "rb") as f:
        head = f.read(8)
    if head == HDF5_MAGIC:
        return "hdf5", read_hdf5(path)
    with open(path) as f:
        return "json", json.load(f)


def pytype(v) -> str:
    if v is None:
        return "NoneType"
    if isinstance(v, np.bool_):
        return "npbool"
    if isinstance(v, bool):
        return "bool"
    if isinstance(v, np.integer):
        return "npint"
    if isinstance(v, int):
        return "int"
    if isinstance(v, np.floating):
        return "npfloat"
    if isinstance(v, float):
        return "float"
    if isinstance(v, str):
        return "str"
    if isinstance(v, np.ndarray):
        return "sarray" if v.dtype.names else "ndarray"
    return type(v).__name__


def sem_obs(v) -> str:
    if v is None:
        return "none"
    if _is_bool(v):
        return "bool"
    if isinstance(v, (int, np.integer)):
        return "integer"
    if isinstance(v, (float, np.floating)):
        if np.isnan(v):
            return "nan"
        if np.isinf(v):
            return "pinf" if v > 0 else "ninf"
        return "real"
    if isinstance(v, str):
        return "str"
    if isinstance(v, dict):
        return "dict"
    if isinstance(v, np.ndarray):
        if v.dtype.names:
            return "table"
        if v.size == 0:
            return "empty"
        if v.dtype.kind in "OSU":
            return "strvector"
        return {1: "vector", 2: "matrix"}.get(v.ndim, f"array{v.ndim}")
    if isinstance(v, list):
        if not v:
            return "empty"
        if all(isinstance(x, list) for x in v):
            return "matrix" if len({len(x) for x in v}) == 1 else "ragged"
        if any(x is None for x in v):
            return "vector_with_none"
        if all(isinstance(x, str) for x in v):
            return "strvector"
        return "vector"
    return "?"


def sem_compatible(pred, obs) -> bool:
    return (pred == obs
            or (pred == "repr" and obs == "str")
            or (pred == "records" and obs in ("matrix", "empty"))
            or (pred == "columns" and obs == "dict")
            or (obs == "empty" and pred in ("vector", "matrix", "table", "records", "strvector"))
            or (pred == "ragged" and obs == "matrix"))


def form_compatible(pred, obs) -> bool:
    return (pred == obs
            or (obs == "array_empty" and pred in ("array", "array_of_arrays"))
            or (pred == "object_of_arrays" and obs == "object"))


# ---------------------------------------------------------------------------
# the property's "same value"

def scalar_same(a, b, fmt):
    if isinstance(b, bytes):
        try:
            b = b.decode("utf-8")
        except UnicodeDecodeError:
            return False
    if a is None or b is None:
        return a is None and b is None
    if isinstance(a, str) or isinstance(b, str):
        return isinstance(a, str) and isinstance(b, str) and str(a) == str(b)
    if _is_bool(a):
        return (_is_bool(b) or _is_num(b)) and (b == 0 or b == 1) and bool(a) == bool(b)
    if _is_bool(b) or not (_is_num(a) and _is_num(b)):
        return False
    ai, bi = isinstance(a, (int, np.integer)), isinstance(b, (int, np.integer))
    if ai and bi:
        return int(a) == int(b)
    if ai or bi:                               # integer against float: exact
        i, f = (a, b) if ai else (b, a)
        if not np.isfinite(f):
            return False
        if _is_long(f):
            return bool(np.longdouble(int(i)) == f)
        return Fraction(float(f)) == int(i)
    if _is_long(a) or _is_long(b):
        if fmt == "json":                      # a JSON number is read as a double
            fa, fb = np.float64(a), np.float64(b)
        else:
            fa, fb = np.longdouble(a), np.longdouble(b)
    else:
        fa, fb = np.float64(a), np.float64(b)  # float16/32 -> double is exact
    if np.isnan(fa) or np.isnan(fb):
        return bool(np.isnan(fa) and np.isnan(fb))
    return bool(fa == fb)


def _is_seq(x):
    return isinstance(x, (list, tuple)) or (isinstance(x, np.ndarray) and x.ndim >= 1 and not x.dtype.names)


def seq_same(a, b, fmt):
    """None if the sequences hold the same values, else a reason."""
    if not _is_seq(b):
        return f"a sequence came back as {pytype(b)}"
    # fast path: rectangular numeric data on both sides
    try:
        aa = a if isinstance(a, np.ndarray) else np.asarray(a)
        bb = b if isinstance(b, np.ndarray) else np.asarray(b)
    except (ValueError, TypeError):
        aa = bb = None
    if aa is not None and aa.dtype.kind in "fiu" and bb.dtype.kind in "fiu":
        if aa.size == 0 and bb.size == 0:
            return None
        if aa.shape != bb.shape:
            return f"shape {aa.shape} came back as {bb.shape}"
        if aa.dtype.kind in "iu" and bb.dtype.kind in "iu":
            ok = all(int(x) == int(y) for x, y in zip(aa.ravel().tolist(), bb.ravel().tolist()))
        else:
            if (aa.dtype.itemsize > 8 or bb.dtype.itemsize > 8) and fmt == "json":
                aa, bb = aa.astype(np.float64), bb.astype(np.float64)
            ok = bool(np.array_equal(aa, bb, equal_nan=True))
        if ok:
            return None
        idx = [i for i, (x, y) in enumerate(zip(aa.ravel().tolist(), bb.ravel().tolist()))
               if not scalar_same(x, y, fmt)]
        if not idx:
            return None
        i = idx[0]
        return f"{len(idx)} element(s) differ, first at flat index {i}: {aa.ravel()[i]!r} came back as {bb.ravel()[i]!r}"
    # general path
    la, lb = list(a), list(b)
    if len(la) != len(lb):
        return f"length {len(la)} came back as {len(lb)}"
    for i, (x, y) in enumerate(zip(la, lb)):
        r = value_same(x, y, fmt)
        if r:
            return f"[{i}]: {r}"
    return None


def table_same(a, b, fmt):
    names = list(a.dtype.names)
    if isinstance(b, np.ndarray) and b.dtype.names:
        if sorted(b.dtype.names) != sorted(names):
            return f"fields {names} came back as {list(b.dtype.names)}"
        cols = {n: b[n] for n in names}
    elif isinstance(b, dict):
        if sorted(b) != sorted(names):
            return f"fields {names} came back as keys {sorted(b)}"
        cols = b
    elif isinstance(b, (list, np.ndarray)):
        rows = list(b)
        if len(rows) != len(a):
            return f"{len(a)} records came back as {len(rows)}"
        if any(not _is_seq(r) or len(r) != len(names) for r in rows):
            return "a record does not have one value per field"
        cols = {n: [r[j] for r in rows] for j, n in enumerate(names)}
    else:
        return f"a structured array came back as {pytype(b)}"
    for n in names:
        r = seq_same(a[n], cols[n], fmt)
        if r:
            return f"field {n}: {r}"
    return None


def value_same(a, b, fmt):
    if isinstance(a, dict):
        if not isinstance(b, dict):
            return f"a dict came back as {pytype(b)}"
        lost = compare_tree(a, b, fmt)
        return None if not lost else "; ".join(f"{k}: {v}" for k, v in list(lost.items())[:3])
    if isinstance(a, np.ndarray) and a.dtype.names:
        return table_same(a, b, fmt)
    if isinstance(a, np.ndarray) and a.ndim == 0:
        a = a[()]
    if isinstance(b, np.ndarray) and b.ndim == 0 and not b.dtype.names:
        b = b[()]
    if _is_seq(a):
        return seq_same(a, b, fmt)
    if _is_seq(b) or isinstance(b, dict):
        return f"a scalar came back as {pytype(b)}"
    if a is None or isinstance(a, (str, bool, int, float, np.generic)):
        return None if scalar_same(a, b, fmt) else f"{a!r} came back as {b!r}"
    return f"{type(a).__name__} object came back as {b!r}"      # not a value the file can hold


def all_paths(d, prefix=""):
    out = []
    for k, v in d.items():
        out.append(prefix + k)
        if isinstance(v, dict):
            out.extend(all_paths(v, prefix + k + "/"))
    return out


def compare_tree(mem: dict, back: dict, fmt: str, prefix="") -> dict:
    """path -> reason for every path of ``mem`` that did not come back the same."""
    lost = {}
    for k, v in mem.items():
        p = prefix + k
        if k not in back:
            lost[p] = "missing from the file"
            if isinstance(v, dict):
                for q in all_paths(v, p + "/"):
                    lost[q] = "missing from the file"
            continue
        b = back[k]
        if isinstance(v, dict):
            if not isinstance(b, dict):
                lost[p] = f"a dict came back as {pytype(b)}"
                continue
            lost.update(compare_tree(v, b, fmt, p + "/"))
        else:
            r = value_same(v, b, fmt)
            if r:
                lost[p] = r
    for k in back:
        if k not in mem:
            lost[prefix + str(k)] = "key not in the in-memory results"
    return lost


def observe_back(mem: dict, back: dict, prefix="") -> dict:
    """path -> [python type, semantic class] of what came back, on mem's paths."""
    out = {}
    for k, b in back.items():
        p = prefix + k
        out[p] = [pytype(b), sem_obs(b)]
        if isinstance(b, dict) and isinstance(mem.get(k), dict):
            out.update(observe_back(mem[k], b, p + "/"))
    return out


def count_values(v) -> int:
    if isinstance(v, dict):
        return sum(count_values(x) for x in v.values())
    if isinstance(v, np.ndarray):
        return int(v.size) * (len(v.dtype.names) if v.dtype.names else 1)
    if isinstance(v, (list, tuple)):
        return sum(count_values(x) for x in v)
    return 1


# ---------------------------------------------------------------------------
# one execution of the real writer + reader

def effective_ext(fe, ea):
    return fe if ea in (None, "None") else ea


def run_save_results(mem_d: dict, post, initial, fe, ea, directory: Path):
    """Real FlowSampler.save_results on a stand-in sampler whose result
    dictionary is ``mem_d``.  Returns the observation."""
    from nessai.flowsampler import FlowSampler

    stub = SimpleNamespace(
        ns=SimpleNamespace(get_result_dictionary=lambda: dict(mem_d)),
        posterior_samples=post,
    )
    if initial is not None:
        stub.initial_posterior_samples = initial
    fn = str(directory / ("result" + (f".{fe}" if fe else "")))
    return observe_call(lambda: FlowSampler.save_results(stub, fn, extension=None if ea == "None" else ea),
                        directory)


def run_save_kwargs(kwargs: dict, directory: Path):
    from nessai.flowsampler import FlowSampler
    import torch

    stub = SimpleNamespace(eps=None, torch_dtype=torch.float32, importance_nested_sampler=False,
                           output=os.path.join(str(directory), ""))
    return observe_call(lambda: FlowSampler.save_kwargs(stub, kwargs), directory)


def observe_call(call, directory: Path):
    obs = {"status": "ok", "error": None, "fname": None, "fmt": None, "back": None, "forms": {},
           "read_error": None}
    try:
        call()
    except RuntimeError as ex:
        msg = str(ex)
        if "extension" in msg:
            obs["status"], obs["error"] = "ext_error", msg
            return obs
        obs["status"], obs["error"] = "raised", f"{type(ex).__name__}: {ex}"
    except Exception as ex:  # noqa: BLE001 - whatever the writer throws is the observation
        obs["status"], obs["error"] = "raised", f"{type(ex).__name__}: {ex}"
    files = sorted(p.name for p in directory.iterdir() if p.is_file())
    if obs["status"] == "raised":
        obs["files"] = files
        return obs
    if len(files) != 1:
        obs["status"], obs["error"] = "nofile", f"files written: {files}"
        return obs
    obs["fname"] = files[0]
    path = directory / files[0]
    try:
        obs["fmt"], obs["back"] = read_any(path)
    except Exception as ex:  # noqa: BLE001
        obs["read_error"] = f"{type(ex).__name__}: {ex}"
        return obs
    try:
        obs["forms"] = json_forms(path.read_text()) if obs["fmt"] == "json" else hdf5_forms(path)
    except Exception as ex:  # noqa: BLE001
        obs["forms"] = {}
        obs["forms_error"] = str(ex)
    return obs


def clear_dir(directory: Path):
    for p in directory.iterdir():
        if p.is_file():
            p.unlink()


def judge(case, mem_full, obs, *, always_p=False):
    """Findings of one execution against the property (P) and the
    specification's prediction (M).

    ``case``: the specification's record (CaseRecord of Codec.tla).
    ``mem_full``: the in-memory dictionary incl. what the caller adds.
    Returns (violations [(sig, what)], mismatches [str], lost {path: reason}).
    """
    viol, mism = [], []
    call, fe, ea = case["call"], case["fe"], case["ea"]
    what = f"{call}(fe={fe!r}, extension={ea!r})"
    lost = {}
    if obs["back"] is not None and isinstance(obs["back"], dict):
        lost = compare_tree(mem_full, obs["back"], obs["fmt"])
    # ---- P-clauses
    if call == "save_kwargs":
        if obs["status"] != "ok":
            viol.append(("config_not_written", f"save_kwargs failed: {obs['error']}"))
        elif obs["read_error"] or obs["fmt"] != "json" or not isinstance(obs["back"], dict):
            viol.append(("config_unreadable",
                         f"config.json cannot be read with json.load: {obs['read_error'] or obs['fmt']}"))
    elif effective_ext(fe, ea) in SPELLINGS and (always_p or case.get("req")):
        if obs["status"] != "ok":
            viol.append(("result_not_written", f"{what} failed on a dictionary of result kinds: {obs['error']}"))
        elif obs["read_error"] or not isinstance(obs["back"], dict):
            viol.append(("result_unreadable", f"{what}: file {obs['fname']} cannot be read back: {obs['read_error']}"))
        elif lost:
            p, r = next(iter(lost.items()))
            viol.append(("value_differs",
                         f"{what} [{obs['fmt']}]: {len(lost)} path(s) do not read back equal, e.g. {p}: {r}"))
    # ---- M-clauses: the specification's prediction
    if obs["status"] != case["status"]:
        mism.append(f"{what}: status {obs['status']} ({obs['error']}), specification says {case['status']}; "
                    f"kinds {sorted(e['k'] for e in case['mem'])}")
        return viol, mism, lost
    if obs["status"] != "ok":
        return viol, mism, lost
    if obs["fname"] != case["fname"]:
        mism.append(f"{what}: file {obs['fname']}, specification says {case['fname']}")
    if obs["fmt"] != case["fmt"]:
        mism.append(f"{what}: format {obs['fmt']}, specification says {case['fmt']}")
        return viol, mism, lost
    if obs["read_error"]:
        mism.append(f"{what}: unreadable ({obs['read_error']}), specification says ok")
        return viol, mism, lost
    pred_forms = {s["path"]: s["form"] for s in case["stored"]}
    for p, f in pred_forms.items():
        o = obs["forms"].get(p, "ABSENT")
        if not form_compatible(f, o):
            mism.append(f"{what} [{obs['fmt']}] {p}: stored as {o}, specification says {f}")
    types = observe_back(mem_full, obs["back"])
    for b in case["back"]:
        o = types.get(b["path"])
        if o is None:
            mism.append(f"{what} [{obs['fmt']}] {b['path']}: absent after read-back, specification says {b['t']}")
        elif o[0] != b["t"] or not sem_compatible(b["s"], o[1]):
            mism.append(f"{what} [{obs['fmt']}] {b['path']}: read back as {o[0]}/{o[1]}, "
                        f"specification says {b['t']}/{b['s']}")
    if set(lost) != set(case["lost"]):
        mism.append(f"{what} [{obs['fmt']}]: paths not read back equal {sorted(lost)}, "
                    f"specification says {sorted(case['lost'])}")
    return viol, mism, lost


def case_key(case):
    return (case["call"], case["fe"], case["ea"], bool(case.get("ini")),
            tuple(sorted((e["p"], e["k"]) for e in case["mem"])))


def replay_case(case, idx, seed, directory: Path, ctx: Ctx, rep: int = 0):
    """Instantiate one exported case and run it through the real code."""
    rng = random.Random(digest31(seed, "case", idx, rep, case_key(case)))
    call = case["call"]
    d = build_dict(case["mem"], rng, ctx, skip=ADDED_BY_CALL[call])
    clear_dir(directory)
    if call == "save_results":
        post = _sarr(rng)
        initial = _sarr(rng) if case["ini"] else None
        obs = run_save_results(d, post, initial, case["fe"], case["ea"], directory)
        mem_full = dict(d, posterior_samples=post)
        if initial is not None:
            mem_full["initial_posterior_samples"] = initial
    else:
        import torch

        obs = run_save_kwargs(d, directory)
        mem_full = dict(d, eps=None, torch_dtype=torch.float32, importance_sampler=False)
    viol, mism, lost = judge(case, mem_full, obs)
    clear_dir(directory)
    return viol, mism, mem_full, obs


def replay_chunk(args):
    """Worker of the parallel replay: a slice of the cases."""
    cases, start, seed, directory, reps = args
    directory = Path(directory)
    directory.mkdir(parents=True, exist_ok=True)
    ctx = Ctx()
    out = []
    stats = {"executions": 0, "ok": 0, "raised": 0, "ext_error": 0, "values": 0}
    try:
        for j, case in enumerate(cases):
            idx = start + j
            for rep in range(reps):
                viol, mism, mem_full, obs = replay_case(case, idx, seed, directory, ctx, rep)
                stats["executions"] += 1
                stats[obs["status"]] = stats.get(obs["status"], 0) + 1
                if obs["status"] == "ok":
                    stats["values"] += count_values(mem_full)
                if viol or mism:
                    out.append((idx, viol, mism, describe(mem_full), obs.get("error"), rep))
    finally:
        ctx.close()
    return out, stats


def check_save_live_points(v: Verdict, rng, directory: Path, n: int):
    """nessai.utils.io.save_live_points: JSON dict of columns."""
    from nessai.utils.io import save_live_points

    done = 0
    for i in range(n):
        x = _sarr(rng)
        clear_dir(directory)
        fn = directory / "live_points.json"
        try:
            save_live_points(x, str(fn))
            with open(fn) as f:
                back = json.load(f)
        except Exception as ex:  # noqa: BLE001
            v.violation("live_points_unreadable", f"save_live_points / json.load failed: {type(ex).__name__}: {ex}",
                        {"live_points": describe(x)})
            continue
        r = table_same(x, back, "json")
        if r:
            v.violation("value_differs", f"save_live_points: {r}", {"live_points": describe(x)})
        done += 1
    clear_dir(directory)
    return done


# ---------------------------------------------------------------------------
# real runs (executed in a subprocess: ``python -m vf.c19 --worker spec.json``)

def make_model():
    from nessai.model import Model

    class Gaussian2d(Model):
        def __init__(self):
            self.names = ["x", "y"]
            self.bounds = {"x": [-5.0, 5.0], "y": [-5.0, 5.0]}

        def log_prior(self, x):
            log_p = np.log(self.in_bounds(x), dtype="float")
            for n in self.names:
                log_p -= np.log(self.bounds[n][1] - self.bounds[n][0])
            return log_p

        def log_likelihood(self, x):
            log_l = np.zeros(x.size)
            for n in self.names:
                log_l += -0.5 * x[n] ** 2 - 0.5 * np.log(2 * np.pi)
            return log_l

        def to_unit_hypercube(self, x):
            out = x.copy()
            for n in self.names:
                out[n] = (x[n] - self.bounds[n][0]) / (self.bounds[n][1] - self.bounds[n][0])
            return out

        def from_unit_hypercube(self, x):
            out = x.copy()
            for n in self.names:
                out[n] = (self.bounds[n][1] - self.bounds[n][0]) * x[n] + self.bounds[n][0]
            return out

    return Gaussian2d()


def run_specs(tier, seed):
    specs = [
        dict(name="std_a", ins=False, seed=seed + 1, ext="json", variant="plain", max_iteration=150),
        dict(name="std_b", ins=False, seed=seed + 2, ext="hdf5", variant="objects", max_iteration=120),
        dict(name="ins_a", ins=True, seed=seed + 3, ext="h5", variant="plain", max_iteration=3),
        dict(name="ins_b", ins=True, seed=seed + 4, ext="json", variant="callback", max_iteration=2),
    ]
    if tier == "thorough":
        specs += [
            dict(name="std_c", ins=False, seed=seed + 5, ext="h5", variant="noseed", max_iteration=200),
            dict(name="std_d", ins=False, seed=seed + 6, ext="json", variant="objects", max_iteration=60),
            dict(name="ins_c", ins=True, seed=seed + 7, ext="hdf5", variant="callback", max_iteration=3),
            dict(name="ins_d", ins=True, seed=seed + 8, ext="json", variant="noseed", max_iteration=2),
            dict(name="std_e", ins=False, seed=seed + 9, ext="hdf5", variant="plain", max_iteration=400),
            dict(name="ins_e", ins=True, seed=seed + 10, ext="h5", variant="objects", max_iteration=4),
        ]
    return specs


def worker(specfile: str) -> int:
    """One tiny real run; every save/read-back of its results; report as JSON."""
    with open(specfile) as f:
        spec = json.load(f)
    import logging

    import torch

    torch.set_num_threads(1)
    logging.getLogger("nessai").setLevel(logging.CRITICAL)
    from nessai.flowsampler import FlowSampler

    out = Path(spec["out"])
    run_dir = out / "run"
    model = make_model()
    np.random.seed(spec["seed"])
    torch.manual_seed(spec["seed"])
    kw = dict(
        output=str(run_dir), resume=False, plot=False, signal_handling=False,
        seed=spec["seed"], result_extension=spec["ext"],
        flow_config=dict(n_blocks=2, n_neurons=2, n_layers=1, batch_norm_between_layers=False),
        max_iteration=spec["max_iteration"],
    )
    if spec["ins"]:
        kw.update(importance_nested_sampler=True, nlive=100, min_samples=20)
    else:
        kw.update(nlive=50)
    variant = spec["variant"]
    pool = None
    if variant == "noseed":
        kw["seed"] = None
    if variant == "objects":
        # keyword arguments that cannot be serialised: a class, a callback, a pool
        import multiprocessing

        from nessai.utils.multiprocessing import initialise_pool_variables

        kw["checkpoint_callback"] = a_callback
        initialise_pool_variables(model)
        pool = multiprocessing.get_context("fork").Pool(2)
        kw["pool"] = pool
        if not spec["ins"]:
            from nessai.proposal import FlowProposal

            kw["flow_proposal_class"] = FlowProposal
            kw["checkpointing"] = True
            kw["checkpoint_on_iteration"] = True
            kw["checkpoint_interval"] = 40
    run_kw = {}
    if variant == "callback":
        # (redraw_samples=True would add final samples to the results, but
        # draw_final_samples fails on this tree for an unrelated reason)
        kw["checkpoint_callback"] = a_callback
        kw["stopping_criterion"] = ["ratio", "ess"]
        kw["tolerance"] = [0.0, 1e5]
    # what reaches FlowSampler's **kwargs, i.e. save_kwargs (snapshot: the sampler
    # later adds entries to the flow_config dictionary it was given)
    passed_kwargs = {k: (dict(v) if isinstance(v, dict) else v) for k, v in kw.items()
                     if k not in ("output", "resume", "signal_handling", "result_extension",
                                  "importance_nested_sampler")}
    report = {"name": spec["name"], "spec": spec, "cases": [], "violations": [], "notes": [],
              "stats": {"saves": 0, "values": 0, "leaves": 0}}
    t0 = time.time()
    orig_kwargs = FlowSampler.save_kwargs
    kwargs_error = []

    def saving_kwargs(self, *a, **k):
        try:
            return orig_kwargs(self, *a, **k)
        except Exception as ex:
            kwargs_error.append(ex)
            raise

    FlowSampler.save_kwargs = saving_kwargs
    try:
        fs = FlowSampler(model, **kw)
    except Exception as ex:
        if pool is not None:
            pool.terminate()
            pool.join()
        if not kwargs_error or kwargs_error[-1] is not ex:
            raise
        # config.json could not be written: the sampler cannot even be constructed
        report["violations"].append(
            ("config_not_written",
             f"run {spec['name']}: FlowSampler(...) failed writing config.json: {type(ex).__name__}: {ex}",
             {"kwargs": describe(passed_kwargs)}))
        report["iterations"], report["run_s"], report["kind_histogram"] = 0, 0.0, {}
        with open(out / "report.json", "w") as f:
            json.dump(report, f, default=str)
        return 0
    captured = []
    sampler_class = type(fs.ns)
    orig = sampler_class.get_result_dictionary

    def capturing(self):
        d = orig(self)
        captured.append(dict(d))
        return d

    # (on the class: the sampler object is pickled at every checkpoint)
    sampler_class.get_result_dictionary = capturing
    # an exception out of run() is the property's business only if it comes from
    # writing the result file; anything else is a failed run (machinery)
    orig_save = FlowSampler.save_results
    save_error = []

    def saving(self, *a, **k):
        try:
            return orig_save(self, *a, **k)
        except Exception as ex:
            save_error.append(ex)
            raise

    FlowSampler.save_results = saving
    run_save_failed = None
    try:
        fs.run(plot=False, **run_kw)
    except Exception as ex:
        if not save_error or save_error[-1] is not ex:
            raise
        run_save_failed = f"{type(ex).__name__}: {ex}"
    finally:
        if pool is not None:
            pool.terminate()
            pool.join()
    report["run_s"] = round(time.time() - t0, 2)
    report["iterations"] = int(fs.ns.iteration)

    def full_mem(d):
        m = dict(d)
        m["posterior_samples"] = fs.posterior_samples
        if hasattr(fs, "initial_posterior_samples"):
            m["initial_posterior_samples"] = fs.initial_posterior_samples
        return m

    def one_save(tag, fe, ea, directory, d, already_written):
        """Observe one result file and record the case for TLC."""
        if already_written:
            obs = observe_call(lambda: None, directory)
        else:
            n0 = len(captured)
            fn = str(directory / ("result" + (f".{fe}" if fe else "")))
            obs = observe_call(lambda: fs.save_results(fn, extension=ea), directory)
            d = captured[n0] if len(captured) > n0 else d
        mem = full_mem(d)
        ini = "initial_posterior_samples" in mem
        case = {"call": "save_results", "fe": fe, "ea": ea if ea is not None else "None", "ini": ini,
                "d": kind_tree(d), "tag": tag}
        rec = {"case": case, "status": obs["status"], "error": obs["error"], "fname": obs["fname"],
               "fmt": obs["fmt"], "read_error": obs["read_error"], "forms": obs["forms"], "lost": {},
               "types": {}}
        # P-clauses on the real result file
        what = f"run {spec['name']} ({'importance' if spec['ins'] else 'standard'} sampler) {tag}"
        if obs["status"] != "ok":
            report["violations"].append(("result_not_written", f"{what}: save_results failed: {obs['error']}",
                                         {"kinds": case["d"]}))
        elif obs["read_error"] or not isinstance(obs["back"], dict):
            report["violations"].append(("result_unreadable", f"{what}: cannot be read back: {obs['read_error']}",
                                         {"kinds": case["d"]}))
        else:
            lost = compare_tree(mem, obs["back"], obs["fmt"])
            rec["lost"] = lost
            rec["types"] = observe_back(mem, obs["back"])
            for p, r in list(lost.items())[:5]:
                val = mem
                for part in p.split("/"):
                    val = val.get(part) if isinstance(val, dict) else None
                report["violations"].append(
                    ("value_differs", f"{what} [{obs['fmt']}] {p}: {r}",
                     {"path": p, "kind": kind_of(val) if val is not None else None, "in_memory": describe(val)}))
            # the named quantities of the property, against the sampler's public attributes
            named = {"log_evidence": fs.log_evidence, "log_evidence_error": fs.log_evidence_error,
                     "posterior_samples": fs.posterior_samples, "history": fs.ns.history}
            if not spec["ins"]:
                named.update(nested_samples=fs.nested_samples,
                             insertion_indices=fs.ns.insertion_indices,
                             log_posterior_weights=fs.ns.state.log_posterior_weights)
            for k, val in named.items():
                if k not in obs["back"]:
                    report["violations"].append(("value_differs", f"{what} [{obs['fmt']}]: no {k} in the file", {}))
                    continue
                r = value_same(val, obs["back"][k], obs["fmt"])
                if r:
                    report["violations"].append(
                        ("value_differs", f"{what} [{obs['fmt']}] {k} differs from the sampler's attribute: {r}", {}))
            report["stats"]["values"] += count_values(mem)
            report["stats"]["leaves"] += sum(1 for e in kind_tree(mem) if e["kind"] != "dict")
        report["stats"]["saves"] += 1
        report["cases"].append(rec)

    # the file the run wrote itself
    auto = out / "auto"
    auto.mkdir()
    src = run_dir / f"result.{spec['ext']}"
    if run_save_failed or not src.exists() or not captured:
        report["violations"].append(
            ("result_not_written",
             f"run {spec['name']} ({'importance' if spec['ins'] else 'standard'} sampler, "
             f"result_extension={spec['ext']!r}): no readable {src.name} after run(): "
             f"{run_save_failed or 'file missing'}", {}))
    else:
        os.replace(src, auto / src.name)
        one_save("file written by run()", "", spec["ext"], auto, captured[0], True)
    # every spelling, by argument and by file name
    combos = [("", "json"), ("", "hdf5"), ("", "h5"), ("json", None), ("hdf5", None), ("h5", None)]
    for i, (fe, ea) in enumerate(combos):
        dd = out / f"save_{i}"
        dd.mkdir()
        one_save(f"save_results(result{'.' + fe if fe else ''}, extension={ea!r})", fe, ea, dd,
                 captured[-1] if captured else {}, False)
    # config.json
    cfg = run_dir / "config.json"
    kwargs_tree = kind_tree(passed_kwargs)
    case = {"call": "save_kwargs", "fe": "-", "ea": "-", "ini": False, "d": kwargs_tree, "tag": "config.json"}
    rec = {"case": case, "status": "ok", "error": None, "fname": "config.json", "fmt": "json",
           "read_error": None, "forms": {}, "lost": {}, "types": {}}
    try:
        with open(cfg) as f:
            back = json.load(f)
        if not isinstance(back, dict):
            raise ValueError("not a JSON object")
        mem = dict(passed_kwargs, eps=fs.eps, torch_dtype=fs.torch_dtype,
                   importance_sampler=fs.importance_nested_sampler)
        rec["forms"] = json_forms(cfg.read_text())
        rec["lost"] = compare_tree(mem, back, "json")
        rec["types"] = observe_back(mem, back)
    except Exception as ex:  # noqa: BLE001
        rec["status"], rec["read_error"] = "ok", f"{type(ex).__name__}: {ex}"
        report["violations"].append(("config_unreadable",
                                     f"run {spec['name']}: config.json cannot be read with json.load: {ex}",
                                     {"kwargs": describe(passed_kwargs)}))
    report["cases"].append(rec)
    report["kind_histogram"] = {}
    for e in kind_tree(full_mem(captured[-1])) if captured else []:
        report["kind_histogram"][e["kind"]] = report["kind_histogram"].get(e["kind"], 0) + 1
    with open(out / "report.json", "w") as f:
        json.dump(report, f, default=str)
    return 0


def start_runs(specs, scratch: Path):
    procs = []
    for s in specs:
        out = scratch / f"real_{s['name']}"
        out.mkdir()
        s = dict(s, out=str(out))
        sf = out / "spec.json"
        sf.write_text(json.dumps(s))
        log = open(out / "log.txt", "w")
        p = subprocess.Popen([PY, "-m", "vf.c19", "--worker", str(sf)], cwd=str(VERIF),
                             stdout=log, stderr=subprocess.STDOUT)
        procs.append((s, p, log))
    return procs


def collect_runs(procs, timeout):
    reports = []
    t_end = time.time() + timeout
    for s, p, log in procs:
        try:
            p.wait(timeout=max(1, t_end - time.time()))
        except subprocess.TimeoutExpired:
            p.kill()
            raise MachineryError(f"real run {s['name']} did not finish")
        log.close()
        rp = Path(s["out"]) / "report.json"
        if p.returncode != 0 or not rp.exists():
            tail = (Path(s["out"]) / "log.txt").read_text()[-3000:]
            reports.append({"name": s["name"], "spec": s, "failed": tail})
            continue
        with open(rp) as f:
            reports.append(json.load(f))
    return reports


def validate_real(reports, scratch: Path, v: Verdict):
    """code -> spec: the real kind-trees through TraceCodec.tla."""
    flat, recs = [], []
    for r in reports:
        for rec in r.get("cases", []):
            c = rec["case"]
            flat.append({"call": c["call"], "fe": c["fe"], "ea": c["ea"], "ini": bool(c["ini"]), "d": c["d"]})
            recs.append((r["name"], rec))
    if not flat:
        return None, 0, 0
    tf = scratch / "real_trees.json"
    tf.write_text(json.dumps(flat))
    cfg = scratch / "trace.cfg"
    cfg.write_text(TRACE_CFG)
    res = run_tlc("TraceCodec", str(cfg), metadir=scratch / "mt", env={"TRACE_FILE": str(tf)}, jvm=["-Xss64m"],
                  collect_prefix="TR", timeout=900)
    require_ok(res, "TraceCodec")
    by_tid = {t["tid"]: t for t in res.printed}
    if len(by_tid) != len(flat):
        raise MachineryError(f"TraceCodec answered {len(by_tid)} of {len(flat)} kind-trees")
    inlang = 0
    agreed = 0
    for i, (name, rec) in enumerate(recs, start=1):
        t = by_tid[i]
        tag = f"real run {name} {rec['case']['tag']}"
        if not t["inlang"]:
            kinds = {e["path"]: e["kind"] for e in rec["case"]["d"] if e["path"] in t["bad"]}
            v.mismatch(f"{tag}: kind-tree outside the language of Codec.tla: {kinds}")
            continue
        inlang += 1
        c = t["c"]
        before = len(v.mismatches)
        what = f"{tag} [{rec['fmt']}]"
        if rec["status"] != c["status"]:
            v.mismatch(f"{what}: status {rec['status']} ({rec['error']}), specification says {c['status']}")
            continue
        if rec["fname"] != c["fname"]:
            v.mismatch(f"{what}: file {rec['fname']}, specification says {c['fname']}")
        if rec["fmt"] != c["fmt"]:
            v.mismatch(f"{what}: format {rec['fmt']}, specification says {c['fmt']}")
            continue
        if not rec["read_error"]:
            for s in c["stored"]:
                o = rec["forms"].get(s["path"], "ABSENT")
                if not form_compatible(s["form"], o):
                    v.mismatch(f"{what} {s['path']}: stored as {o}, specification says {s['form']}")
            for b in c["back"]:
                o = rec["types"].get(b["path"])
                if o is None:
                    v.mismatch(f"{what} {b['path']}: absent after read-back, specification says {b['t']}")
                elif o[0] != b["t"] or not sem_compatible(b["s"], o[1]):
                    v.mismatch(f"{what} {b['path']}: read back as {o[0]}/{o[1]}, "
                               f"specification says {b['t']}/{b['s']}")
            if set(rec["lost"]) != set(c["lost"]):
                v.mismatch(f"{what}: paths not read back equal {sorted(rec['lost'])}, "
                           f"specification says {sorted(c['lost'])}")
            if c["call"] == "save_results" and not c["req"]:
                v.mismatch(f"{what}: the real result dictionary holds kinds outside ResultKinds: "
                           f"{sorted({e['k'] for e in c['mem']})}")
        if len(v.mismatches) == before:
            agreed += 1
    return res, inlang, agreed


# ---------------------------------------------------------------------------

def tlc_cases(scratch: Path, tag, depth, leaves, mode):
    cfg = scratch / f"codec_{tag}.cfg"
    cfg.write_text(CFG.format(depth=depth, leaves=leaves, mode=mode))
    res = run_tlc("Codec", str(cfg), metadir=scratch / f"m_{tag}", collect_prefix="CASE", timeout=3000)
    require_ok(res, f"Codec ({tag})")
    return res


def main(tier: str) -> int:
    seed = seed_from_env()
    v = Verdict(PROP, tier, seed, "exploration")
    rng = random.Random(seed)
    bounds = dict(depth=3, leaves=2) if tier == "quick" else dict(depth=3, leaves=3)
    with Scratch("c19-") as scratch:
        procs = start_runs(run_specs(tier, seed), scratch)
        try:
            res_a = tlc_cases(scratch, "run", bounds["depth"], bounds["leaves"], "run")
            res_b = tlc_cases(scratch, "all", 1, 1, "all")
        except BaseException:
            for _, p, _ in procs:
                p.kill()
            raise
        cases = {}
        for c in res_a.printed + res_b.printed:
            cases.setdefault(case_key(c), c)
        cases = [cases[k] for k in sorted(cases)]
        v.note(f"TLC: {res_a.distinct}+{res_b.distinct} states, {len(res_a.printed)}+{len(res_b.printed)} "
               f"cases exported, {len(cases)} distinct ({res_a.wall_s:.0f}+{res_b.wall_s:.0f} s)")
        # vacuity of the specification's invariants, from the exported cases
        n_req = sum(1 for c in cases if c["call"] == "save_results" and c["req"] and c["status"] == "ok")
        n_raise = sum(1 for c in cases if c["status"] == "raised")
        n_ext = sum(1 for c in cases if c["status"] == "ext_error")
        n_cfg = sum(1 for c in cases if c["call"] == "save_kwargs")
        n_loss = sum(1 for c in cases if c["status"] == "ok" and c["lost"])
        if not (n_req and n_raise and n_ext and n_cfg and n_loss):
            raise MachineryError(f"vacuous enumeration: required={n_req} raised={n_raise} ext_error={n_ext} "
                                 f"config={n_cfg} lossy={n_loss}")
        kinds = sorted({e["k"] for c in cases for e in c["mem"]})

        # ---- spec -> code
        t0 = time.time()
        nproc = max(1, min(NCPU - 4, 12))
        size = max(50, -(-len(cases) // (nproc * 4)))
        reps = 1 if tier == "quick" else 2      # instantiations per case
        chunks = [(cases[i:i + size], i, seed, str(scratch / f"rp_{i}"), reps)
                  for i in range(0, len(cases), size)]
        import multiprocessing

        stats = {"executions": 0, "ok": 0, "raised": 0, "ext_error": 0, "values": 0}
        findings = []
        from concurrent.futures import ProcessPoolExecutor

        # (non-daemonic workers: an instantiated "obj" may be a real multiprocessing pool)
        with ProcessPoolExecutor(nproc, mp_context=multiprocessing.get_context("fork")) as pool:
            for out, st in pool.map(replay_chunk, chunks):
                findings.extend(out)
                for k, x in st.items():
                    stats[k] = stats.get(k, 0) + x
        for idx, viol, mism, desc, err, rep in sorted(findings, key=lambda f: (f[0], f[5])):
            case = cases[idx]
            for sig, what in viol:
                v.violation(sig, what + f"; kinds {sorted((e['p'], e['k']) for e in case['mem'])}",
                            {"mode": "case", "case": case, "index": idx, "rep": rep, "dictionary": desc, "error": err})
            for m in mism:
                v.mismatch(m)
        v.note(f"{stats['executions']} executions of the {len(cases)} cases through the real save_results / save_kwargs in "
               f"{time.time() - t0:.0f} s: {stats['ok']} written and read back, {stats['raised']} raised, "
               f"{stats['ext_error']} rejected extensions")
        lp_dir = scratch / "lp"
        lp_dir.mkdir()
        n_lp = check_save_live_points(v, rng, lp_dir, 60 if tier == "quick" else 600)

        # ---- code -> spec
        reports = collect_runs(procs, timeout=600 if tier == "quick" else 1500)
        real_saves = real_values = real_leaves = 0
        hist = {}
        for r in reports:
            if "failed" in r:
                raise MachineryError(f"real run {r['name']} failed:\n{r['failed']}")
            for sig, what, detail in r["violations"]:
                v.violation(sig, what, {"mode": "run", "spec": r["spec"], "detail": detail})
            real_saves += r["stats"]["saves"]
            real_values += r["stats"]["values"]
            real_leaves += r["stats"]["leaves"]
            for k, n in r["kind_histogram"].items():
                hist[k] = hist.get(k, 0) + n
        res_t, inlang, agreed = validate_real(reports, scratch, v)
        n_real_cases = sum(len(r["cases"]) for r in reports)
        n_cfg_real = sum(1 for r in reports for c in r["cases"] if c["case"]["call"] == "save_kwargs")
        v.note(f"{len(reports)} real runs, {real_saves} result files + {n_cfg_real} config files read back "
               f"({real_values} values on {real_leaves} leaves); {inlang}/{n_real_cases} kind-trees in the "
               f"language, {agreed} agree with the specification on every path")
        real_keys = {(r["name"], c["case"]["fe"], c["case"]["ea"], c["case"]["call"], c["case"]["tag"])
                     for r in reports for c in r["cases"]}

    nontrivial = {case_key(c) for c in cases
                  if c["status"] != "ext_error"
                  and any(e["p"] not in ADDED_BY_CALL[c["call"]] for e in c["mem"])}
    samples = [c for c in cases if c["call"] == "save_results" and c["req"] and len(c["mem"]) >= 4][:1] + \
        [c for c in cases if c["status"] == "raised"][:1] + \
        [c for c in cases if c["call"] == "save_kwargs" and any(e["k"] == "obj" and e["q"] for e in c["mem"])][:1]
    for r in reports:
        if r["cases"]:
            samples.append({"real_run": r["name"], "case": r["cases"][0]["case"]})
            break
    v.coverage = {
        "evaluations": stats["executions"] + real_saves + n_cfg_real + n_lp,
        "distinct_nontrivial": len(nontrivial) + len(real_keys),
        "rule": "TLC enumerates every dictionary of Codec.tla within the bounds (chain of nested dictionaries of "
                "depth <= MaxDepth, <= MaxLeaves leaves over 23 kinds) for save_results with the spellings json / "
                "hdf5 / h5 and for save_kwargs, plus every (filename extension, extension argument) pair on "
                "dictionaries with <= 1 leaf; each exported case is instantiated with seeded concrete values and "
                "run once through the real FlowSampler.save_results / save_kwargs and read back.  Distinct = "
                "distinct (call, extensions, set of (path, kind)); non-trivial = the write is attempted (no "
                "extension error) and the dictionary has at least one entry besides those the caller adds.  "
                "Real runs count one case per (run, file written, spelling).",
        "samples": samples,
        "exhaustive": True,
        "bounds": dict(bounds, kinds=len(kinds), ext_mode_all=dict(depth=1, leaves=1),
                       instantiations_per_case=reps),
        "states": res_a.distinct + res_b.distinct + (res_t.distinct if res_t else 0),
        "transitions": res_a.generated + res_b.generated + (res_t.generated if res_t else 0),
        "traces_validated_against_impl": inlang,
        "cases_generated": len(cases),
        "cases_required_exact": n_req,
        "cases_predicted_raise": n_raise,
        "cases_predicted_ext_error": n_ext,
        "cases_predicted_lossy": n_loss,
        "cases_config": n_cfg,
        "replay": stats,
        "save_live_points_roundtrips": n_lp,
        "real_runs": [dict(name=r["name"], sampler="importance" if r["spec"]["ins"] else "standard",
                           variant=r["spec"]["variant"], result_extension=r["spec"]["ext"],
                           iterations=r["iterations"], run_s=r["run_s"]) for r in reports],
        "real_result_files_read_back": real_saves,
        "real_values_compared": real_values,
        "real_kind_histogram": hist,
        "real_kind_trees_in_language": inlang,
        "real_kind_trees_agreeing_with_spec": agreed,
    }
    v.assumptions = [
        "json.load and h5py are the standard readers; the HDF5 reader maps groups to dicts, byte strings to text "
        "and the text '__none__' to None (nessai's encode_for_hdf5 convention), so a genuine string '__none__' "
        "is indistinguishable from None (not generated)",
        "same value: NaN equals NaN; numpy scalar = Python number of equal value (compared exactly, integers via "
        "Fraction); arrays = lists of equal values; a numpy extended-precision scalar read from JSON is compared "
        "after rounding to double (a JSON number is read as a double)",
        "a structured array stored in JSON as positional records (ndarray.tolist: nested_samples, "
        "initial_posterior_samples) counts as recovered if every value is equal position by position; the field "
        "names are not in that entry (they are the keys of posterior_samples in the same file)",
        "kinds outside ResultKinds (numpy bool scalar, list containing None, ragged list of arrays, "
        "non-serialisable object) are only required to be written readably to config.json; what they do in "
        "result files is compared with the specification as M-clauses",
        "strings do not contain NUL; dictionary keys are non-empty strings without '/'",
    ]
    return v.finish()


def replay(path: str) -> int:
    with open(path) as f:
        rp = json.load(f)
    with Scratch("c19r-") as scratch:
        if rp.get("mode") == "case":
            d = scratch / "rp"
            d.mkdir()
            ctx = Ctx()
            try:
                viol, mism, mem_full, obs = replay_case(rp["case"], rp["index"], rp["seed"], d, ctx, rp.get("rep", 0))
            finally:
                ctx.close()
            print(json.dumps({"dictionary": describe(mem_full), "status": obs["status"], "error": obs["error"],
                              "file": obs["fname"], "format": obs["fmt"]}, indent=1, default=str))
            for sig, what in viol:
                print(f"VIOLATION property={PROP} replay={path}  # {sig}: {what}")
            for m in mism:
                print(f"MODEL-MISMATCH property={PROP} {m}")
            return 1 if viol else 0
        if rp.get("mode") == "run":
            procs = start_runs([rp["spec"]], scratch)
            reports = collect_runs(procs, 900)
            bad = 0
            for r in reports:
                if "failed" in r:
                    raise MachineryError(r["failed"])
                for sig, what, _ in r["violations"]:
                    print(f"VIOLATION property={PROP} replay={path}  # {sig}: {what}")
                    bad = 1
            return bad
    raise MachineryError(f"unknown replay file {path}")


if __name__ == "__main__":
    if len(sys.argv) > 2 and sys.argv[1] == "--worker":
        sys.exit(worker(sys.argv[2]))
    sys.exit(main(sys.argv[1] if len(sys.argv) > 1 else "quick"))
