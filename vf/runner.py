"""Runs one process of one history of a real sampler under observation.

    python -m vf.runner <config.json>

config: {kind: standard|ins, model, seed, nlive, kwargs, output, events, proc,
         resume: bool, kill_at_eval: int|null, run_again: int, save: ext|null}
Exit status: 0 finished, 137 killed by injection (os._exit), 130 signal exit,
3 exception (traceback in <events>.err).
"""

from __future__ import annotations

import json
import os
import sys
import traceback

import numpy as np


_REQUESTED = {}


def result_event(obs, fs, tag):
    """The Done event: counts plus the C05 booleans computed independently."""
    from .oracle import standard_result_facts

    ns = fs.ns
    counts = obs.counts(ns)        # (timers are read before the oracle spends time)
    # the expectation the USER asked for (the option is case-insensitive), not what the library stored
    facts = standard_result_facts(fs, obs, expectation=_REQUESTED.get("expectation"))
    obs.em.emit(tag, **facts, **counts)


def main():
    cfg = json.load(open(sys.argv[1]))
    if "shrinkage_expectation" in cfg.get("kwargs", {}):
        _REQUESTED["expectation"] = str(cfg["kwargs"]["shrinkage_expectation"]).lower()
    import torch

    torch.set_num_threads(1)
    import logging

    logging.getLogger("nessai").setLevel(logging.ERROR)
    from nessai.flowsampler import FlowSampler

    from .models import make_model
    from .observe import Emitter, StandardObserver

    em = Emitter(cfg["events"], cfg.get("proc", 0))
    model = make_model(cfg["model"]) if cfg["kind"] != "scripted" else None
    try:
        if cfg["kind"] == "standard":
            obs = StandardObserver(em, model, kill_at_eval=cfg.get("kill_at_eval"))
            obs.kill_after_mid_ckpt = bool(cfg.get("kill_after_mid_ckpt"))
            obs.kill_after_stale_ckpt = bool(cfg.get("kill_after_stale_ckpt"))
            obs.signal_at_eval = cfg.get("signal_at_eval")
            obs.install()
            if cfg.get("fs_faults"):
                from .observe import FsFaults

                FsFaults(em, obs, **cfg["fs_faults"]).install()
            if cfg.get("line_signals"):
                from .observe import LineSignals

                LineSignals(em, obs, **cfg["line_signals"]).install()
            if cfg.get("trace_pool"):
                from .poollife import install_pool_tracer

                install_pool_tracer(em)
            kwargs = dict(cfg.get("kwargs", {}))
            kwargs.setdefault("plot", False)
            kwargs.setdefault("log_on_iteration", False)
            kwargs.setdefault("logging_interval", 100000)
            em.emit("start", resume=bool(cfg.get("resume")), cfg={k: cfg[k] for k in ("model", "seed", "nlive")})
            fs = FlowSampler(model, output=cfg["output"], nlive=cfg["nlive"], seed=cfg["seed"],
                             resume=bool(cfg.get("resume")), signal_handling=bool(cfg.get("signal_handling", False)),
                             **({"exit_code": cfg["exit_code"]} if cfg.get("exit_code") is not None else {}),
                             **kwargs)
            obs.ns = fs.ns
            if cfg.get("resume") and fs.ns.resumed:
                from .observe import flow_digest

                em.emit("resume", digest=obs.deep_digest(fs.ns), live=obs.live_state(fs.ns),
                        flow_w=flow_digest(fs.ns), **obs.tails(fs.ns), **obs.counts_resume(fs.ns))
            save = cfg.get("save")
            fs.result_extension = save or "json"
            fs.run(plot=False, save=bool(save), **cfg.get("run_kwargs", {}))
            result_event(obs, fs, "done")
            for k in range(int(cfg.get("run_again", 0))):
                if cfg.get("lift_cap_before_again"):
                    fs.ns.max_iteration = float("inf")      # continue a run that was stopped by max_iteration
                fs.run(plot=False, save=False)
                result_event(obs, fs, "done_again")
        elif cfg["kind"] == "scripted":
            from . import scripted
            from .scripted import Script, ScriptedProposal, ScriptModel, install_loop_script, compare_with_spec

            model = ScriptModel()
            install_loop_script()
            obs = StandardObserver(em, model)
            obs.install()
            rec = cfg["script"]
            if cfg.get("max_again") is not None:     # behaviours idle in run-again cycles: keep a few
                kept, n = [], 0
                for x in rec["script"]:
                    if x[0] == "again":
                        n += 1
                        if n > cfg["max_again"]:
                            continue
                    kept.append(x)
                rec = dict(rec, script=kept)
            Script.current = Script(rec, cfg["seed"])
            n_again = sum(1 for x in rec["script"] if x[0] == "again")
            em.emit("start", resume=False, cfg={"model": "script", "seed": cfg["seed"], "nlive": cfg["nlive"]})
            fs = FlowSampler(model, output=cfg["output"], nlive=cfg["nlive"], seed=cfg["seed"], resume=False,
                             signal_handling=False, plot=False, log_on_iteration=False, logging_interval=100000,
                             uninformed_proposal=ScriptedProposal,
                             uninformed_proposal_kwargs={"poolsize": cfg["pool_n"]},
                             maximum_uninformed=10 ** 9, uninformed_acceptance_threshold=0.0,
                             max_iteration=cfg.get("cap") or None, stopping=1.0,
                             checkpoint_on_iteration=True, checkpoint_interval=5,
                             flow_config={"n_blocks": 2, "n_neurons": 4})
            obs.ns = fs.ns
            fs.run(plot=False, save=False)
            result_event(obs, fs, "done")
            for k in range(n_again):
                Script.current.take({"again"})
                fs.run(plot=False, save=False)
                result_event(obs, fs, "done_again")
            left = [x for x in Script.current.items[Script.current.pos:]]
            em.emit("replay", diffs=compare_with_spec(rec, fs), script_left=len(left))
        elif cfg["kind"] == "ins":
            from .observe_ins import INSObserver

            obs = INSObserver(em, model, kill_at_eval=cfg.get("kill_at_eval"))
            obs.trace_stores = bool(cfg.get("trace_stores"))
            obs.install()
            if cfg.get("ins_signal"):
                obs.arm_signal(cfg["ins_signal"])
            script_state = None
            if cfg.get("ins_script"):
                script_state = _install_ins_script(obs, cfg["ins_script"], cfg["seed"])
            if cfg.get("fs_faults"):
                from .observe import FsFaults

                FsFaults(em, obs, **cfg["fs_faults"]).install()
            kwargs = dict(cfg.get("kwargs", {}))
            obs.user_stop = {"criteria": kwargs.get("stopping_criterion", "ratio"),
                             "tolerance": kwargs.get("tolerance", 0.0),
                             "check": kwargs.get("check_criteria", "any")}
            kwargs.setdefault("plot", False)
            kwargs.setdefault("log_on_iteration", False)
            kwargs.setdefault("logging_interval", 100000)
            em.emit("start", resume=bool(cfg.get("resume")), cfg={k: cfg[k] for k in ("model", "seed", "nlive")})
            fs = FlowSampler(model, output=cfg["output"], nlive=cfg["nlive"], seed=cfg["seed"],
                             importance_nested_sampler=True,
                             resume=bool(cfg.get("resume")), signal_handling=bool(cfg.get("signal_handling", False)),
                             **({"exit_code": cfg["exit_code"]} if cfg.get("exit_code") is not None else {}),
                             **kwargs)
            obs.ns = fs.ns
            obs.fs = fs
            if cfg.get("resume") and fs.ns.resumed:
                obs.resume_event(fs.ns)
            save = cfg.get("save")
            fs.result_extension = save or "json"
            fs.run(plot=False, save=bool(save), **cfg.get("run_kwargs", {}))
            obs.done_event(fs, "done")
            for k in range(int(cfg.get("run_again", 0))):
                fs.run(plot=False, save=False)
                obs.done_event(fs, "done_again")
            if script_state is not None:
                em.emit("ins_replay", calls=int(script_state["calls"]), overrun=int(script_state["overrun"]),
                        iterations=int(fs.ns.iteration), finalised=bool(fs.ns.finalised),
                        expected_it=int(cfg["ins_script"]["it"]))
        else:
            raise SystemExit(f"unknown kind {cfg['kind']}")
    except SystemExit:
        raise
    except BaseException:
        with open(cfg["events"] + ".err", "a") as f:
            traceback.print_exc(file=f)
        em.emit("exception", what=traceback.format_exc().splitlines()[-1][:300],
                evals_here=int(getattr(locals().get("obs"), "evals_here", -1) if "obs" in locals() else -1),
                tb=[l.strip()[:160] for l in traceback.format_exc().splitlines() if l.strip().startswith("File")][-4:])
        sys.exit(3)
    sys.exit(0)


def _install_ins_script(obs, script, seed):
    """spec -> code replay of the importance sampler's stopping rule (SimImportanceSampler.tla): after the
    real criteria are computed, the values of the user's criteria are replaced by scripted ones - at the
    tolerance (met, with equality), below it (met) or above it (not met) - exactly as the behaviour of the
    specification says; the attributes are set too, so the history reports what the loop compares."""
    import random

    from nessai.samplers.importancesampler import ImportanceNestedSampler as INS

    rng = random.Random(int(seed) * 7919 + 13)
    met = [list(map(bool, m)) for m in script["met"]]
    state = {"calls": 0, "overrun": 0}
    orig = INS.compute_stopping_criterion
    obs.scripted_criteria = True

    def compute_stopping_criterion(ns):
        cond = list(orig(ns))
        k = state["calls"]
        state["calls"] += 1
        if k < len(met):
            row = met[k]
        else:                       # the specification's behaviour had ended: the real loop went on
            state["overrun"] += 1
            row = [True] * len(cond)
        for j, (name, tol) in enumerate(zip(ns.stopping_criterion, ns.tolerance)):
            if row[j]:
                val = float(tol) if rng.random() < 0.5 else float(tol) - 0.5
            else:
                # above the tolerance, or not a number (a criterion that is NaN - e.g. Z_err when exp(ln Z)
                # underflows - does not satisfy `criterion <= tolerance`)
                val = float(tol) + 0.5 if rng.random() < 0.7 else float("nan")
            setattr(ns, name, val)
            cond[j] = val
        return cond

    INS.compute_stopping_criterion = compute_stopping_criterion
    return state


if __name__ == "__main__":
    main()
