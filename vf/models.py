"""Test models used to drive the real samplers.

All are deterministic, cheap and defined at module level so that they can be
re-created by name in a fresh process (resume) and pickled for fork pools.
"""

from __future__ import annotations

import numpy as np

from nessai.model import Model


class _Box(Model):
    """Uniform prior on a box with unit-hypercube maps."""

    lo = -5.0
    hi = 5.0
    ndim = 2

    def __init__(self):
        self.names = [f"x{i}" for i in range(self.ndim)]
        self.bounds = {n: [self.lo, self.hi] for n in self.names}
        self._logv = self.ndim * np.log(self.hi - self.lo)

    def log_prior(self, x):
        with np.errstate(divide="ignore"):
            lp = np.log(self.in_bounds(x).astype(float)) - self._logv
        return lp

    def to_unit_hypercube(self, x):
        x = x.copy()
        for n in self.names:
            x[n] = (x[n] - self.lo) / (self.hi - self.lo)
        return x

    def from_unit_hypercube(self, x):
        x = x.copy()
        for n in self.names:
            x[n] = (self.hi - self.lo) * x[n] + self.lo
        return x

    def _r2(self, x):
        r2 = 0.0
        for n in self.names:
            r2 = r2 + x[n] ** 2
        return r2


class Gaussian2D(_Box):
    ndim = 2

    def log_likelihood(self, x):
        return -0.5 * self._r2(x) - self.ndim * 0.5 * np.log(2 * np.pi)


class OffsetLow2D(Gaussian2D):
    """Unnormalised likelihood with a large negative constant: ln Z ~ -700 (exp(ln Z) underflows float64)."""

    def log_likelihood(self, x):
        return super().log_likelihood(x) - 700.0


class OffsetHigh2D(Gaussian2D):
    """... and a large positive one: ln Z ~ +700 (exp(ln Z) is near the float64 overflow)."""

    def log_likelihood(self, x):
        return super().log_likelihood(x) + 700.0


class UnitPrior2D(_Box):
    """Non-uniform prior in the unit hypercube: truncated Gaussian prior on the box with the linear map,
    so log_prior_unit_hypercube is NOT zero (importance sampler: logW = logU - logQ with logU != 0)."""

    lo = -4.0
    hi = 4.0
    ndim = 2

    def __init__(self):
        import math

        super().__init__()
        self._logc = self.ndim * math.log(math.sqrt(2.0 * math.pi * 4.0) * math.erf(4.0 / math.sqrt(8.0)))

    def log_prior(self, x):
        with np.errstate(divide="ignore"):
            lp = np.log(self.in_bounds(x).astype(float))
        return lp - 0.5 * self._r2(x) / 4.0 - self._logc

    def log_prior_unit_hypercube(self, x):
        u = self.unstructured_view(x)
        with np.errstate(divide="ignore"):
            inside = np.log((~np.any((u < 0) | (u >= 1), axis=-1)).astype(float))
        phys = self.from_unit_hypercube(x)
        return inside - 0.5 * self._r2(phys) / 4.0 - self._logc + self.ndim * np.log(self.hi - self.lo)

    def log_likelihood(self, x):
        return -0.5 * ((x["x0"] - 0.5) ** 2 + (x["x1"] + 0.5) ** 2) / 0.25


class GaussianOffCentre2D(_Box):
    """Gaussian likelihood peaked away from the centre of the prior box (an untrained / identity flow does not
    cover it by accident)."""

    ndim = 2

    def log_likelihood(self, x):
        return -0.5 * ((x["x0"] - 2.5) ** 2 + (x["x1"] - 2.5) ** 2) / 0.49 - np.log(2 * np.pi * 0.49)


class Gaussian3D(_Box):
    ndim = 3

    def log_likelihood(self, x):
        return -0.5 * self._r2(x) - self.ndim * 0.5 * np.log(2 * np.pi)


class Gaussian4D(_Box):
    ndim = 4

    def log_likelihood(self, x):
        return -0.5 * self._r2(x) - self.ndim * 0.5 * np.log(2 * np.pi)


class Rosenbrock2D(_Box):
    ndim = 2

    def log_likelihood(self, x):
        a, b = x["x0"], x["x1"]
        return -((1.0 - a) ** 2 + 100.0 * (b - a * a) ** 2) / 20.0


class Plateau2D(_Box):
    """Discretised likelihood: plateaus, so ties occur at almost every
    iteration (exposes >= for > and searchsorted-side errors)."""

    ndim = 2

    def log_likelihood(self, x):
        # geometric ladder of plateaus (infinitely many towards the peak, so
        # sampling can always make progress): r^2 is rounded down to a power
        # of 2^(1/4)
        r2 = np.maximum(self._r2(x), 1e-300)
        q = np.floor(4.0 * np.log2(r2)) / 4.0
        return -0.5 * np.exp2(q)


class FlatTop2D(_Box):
    """Gaussian with a flat top (r < 1.5): many samples TIE at the maximum likelihood.  Importance sampler
    only - the standard sampler cannot make progress on a top plateau."""

    ndim = 2

    def log_likelihood(self, x):
        return -0.5 * np.maximum(self._r2(x), 2.25) - np.log(2 * np.pi)


class OffsetVeryLow2D(Gaussian2D):
    """ln L ~ -2e4: exp(ln Z) underflows even in long double, Z_err / fractional_error are NaN."""

    def log_likelihood(self, x):
        return super().log_likelihood(x) - 2.0e4


class Rect2D(Model):
    """Different bounds per parameter (narrow u, wide c), names NOT in alphabetical order, and likelihood
    mass at the narrow parameter's edge: a flow proposes candidates beyond the bound, which the bounds check
    must reject.  log_prior delegates the bounds test to Model.in_bounds (the documented pattern)."""

    def __init__(self):
        self.names = ["u", "c"]
        self.bounds = {"u": [-1.0, 1.0], "c": [-8.0, 8.0]}

    def log_prior(self, x):
        with np.errstate(divide="ignore"):
            lp = np.log(self.in_bounds(x).astype(float))
        return lp - np.log(2.0 * 16.0)

    def log_likelihood(self, x):
        return -0.5 * (((x["u"] - 0.8) / 0.5) ** 2 + (x["c"] / 2.0) ** 2)

    def to_unit_hypercube(self, x):
        x = x.copy()
        x["u"] = (x["u"] + 1.0) / 2.0
        x["c"] = (x["c"] + 8.0) / 16.0
        return x

    def from_unit_hypercube(self, x):
        x = x.copy()
        x["u"] = 2.0 * x["u"] - 1.0
        x["c"] = 16.0 * x["c"] - 8.0
        return x


class Rect3D(Model):
    """Three parameters, names not sorted, every parameter with its own bounds (one not symmetric)."""

    def __init__(self):
        self.names = ["m", "a", "q"]
        self.bounds = {"m": [-2.0, 2.0], "a": [0.0, 10.0], "q": [-1.0, 0.5]}
        self._logv = float(np.log(4.0 * 10.0 * 1.5))

    def log_prior(self, x):
        with np.errstate(divide="ignore"):
            lp = np.log(self.in_bounds(x).astype(float))
        return lp - self._logv

    def log_likelihood(self, x):
        return -0.5 * (((x["m"] - 1.5) / 0.6) ** 2 + ((x["a"] - 1.0) / 1.5) ** 2 + ((x["q"] + 0.2) / 0.4) ** 2)

    def to_unit_hypercube(self, x):
        x = x.copy()
        for n in self.names:
            lo, hi = self.bounds[n]
            x[n] = (x[n] - lo) / (hi - lo)
        return x

    def from_unit_hypercube(self, x):
        x = x.copy()
        for n in self.names:
            lo, hi = self.bounds[n]
            x[n] = (hi - lo) * x[n] + lo
        return x


class Disc2D(_Box):
    """Uniform prior on a DISC inside the box: log_prior = -inf in the corners although the point is inside
    the bounds (candidates pass the hypercube / bounds check and are rejected by the prior)."""

    ndim = 2
    R2 = 16.0

    def log_prior(self, x):
        with np.errstate(divide="ignore"):
            lp = np.log((self.in_bounds(x) & (self._r2(x) < self.R2)).astype(float))
        return lp - np.log(np.pi * self.R2)

    def log_prior_unit_hypercube(self, x):
        u = self.unstructured_view(x)
        with np.errstate(divide="ignore"):
            inside = np.log((~np.any((u < 0) | (u >= 1), axis=-1)).astype(float))
        return inside + self.log_prior(self.from_unit_hypercube(x)) + self.ndim * np.log(self.hi - self.lo)

    def log_likelihood(self, x):
        return -0.5 * ((x["x0"] - 2.5) ** 2 + x["x1"] ** 2)


class Hole2D(_Box):
    """The prior vanishes on a disc inside the box."""

    ndim = 2

    def log_prior(self, x):
        lp = super().log_prior(x)
        hole = ((x["x0"] - 1.0) ** 2 + (x["x1"] + 0.5) ** 2) < 1.0
        return np.where(hole, -np.inf, lp)

    def log_likelihood(self, x):
        return -0.5 * self._r2(x)

    # the unit-hypercube maps are not measure preserving for this prior; INS
    # runs do not use this model


class Truncated2D(_Box):
    """Gaussian likelihood that is exactly zero (log-likelihood -inf) outside a disc: the importance
    sampler keeps such samples (weight zero); used for the importance sampler only."""

    ndim = 2

    def log_likelihood(self, x):
        r2 = self._r2(x)
        return np.where(r2 <= 9.0, -0.5 * r2, -np.inf)


class Dyadic2D(_Box):
    """Likelihood built from exactly rounded operations on dyadic rationals of
    the *rounded* inputs: vectorised and pointwise evaluation agree bit for
    bit on every platform (C14)."""

    ndim = 2

    def log_likelihood(self, x):
        a = np.round(x["x0"] * 64.0) / 64.0
        b = np.round(x["x1"] * 64.0) / 64.0
        return -(a * a) * 0.5 - (b * b) * 0.5 + 0.0 * x["x0"]


class NonUniform2D(Model):
    """Truncated-Gaussian-like (non-uniform) prior via log_prior; uniform
    new_point proposal + rejection in RejectionProposal."""

    def __init__(self):
        self.names = ["x0", "x1"]
        self.bounds = {"x0": [-4.0, 4.0], "x1": [-4.0, 4.0]}

    def log_prior(self, x):
        with np.errstate(divide="ignore"):
            lp = np.log(self.in_bounds(x).astype(float))
        return lp - 0.5 * (x["x0"] ** 2 + x["x1"] ** 2) / 4.0

    def log_likelihood(self, x):
        return -0.5 * ((x["x0"] - 0.5) ** 2 + (x["x1"] + 0.5) ** 2) / 0.25


class Angle2D(Model):
    """One periodic angle and one Cartesian parameter (angle reparameterisations add an
    auxiliary radial parameter inside the flow proposal)."""

    def __init__(self):
        self.names = ["phi", "y"]
        self.bounds = {"phi": [0.0, 2.0 * np.pi], "y": [-5.0, 5.0]}

    def log_prior(self, x):
        with np.errstate(divide="ignore"):
            lp = np.log(self.in_bounds(x).astype(float))
        return lp - np.log(2.0 * np.pi) - np.log(10.0)

    def log_likelihood(self, x):
        return -0.5 * (((x["phi"] - np.pi) / 0.7) ** 2 + x["y"] ** 2)

    def to_unit_hypercube(self, x):
        x = x.copy()
        x["phi"] = x["phi"] / (2.0 * np.pi)
        x["y"] = (x["y"] + 5.0) / 10.0
        return x

    def from_unit_hypercube(self, x):
        x = x.copy()
        x["phi"] = 2.0 * np.pi * x["phi"]
        x["y"] = 10.0 * x["y"] - 5.0
        return x


MODELS = {
    "angle2": Angle2D,
    "gauss2": Gaussian2D,
    "gaussoff2": GaussianOffCentre2D,
    "uprior2": UnitPrior2D,
    "offlow2": OffsetLow2D,
    "offvlow2": OffsetVeryLow2D,
    "flat2": FlatTop2D,
    "rect2": Rect2D,
    "rect3": Rect3D,
    "disc2": Disc2D,
    "offhigh2": OffsetHigh2D,
    "gauss3": Gaussian3D,
    "gauss4": Gaussian4D,
    "rosen2": Rosenbrock2D,
    "plateau2": Plateau2D,
    "hole2": Hole2D,
    "dyadic2": Dyadic2D,
    "trunc2": Truncated2D,
    "nonuni2": NonUniform2D,
}


def make_model(name: str) -> Model:
    return MODELS[name]()
