"""C16 — posterior resampling follows the posterior weights.

spec/Resample.tla treats the random source as an input: rational weights
(0 = log-weight -inf), uniforms from a grid in [0, 1), the rejection scan
position by position, the arguments handed to numpy.random.choice for
multinomial resampling and Kish's effective sample size as an exact rational.
TLC checks the theorems (maximum weight always kept, zero weight never, p
proportional to w and normalised, 1 <= ESS <= #{w>0}, scale invariance, exact
size, membership) for all weight vectors up to MaxLen and all grid uniforms.

spec -> code: every edge of the rejection scan, every (weights, request, draw
vector) and every weight vector TLC exports is one call of the real
``draw_posterior_samples`` / ``ImportanceNestedSampler.draw_posterior_samples``
/ ``effective_sample_size`` / ``effective_n_posterior_samples`` with
``numpy.random.rand`` (and friends) answering the specification's uniforms and
``numpy.random.choice`` replaced by a recorder answering the specification's
draw vector; log-weights are instantiated at several offsets and dynamic
ranges.  Long vectors (to 1e5) are generated here and judged by the same rules
(which are cross-checked against every TLC export).

code -> spec: calls made with the REAL seeded numpy generator are recorded and
validated by TLC against spec/TraceResample.tla; their selection frequencies
are tested with exact binomial tails (total false-alarm probability < 1e-9).

Verdict rule: only clauses of the property statement evaluated on a real
execution raise VIOLATION (membership/indices, keep rule away from the
rounding boundary, max always / zero never, exact size, p proportional to w,
ESS bounds and shift invariance, frequencies).  Everything about HOW the code
gets there (which numpy function, order of indices, exact Kish value, strict
comparison exactly at the boundary) is MODEL-MISMATCH.
"""

from __future__ import annotations

import json
import math
import multiprocessing
import random
import sys
import time
import warnings
from fractions import Fraction
from types import SimpleNamespace

import numpy as np

from .common import NCPU, Scratch, Verdict, MachineryError, seed_from_env
from .tlc import run_tlc, require_ok

PROP = "C16"
TOL = 1e-9            # relative tolerance on float64 quantities (DESIGN 3.2)
LN2 = math.log(2.0)
NEG_INF = float("-inf")

CFG = """SPECIFICATION Spec
CONSTANTS
  MaxLen = {max_len}
  WNums = {wnums}
  UNums = {unums}
  UDen = {uden}
  Reqs = {reqs}
  Scales = {scales}
VIEW view
INVARIANT TypeOK
INVARIANT MaxAlwaysZeroNever
INVARIANT KeepMonotone
INVARIANT RejectionSoFar
INVARIANT RejectionWhole
INVARIANT EssBounds
INVARIANT EssScaleInvariant
INVARIANT EssExtremes
INVARIANT PVecOK
INVARIANT SizeOK
INVARIANT Returned
PROPERTY StepOK
{extra}
CHECK_DEADLOCK FALSE
"""

TRACE_CFG = """SPECIFICATION TraceSpec
CONSTANTS
  MaxLen = {max_len}
  WNums = {wnums}
  UNums = {unums}
  UDen = {uden}
  Reqs = {{0}}
  Scales = {{1}}
CHECK_DEADLOCK FALSE
"""


def tla_set(xs):
    return "{" + ",".join(str(int(x)) for x in sorted(xs)) + "}"


# ---------------------------------------------------------------------------
# The specification's rules on integers (cross-checked against every line TLC
# exports: a disagreement is a machinery failure, both sides are ours).

def rule_keep(w, us, uden):
    """positions (1-based) kept by the rejection scan"""
    m = max(w)
    return [i + 1 for i, (wi, u) in enumerate(zip(w, us)) if wi * uden > u * m]


def rule_ess(w):
    s1 = sum(w)
    s2 = sum(x * x for x in w)
    return s1 * s1, s2


def rule_size(w, none, nreq):
    if none:
        n, d = rule_ess(w)
        return n // d
    return nreq


# ---------------------------------------------------------------------------
# Instantiation: abstract weights 2^-e (e = 0 is the alphabet's largest value)
# become log-weights  -gamma * e * ln 2 + offset ; the grid uniforms keep
# their order relative to every possible ratio w_i / w_max.

INSTS = [
    dict(name="base", gamma=1, off=0.0, extreme=False, norm=False),
    dict(name="offset+1e5", gamma=1, off=1e5, extreme=True, norm=False),
    dict(name="offset-1e5", gamma=1, off=-1e5, extreme=False, norm=False),
    dict(name="normalised", gamma=1, off=0.0, extreme=True, norm=True),
    dict(name="range1e-298", gamma=330, off=0.0, extreme=False, norm=False),
    dict(name="range1e-298+1e5", gamma=330, off=1e5, extreme=True, norm=False),
    dict(name="range1e-30-1e5", gamma=33, off=-1e5, extreme=False, norm=False),
    dict(name="scaled", gamma=7, off=math.log(3.0e7), extreme=True, norm=False),
]


class Alphabet:
    """weight numerators {0} + powers of two, uniforms num/uden"""

    def __init__(self, wnums, unums, uden):
        self.wnums = sorted(wnums)
        self.unums = sorted(unums)
        self.uden = uden
        self.top = max(wnums)
        self.exp = {}
        for x in self.wnums:
            if x:
                e = math.log2(self.top / x)
                if e != int(e):
                    raise MachineryError("replayed alphabets must be powers of two")
                self.exp[x] = int(e)
        self.emax = max(self.exp.values())
        # classify the grid: ("zero",), ("at", d)  u = 2^-d,  ("below", d)  2^-(d+1) < u < 2^-d
        # (d = emax: 0 < u < smallest ratio)
        self.ucls = {}
        for g in self.unums:
            f = Fraction(g, uden)
            if not 0 <= f < 1:
                raise MachineryError("grid uniform outside [0, 1)")
            if f == 0:
                self.ucls[g] = ("zero", 0)
                continue
            d = 0
            while d < self.emax and f <= Fraction(1, 2 ** (d + 1)):
                d += 1
            if d == self.emax and f < Fraction(1, 2 ** d):
                self.ucls[g] = ("below", d)
            elif f == Fraction(1, 2 ** d):
                self.ucls[g] = ("at", d)
            else:
                # 2^-(d+1) < f < 2^-d  -> class "below" the ratio 2^-d ... index d-? keep d
                self.ucls[g] = ("between", d)
        self._tables = {}

    def tables(self, k):
        """(log-weight per numerator, uniform per grid numerator) of instantiation k"""
        if k in self._tables:
            return self._tables[k]
        inst = INSTS[k]
        g = inst["gamma"]
        lw = {0: NEG_INF}
        for x, e in self.exp.items():
            lw[x] = float(-g * e) * LN2 + inst["off"] if (g != 1 or inst["off"] != 0.0) \
                else float(np.log(x / self.top))
        ut = {}
        for num, (kind, d) in self.ucls.items():
            if kind == "zero":
                u = 0.0
            elif kind == "at":
                u = math.ldexp(1.0, -g * d)
            elif kind == "between":          # 2^-(d+1) < . < 2^-d
                if d == 0 and inst["extreme"]:
                    u = 1.0 - 2.0 ** -53       # the largest float below one
                else:
                    u = 2.0 ** (-g * (d + 0.5))
                    if g == 1:
                        u = num / self.uden
            else:                             # 0 < . < smallest ratio
                u = 5e-324 if inst["extreme"] else math.ldexp(1.0, -g * d - 1)
                if g == 1 and not inst["extreme"]:
                    u = num / self.uden
            ut[num] = u
        self._tables[k] = (lw, ut)
        return lw, ut

    def project_u(self, u):
        """grid numerator in the same interval as the float u (None at a boundary)"""
        if u == 0.0:
            return self._rep(("zero", 0))
        for d in range(self.emax + 1):
            r = 2.0 ** -d
            if abs(u - r) <= 4 * TOL * r:
                return None
            if u > r:
                return self._rep(("between", d - 1))
        return self._rep(("below", self.emax))

    def _rep(self, cls):
        for num, c in self.ucls.items():
            if c == cls:
                return num
        raise MachineryError(f"grid has no representative of class {cls}")

    def log_weights(self, w, k):
        lw, _ = self.tables(k)
        a = np.array([lw[x] for x in w], dtype=float)
        if INSTS[k]["norm"]:
            a = a - math.log(sum(w) / self.top)
        return a

    def uniforms(self, us, k):
        _, ut = self.tables(k)
        return np.array([ut[x] for x in us], dtype=float)


# ---------------------------------------------------------------------------
# The random source as an input

class Source:
    """Replaces the legacy numpy.random entry points while installed."""

    UNIFORM = ("rand", "random", "random_sample", "ranf", "sample", "uniform")

    def __init__(self):
        self.saved = {}
        self.reset(None, None)

    def reset(self, uniforms, draws, passthrough=False):
        self.u = uniforms
        self.draws = draws
        self.passthrough = passthrough
        self.unscripted = []      # entry points used although the case scripts nothing for them
        self.rand_calls = []      # (name, n requested, values answered)
        self.choice_calls = []    # dict(a, size, p, replace, answer)

    def _uniform(self, name):
        real = self.saved[name]

        def f(*args, **kw):
            if name == "uniform":
                size = kw.get("size", args[2] if len(args) > 2 else None)
                low = kw.get("low", args[0] if args else 0.0)
                high = kw.get("high", args[1] if len(args) > 1 else 1.0)
            elif name == "rand":
                size = args if args else None
                low, high = 0.0, 1.0
            else:
                size = kw.get("size", args[0] if args else None)
                low, high = 0.0, 1.0
            shape = () if size is None else tuple(np.atleast_1d(size).astype(int).tolist())
            n = int(np.prod(shape)) if shape else 1
            if self.passthrough or self.u is None:
                # (no uniforms scripted for this case - e.g. a multinomial draw implemented by inverse-CDF
                #  sampling instead of numpy.random.choice: the real generator answers, the script-dependent
                #  clauses become model mismatches, the input-independent ones are still judged)
                if not self.passthrough:
                    self.unscripted.append(name)
                vals = np.asarray(real(*args, **kw), dtype=float).reshape(-1)
                unit = (vals - low) / (high - low) if name == "uniform" else vals
            else:
                base = np.asarray(self.u, dtype=float)
                unit = np.resize(base, n) if base.size else np.zeros(n)
                vals = low + (high - low) * unit
            self.rand_calls.append((name, n, np.array(unit, dtype=float)))
            out = np.array(vals, dtype=float)
            return out.reshape(shape) if shape else float(out[0])
        return f

    def _choice(self):
        real = self.saved["choice"]

        def f(a, size=None, replace=True, p=None, **kw):
            if self.passthrough or self.draws is None:
                if not self.passthrough:
                    self.unscripted.append("choice")
                ans = real(a, size=size, replace=replace, p=p, **kw)
            else:
                n = 1 if size is None else int(np.prod(size))
                d = list(self.draws) if self.draws is not None and len(self.draws) else [0]
                ans = np.array([d[k % len(d)] for k in range(n)], dtype=np.int64)
                if size is None:
                    ans = ans[0]
                elif not np.isscalar(size):
                    ans = ans.reshape(size)
            self.choice_calls.append(dict(a=a, size=size, replace=replace,
                                          p=None if p is None else np.array(p, dtype=float),
                                          answer=np.array(ans)))
            return ans
        return f

    def __enter__(self):
        for name in self.UNIFORM + ("choice",):
            self.saved[name] = getattr(np.random, name)
        for name in self.UNIFORM:
            setattr(np.random, name, self._uniform(name))
        np.random.choice = self._choice()
        return self

    def __exit__(self, *exc):
        for name, f in self.saved.items():
            setattr(np.random, name, f)
        return False


DTYPE = np.dtype([("x", "f8"), ("y", "f8"), ("logP", "f8"), ("logL", "f8")])
_NS_CACHE = {}


def nested_samples(n):
    """structured array whose field x identifies the position"""
    a = _NS_CACHE.get(n)
    if a is None:
        a = np.zeros(n, dtype=DTYPE)
        a["x"] = np.arange(n) + 0.25
        a["y"] = np.where(np.arange(n) % 3 == 2, np.nan, -np.arange(n) * 1.5)
        a["logP"] = -0.5
        a["logL"] = np.arange(n) * 0.125 - 3.0
        if n <= 4096:
            _NS_CACHE[n] = a
    return a


# ---------------------------------------------------------------------------
# Independent oracles on the floats the code actually received (linear space
# after subtracting the maximum; accurate to ~1e-13, the clauses use 1e-9).

def oracle_ratios(lw):
    m = float(np.max(lw))
    with np.errstate(under="ignore"):
        r = np.exp(lw - m)
    return m, r


def oracle_ess(lw):
    _, r = oracle_ratios(lw)
    if r.size <= 64:
        return math.fsum(r) ** 2 / math.fsum(r * r)
    r = r.astype(np.longdouble)
    return float(r.sum() ** 2 / (r * r).sum())


def allowed_sizes(lw, n):
    """({sizes the statement allows}, exact ESS sits on an integer)"""
    if n is not None:
        return {int(n)}, False
    e = oracle_ess(lw)
    lo, hi = int(math.floor(e * (1 - TOL))), int(math.floor(e * (1 + TOL)))
    return {lo, hi}, lo != hi


class Findings(list):
    def P(self, sig, msg):
        self.append(("P", sig, msg))

    def M(self, msg):
        self.append(("M", "", msg))


def judge_membership(f, ns, samples, indices):
    """samples are elements of the input and the indices identify them"""
    n = ns.size
    idx = np.asarray(indices)
    if idx.ndim != 1 or not np.issubdtype(idx.dtype, np.integer):
        f.P("membership", f"indices are not a 1-d integer array (dtype {idx.dtype}, shape {idx.shape})")
        return None
    if idx.size and (idx.min() < 0 or idx.max() >= n):
        f.P("membership", f"index outside 0..{n - 1}: {idx.tolist()[:20]}")
        return None
    s = np.asarray(samples)
    if s.shape != idx.shape:
        f.P("membership", f"{s.shape} samples returned with {idx.shape} indices")
        return idx
    if s.dtype != ns.dtype or s.tobytes() != ns[idx].tobytes():
        f.P("membership", "returned samples are not nested_samples[indices]")
    return idx


def indices_from_samples(f, ns, samples):
    """INS wrapper returns samples only: recover positions from the id field"""
    s = np.asarray(samples)
    if s.dtype != ns.dtype or s.ndim != 1:
        f.P("membership", f"returned array has dtype {s.dtype} / ndim {s.ndim}")
        return None
    pos = np.rint(s["x"] - 0.25)
    if not np.all(np.isfinite(pos)) or np.any(pos < 0) or np.any(pos >= ns.size):
        f.P("membership", "a returned sample is not an element of the nested samples")
        return None
    idx = pos.astype(np.int64)
    if s.tobytes() != ns[idx].tobytes():
        f.P("membership", "a returned sample is not an element of the nested samples")
        return None
    return idx


def judge_rejection(f, lw, src, idx, pred, exact):
    n = lw.size
    inset = np.zeros(n, dtype=bool)
    inset[idx] = True
    m = lw.max()
    zero = np.isneginf(lw)
    top = lw == m
    if np.any(inset & zero):
        f.P("zero_never", f"zero-weight sample kept at index {np.flatnonzero(inset & zero).tolist()[:5]}")
    if np.any(top & ~inset):
        f.P("max_always", f"maximum-weight sample rejected at index {np.flatnonzero(top & ~inset).tolist()[:5]}")
    if int(inset.sum()) != idx.size:
        f.P("keep_rule", "an index is returned more than once by rejection sampling")
    calls = [c for c in src.rand_calls]
    if len(calls) != 1 or calls[0][1] != n:
        f.M(f"rejection consumed the uniform source as {[(c[0], c[1]) for c in calls]}, model: one vector of {n}")
        return
    u = calls[0][2]
    with np.errstate(divide="ignore", invalid="ignore"):
        d = (lw - m) - np.log(u)
    free = ~zero & ~top
    must_in = free & (d > TOL)
    must_out = free & (d < -TOL)
    bad = (must_in & ~inset) | (must_out & inset)
    if np.any(bad):
        i = int(np.flatnonzero(bad)[0])
        f.P("keep_rule", f"index {i}: w/w_max={math.exp(lw[i] - m):.17g}, u={u[i]:.17g}, "
                         f"{'kept' if inset[i] else 'rejected'}")
    boundary = free & ~must_in & ~must_out
    if pred is not None:
        want = np.zeros(n, dtype=bool)
        want[np.asarray(pred, dtype=int)] = True
        cmp = np.ones(n, dtype=bool) if exact else ~boundary
        if np.any((want != inset) & cmp):
            f.M(f"kept {idx.tolist()[:12]} differs from the specification's {list(pred)[:12]}")
    if idx.size > 1 and np.any(np.diff(idx) <= 0):
        f.M("rejection indices are not strictly increasing")
    return int(boundary.sum())


def judge_multinomial(f, lw, n_req, src, samples, idx, pred_size):
    n = lw.size
    sizes, intb = allowed_sizes(lw, n_req)
    got = int(np.asarray(samples).size)
    if got not in sizes:
        f.P("exact_size", f"{got} samples returned, "
                          + (f"{n_req} requested" if n_req is not None else
                             f"integer part of ESS={oracle_ess(lw):.12g} expected"))
    if pred_size is not None and not intb and got != pred_size:
        f.M(f"{got} draws, specification says {pred_size}")
    calls = src.choice_calls
    if len(calls) != 1 or src.rand_calls:
        f.M(f"multinomial used numpy.random.choice {len(calls)}x and uniforms {len(src.rand_calls)}x; "
            "model: one call of choice")
        return intb
    c = calls[0]
    try:
        size_arg = int(np.prod(c["size"])) if c["size"] is not None else None
    except Exception:
        size_arg = None
    if size_arg not in sizes:
        f.P("exact_size", f"numpy.random.choice asked for size={c['size']}, allowed {sorted(sizes)}")
    a = c["a"]
    if np.ndim(a) == 0:
        if int(a) != n:
            f.P("proportional", f"population handed to the sampler is {a}, there are {n} samples")
    elif not np.array_equal(np.asarray(a), np.arange(n)):
        f.P("proportional", "population handed to the sampler is not 0..N-1")
    if not c["replace"]:
        f.P("proportional", "sampling without replacement")
    p = c["p"]
    if p is None or p.shape != (n,):
        f.P("proportional", f"p handed to the sampler has shape {None if p is None else p.shape}")
    else:
        _, r = oracle_ratios(lw)
        want = r / (math.fsum(r) if r.size <= 64 else float(r.astype(np.longdouble).sum()))
        err = np.abs(p - want)
        bad = ~(err <= TOL * want + 1e-300)
        if np.any(bad):
            i = int(np.flatnonzero(bad)[0])
            f.P("proportional", f"p[{i}]={p[i]:.17g}, w/sum(w)={want[i]:.17g}")
    if idx is not None and not np.array_equal(np.ravel(c["answer"]), idx):
        f.M("returned indices differ from what the sampler answered")
    return intb


def _state_class():
    from nessai.evidence import _BaseNSIntegralState

    class State(_BaseNSIntegralState):
        def __init__(self, lw):
            self._lw = lw

        @property
        def log_evidence(self):
            return 0.0

        @property
        def log_evidence_error(self):
            return 0.0

        @property
        def log_posterior_weights(self):
            return self._lw.copy()

    return State


_STATE = None


def execute(conc, src: Source):
    """Run one concrete case on the real code and judge it.

    Returns (findings, info).  ``src`` must be installed (``with src:``).
    """
    global _STATE
    f = Findings()
    info = {}
    lw = np.array([float(x) for x in conc["log_w"]], dtype=float) if conc.get("log_w") is not None else None
    call = conc["call"]
    if call == "ess":
        from nessai.utils.stats import effective_sample_size
        if _STATE is None:
            _STATE = _state_class()
        n = lw.size
        ref = oracle_ess(lw)
        scale = float(np.max(np.abs(lw[np.isfinite(lw)])))
        vals = {}
        for which in ("function", "state"):
            for c in [0.0] + list(conc.get("shifts", [])):
                x = lw + c
                keep = x.copy()
                try:
                    if which == "function":
                        v = effective_sample_size(x)
                    else:
                        v = _STATE(x).effective_n_posterior_samples
                    v = float(v)
                except Exception as ex:
                    f.P("exception", f"ESS ({which}) raised {type(ex).__name__}: {ex}")
                    continue
                if not np.array_equal(x, keep):
                    f.M(f"ESS ({which}) modified its argument")
                tol = TOL + 16 * np.finfo(float).eps * (abs(c) + scale)
                if not (math.isfinite(v) and 1 - tol <= v <= n * (1 + tol)):
                    f.P("ess_bounds", f"ESS ({which}) = {v!r} for {n} samples (shift {c})")
                base = vals.get((which, 0.0))
                if c != 0.0 and base is not None and not abs(v - base) <= tol * abs(base):
                    f.P("ess_shift", f"ESS ({which}) {base!r} becomes {v!r} when log-weights are shifted by {c}")
                if not abs(v - ref) <= tol * ref:
                    f.M(f"ESS ({which}) = {v!r}, Kish (sum w)^2/sum w^2 = {ref!r} (shift {c})")
                vals[(which, c)] = v
        info["ess"] = vals.get(("function", 0.0))
        return f, info

    n = int(conc["N"])
    ns = nested_samples(n)
    method = conc["method"]
    n_req = conc.get("n")
    if conc.get("nlive") is not None:
        from nessai.posterior import compute_weights
        _, lw = compute_weights(ns["logL"], conc["nlive"], expectation=conc["expectation"])
        lw = np.asarray(lw, dtype=float)
    src.reset(conc.get("u"), conc.get("draws"), passthrough=bool(conc.get("real")))
    keep = lw.copy()
    try:
        if call == "draw":
            from nessai.posterior import draw_posterior_samples
            kw = dict(method=method, return_indices=conc.get("return_indices", True))
            if conc.get("nlive") is not None:
                kw.update(nlive=conc["nlive"], expectation=conc["expectation"])
            else:
                kw.update(log_w=lw)
            if n_req is not None:
                kw["n"] = n_req
            out = draw_posterior_samples(ns, **kw)
            if kw["return_indices"]:
                if not (isinstance(out, tuple) and len(out) == 2):
                    f.P("membership", "return_indices=True did not return (samples, indices)")
                    return f, info
                samples, indices = out
                idx = judge_membership(f, ns, samples, indices)
            else:
                samples = out
                idx = indices_from_samples(f, ns, samples)
        elif call == "ins":
            from nessai.samplers.importancesampler import ImportanceNestedSampler
            st = SimpleNamespace(log_posterior_weights=lw)
            final = bool(conc.get("final"))
            fake = SimpleNamespace(final_samples_unit=(object() if final else None),
                                   final_samples=ns, samples=ns, final_state=st, state=st)
            samples = ImportanceNestedSampler.draw_posterior_samples(
                fake, sampling_method=method, n=n_req, use_final_samples=final)
            idx = indices_from_samples(f, ns, samples)
        else:
            raise MachineryError(f"unknown call {call}")
    except MachineryError:
        raise
    except Exception as ex:
        f.P("exception", f"{call}({method}, n={n_req}) raised {type(ex).__name__}: {ex}")
        return f, info
    if not np.array_equal(lw, keep):
        f.M("the caller's log-weights were modified")
    info["rand"] = src.rand_calls
    info["choice"] = src.choice_calls
    info["idx"] = idx
    if idx is None:
        return f, info
    pred = conc.get("pred") or {}
    rejection = method == "rejection_sampling"
    if rejection:
        # n is ignored by rejection sampling
        info["boundary"] = judge_rejection(f, lw, src, idx, pred.get("kept"), bool(pred.get("exact")))
    else:
        info["intb"] = judge_multinomial(f, lw, n_req, src, samples, idx, pred.get("size"))
    return f, info


# ---------------------------------------------------------------------------
# spec -> code: the cases TLC exported, run in forked workers

G = {}          # set in the parent before the pool is forked


def transformed_ints(al: Alphabet, w, k):
    """the instantiated weights as exact integers (up to a common factor)"""
    g = INSTS[k]["gamma"]
    return [0 if x == 0 else 1 << (g * (al.emax - al.exp[x])) for x in w]


def conc_rejection(al, w, us, k, variant):
    lw = al.log_weights(w, k)
    u = al.uniforms(us, k)
    pred = [i - 1 for i in rule_keep(w, us, al.uden)]
    exact = INSTS[k]["name"] == "base" and max(w) == al.top
    conc = dict(call="draw", method="rejection_sampling", N=len(w), n=None,
                log_w=lw.tolist(), u=u.tolist(), return_indices=True,
                pred=dict(kept=pred, exact=exact),
                abstract=dict(w=list(w), us=list(us), uden=al.uden, inst=INSTS[k]["name"]))
    if variant % 7 == 3:
        conc.update(call="ins", final=bool(variant % 2))
    elif variant % 11 == 5:
        conc["return_indices"] = False
    elif variant % 13 == 6:
        conc["n"] = 3                      # ignored (with a warning) by rejection sampling
    return conc


def conc_multinomial(al, rec, k, variant):
    w = rec["w"]
    none = rec["none"]
    lw = al.log_weights(w, k)
    size = rule_size(transformed_ints(al, w, k), none, rec["nreq"])
    conc = dict(call="draw", N=len(w), n=None if none else rec["nreq"],
                method="multinomial_resampling" if variant % 2 else "importance_sampling",
                log_w=lw.tolist(), draws=[d - 1 for d in rec["draws"]] or [w.index(max(w))],
                return_indices=True, pred=dict(size=size),
                abstract=dict(w=list(w), none=none, nreq=rec["nreq"], inst=INSTS[k]["name"]))
    if variant % 5 == 2 and (none or rec["nreq"] >= 1):
        conc.update(call="ins", final=bool(variant % 3 == 0))
    elif variant % 11 == 5:
        conc["return_indices"] = False
    return conc


def _new_stats():
    return dict(calls=0, rejection=0, multinomial=0, ins=0, ess_cases=0, boundary_positions=0,
                integer_boundary=0, by_inst={}, oracle_disagree=0, p_findings=0, m_findings=0,
                kept_sizes={})


def _merge(a, b):
    for k, v in b.items():
        if isinstance(v, dict):
            d = a.setdefault(k, {})
            for kk, vv in v.items():
                d[kk] = d.get(kk, 0) + vv
        else:
            a[k] = a.get(k, 0) + v


def _record(stats, found, f, conc):
    for level, sig, msg in f:
        if level == "P":
            stats["p_findings"] += 1
        else:
            stats["m_findings"] += 1
        if len(found) < 6:
            found.append((level, sig, msg, conc))


def work(task):
    """one chunk of exported cases"""
    warnings.simplefilter("ignore")
    kind, lo, hi = task
    al = G["alphabet"]
    insts = G["insts"]
    seed = G["seed"]
    stats, found = _new_stats(), []
    src = Source()
    with src:
        for j in range(lo, hi):
            rng = random.Random(seed * 1000003 + j * 7919 + len(kind))
            if kind == "REJ":
                rec = G["rej"][j]
                w, us = rec["w"], list(rec["us"])
                pos = len(us)
                if [i for i in rule_keep(w[:pos] + [max(w)], us + [0], al.uden) if i <= pos] != rec["kept"]:
                    stats["oracle_disagree"] += 1
                us += [rng.choice(al.unums) for _ in range(len(w) - pos)]
                ks = insts if G["all_insts"] else [insts[(j + seed) % len(insts)]]
                for k in ks:
                    conc = conc_rejection(al, w, us, k, j + k)
                    f, info = execute(conc, src)
                    stats["calls"] += 1
                    stats["rejection"] += 1
                    stats["ins"] += conc["call"] == "ins"
                    stats["by_inst"][INSTS[k]["name"]] = stats["by_inst"].get(INSTS[k]["name"], 0) + 1
                    stats["boundary_positions"] += info.get("boundary") or 0
                    if info.get("idx") is not None:
                        s = str(len(info["idx"]))
                        stats["kept_sizes"][s] = stats["kept_sizes"].get(s, 0) + 1
                    _record(stats, found, f, conc)
            elif kind == "MUL":
                rec = G["mul"][j]
                w = rec["w"]
                if rec["size"] != rule_size(w, rec["none"], rec["nreq"]) or rec["pnum"] != w \
                        or rec["pden"] != sum(w) or len(rec["draws"]) != rec["size"]:
                    stats["oracle_disagree"] += 1
                ks = insts if G["all_insts"] else [insts[(j + seed) % len(insts)]]
                for k in ks:
                    conc = conc_multinomial(al, rec, k, j + k)
                    f, info = execute(conc, src)
                    stats["calls"] += 1
                    stats["multinomial"] += 1
                    stats["ins"] += conc["call"] == "ins"
                    stats["by_inst"][INSTS[k]["name"]] = stats["by_inst"].get(INSTS[k]["name"], 0) + 1
                    stats["integer_boundary"] += bool(info.get("intb"))
                    _record(stats, found, f, conc)
            else:
                rec = G["ess"][j]
                w = rec["w"]
                num, den = rule_ess(w)
                if (rec["num"], rec["den"], rec["floor"]) != (num, den, num // den) \
                        or rec["npos"] != sum(1 for x in w if x):
                    stats["oracle_disagree"] += 1
                ks = insts if G["all_insts"] else [insts[(j + seed + d) % len(insts)] for d in (0, 3, 5)]
                for k in dict.fromkeys(ks):
                    lw = al.log_weights(w, k)
                    conc = dict(call="ess", log_w=lw.tolist(), shifts=[1e5, -1e5, 0.5, -700.0],
                                abstract=dict(w=list(w), inst=INSTS[k]["name"]))
                    f, info = execute(conc, src)
                    stats["calls"] += 1
                    stats["ess_cases"] += 1
                    # the rule on exact integers against the float oracle (harness self-check)
                    tn, td = rule_ess(transformed_ints(al, w, k))
                    if abs(float(Fraction(tn, td)) - oracle_ess(lw)) > 1e-8 * float(Fraction(tn, td)):
                        stats["oracle_disagree"] += 1
                    _record(stats, found, f, conc)
    return stats, found


def run_pool(tasks, fn=work):
    ctx = multiprocessing.get_context("fork")
    stats, found = _new_stats(), []
    with ctx.Pool(min(NCPU, max(1, len(tasks)))) as pool:
        for s, fd in pool.imap_unordered(fn, tasks, chunksize=1):
            _merge(stats, s)
            found.extend(fd)
    return stats, found


def chunks(kind, n, size):
    return [(kind, a, min(n, a + size)) for a in range(0, n, size)]


def report(v: Verdict, found):
    for level, sig, msg, conc in found:
        if level == "P":
            v.violation(sig, msg, {"case": conc})
        else:
            v.mismatch(msg + f"  [{json.dumps(conc.get('abstract', {}))}]")


# ---------------------------------------------------------------------------
# Cases generated here (long vectors, weights computed from nlive), judged by
# the same clauses; predictions by the rules above.

def conc_long(al, spec):
    rs = np.random.RandomState(spec["seed"])
    n = spec["N"]
    probs = np.array([3.0 if x == 0 else 1.0 for x in al.wnums])
    w = rs.choice(al.wnums, size=n, p=probs / probs.sum()).tolist()
    if not any(w):
        w[rs.randint(n)] = al.wnums[-1]
    k = spec["inst"]
    lw = al.log_weights(w, k)
    ab = dict(generator="conc_long", **spec)
    if spec["method"] == "rejection_sampling":
        us = rs.choice(al.unums, size=n).tolist()
        pred = [i - 1 for i in rule_keep(w, us, al.uden)]
        return dict(call=spec["call"], method=spec["method"], N=n, n=None, log_w=lw.tolist(),
                    u=al.uniforms(us, k).tolist(), return_indices=True,
                    pred=dict(kept=pred, exact=False), abstract=ab)
    supp = [i for i, x in enumerate(w) if x]
    draws = [supp[i] for i in rs.randint(len(supp), size=97)]
    none = spec["n"] is None
    size = rule_size(transformed_ints(al, w, k), none, spec["n"])
    return dict(call=spec["call"], method=spec["method"], N=n, n=spec["n"], log_w=lw.tolist(),
                draws=draws, return_indices=True, pred=dict(size=size), abstract=ab)


def conc_nlive(spec):
    rs = np.random.RandomState(spec["seed"])
    n = spec["N"]
    u = rs.random_sample(n)
    u[rs.randint(n)] = 0.0
    return dict(call="draw", method=spec["method"], N=n, n=spec["n"], nlive=spec["nlive"],
                expectation=spec["expectation"], u=u.tolist(),
                draws=rs.randint(n, size=31).tolist(), return_indices=True,
                abstract=dict(generator="conc_nlive", **spec))


def work_generated(task):
    warnings.simplefilter("ignore")
    kind, spec = task
    al = G["alphabet"]
    stats, found = _new_stats(), []
    conc = conc_long(al, spec) if kind == "LONG" else conc_nlive(spec)
    src = Source()
    with src:
        f, info = execute(conc, src)
    stats["calls"] += 1
    stats["rejection" if conc["method"] == "rejection_sampling" else "multinomial"] += 1
    stats["ins"] += conc["call"] == "ins"
    stats["boundary_positions"] += info.get("boundary") or 0
    stats["integer_boundary"] += bool(info.get("intb"))
    if kind == "LONG":
        with src:
            f2, _ = execute(dict(call="ess", log_w=conc["log_w"], shifts=[1e5, -1e5, 0.5]), src)
        stats["calls"] += 1
        stats["ess_cases"] += 1
        f.extend(f2)
    if len(conc.get("log_w") or []) > 2000 and f:
        # keep replay files small: the generator arguments reproduce the case
        conc = dict(call="generated", kind=kind, spec=spec, abstract=conc["abstract"])
    _record(stats, found, f, conc)
    return stats, found


# ---------------------------------------------------------------------------
# code -> spec: the REAL seeded generator.  Every call is judged directly,
# selection counts are accumulated for exact binomial tests and the first
# calls are recorded as traces for TLC.

def real_log_weights(al, spec):
    if spec.get("w") is not None:
        return al.log_weights(spec["w"], 0)
    rs = np.random.RandomState(spec["wseed"])
    lw = rs.normal(0.0, spec["sigma"], size=spec["N"]) + spec.get("offset", 0.0)
    lw[rs.random_sample(spec["N"]) < 0.15] = NEG_INF
    lw[rs.randint(spec["N"])] = spec.get("offset", 0.0) + 1.0
    return lw


def work_real(spec):
    warnings.simplefilter("ignore")
    al = G["alphabet"]
    stats, found = _new_stats(), []
    lw = real_log_weights(al, spec)
    n = lw.size
    rejection = spec["method"] == "rejection_sampling"
    np.random.seed(spec["seed"] % (2 ** 32))
    counts = np.zeros(n, dtype=np.int64)
    pairs = spec.get("pairs", [])
    pair_counts = [0] * len(pairs)
    draws_total = 0
    traces = []
    skipped = 0
    src = Source()
    base = dict(call=spec.get("call", "draw"), method=spec["method"], N=n, n=spec.get("n"),
                log_w=lw.tolist(), return_indices=True, real=True,
                abstract=dict(real_generator_seed=spec["seed"], w=spec.get("w")))
    with src:
        for rep in range(spec["M"]):
            f, info = execute(base, src)
            stats["calls"] += 1
            stats["rejection" if rejection else "multinomial"] += 1
            idx = info.get("idx")
            if f:
                # make the failing call reproducible without the generator state
                conc = dict(base, real=False, abstract=dict(base["abstract"], repetition=rep))
                if info.get("rand"):
                    conc["u"] = info["rand"][0][2].tolist()
                if info.get("choice"):
                    conc["draws"] = np.ravel(info["choice"][0]["answer"]).tolist()
                _record(stats, found, f, conc)
            if idx is None:
                continue
            if rejection:
                inset = np.zeros(n, dtype=bool)
                inset[idx] = True
                counts += inset
                for q, (a, b) in enumerate(pairs):
                    pair_counts[q] += bool(inset[a] and inset[b])
            else:
                counts += np.bincount(idx, minlength=n)
                draws_total += idx.size
            if spec.get("w") is not None and len(traces) + skipped < spec.get("record", 0):
                sigs = {s for lv, s, _ in f if lv == "P"}
                ev = dict(m="rejection" if rejection else "multinomial", w=list(spec["w"]),
                          none=spec.get("n") is None, nreq=spec.get("n") or 0,
                          us=[], size=0, sizeok="exact_size" not in sigs, intb=bool(info.get("intb")),
                          pok="proportional" not in sigs, ans=[],
                          idx=[int(i) + 1 for i in idx],
                          smp=[101 + int(i) for i in idx] if "membership" not in sigs else [])
                ok = True
                if rejection:
                    if len(info["rand"]) == 1 and info["rand"][0][1] == n:
                        us = [al.project_u(float(x)) for x in info["rand"][0][2]]
                        ok = None not in us
                        ev["us"] = us
                    else:
                        ok = False
                else:
                    if len(info["choice"]) == 1:
                        c = info["choice"][0]
                        ev["size"] = int(np.prod(c["size"])) if c["size"] is not None else 1
                        ev["ans"] = [int(i) + 1 for i in np.ravel(c["answer"])]
                    else:
                        ok = False
                if ok:
                    traces.append(ev)
                else:
                    skipped += 1
    return dict(stats=stats, found=found, spec=spec, lw=lw.tolist(), counts=counts.tolist(),
                pair_counts=pair_counts, draws_total=draws_total, traces=traces, skipped=skipped)


def frequency_tests(res):
    """list of (description, k, trials, probability) for one real-generator run"""
    spec = res["spec"]
    lw = np.array(res["lw"], dtype=float)
    _, r = oracle_ratios(lw)
    tests = []
    if spec["method"] == "rejection_sampling":
        for i, k in enumerate(res["counts"]):
            tests.append((f"inclusion of index {i}", k, spec["M"], float(r[i])))
        for (a, b), k in zip(spec.get("pairs", []), res["pair_counts"]):
            tests.append((f"joint inclusion of indices {a},{b}", k, spec["M"], float(r[a] * r[b])))
    else:
        p = r / math.fsum(r)
        for i, k in enumerate(res["counts"]):
            tests.append((f"selections of index {i}", k, res["draws_total"], float(p[i])))
    return tests


def binomial_tail(k, trials, p):
    """min(P[X <= k], P[X >= k]) for X ~ Binomial(trials, p), exact"""
    from scipy.stats import binom
    if p <= 0.0:
        return 1.0 if k == 0 else 0.0
    if p >= 1.0:
        return 1.0 if k == trials else 0.0
    return float(min(binom.cdf(k, trials, p), binom.sf(k - 1, trials, p)))


def validate_traces(traces, al, max_len, scratch, v: Verdict):
    tf = scratch / "traces.json"
    with open(tf, "w") as fh:
        json.dump({"tr": traces}, fh)
    cfg = scratch / "trace.cfg"
    cfg.write_text(TRACE_CFG.format(max_len=max_len, wnums=tla_set(al.wnums),
                                    unums=tla_set(al.unums), uden=al.uden))
    res = run_tlc("TraceResample", str(cfg), metadir=scratch / "mt", env={"TRACE_FILE": str(tf)},
                  collect_prefix="TR", timeout=1800)
    if not res.ok:
        raise MachineryError(f"trace validation failed to run: {res.error}\n"
                             + "\n".join(res.stdout.splitlines()[-30:]))
    done, bad = set(), set()
    for r in res.printed:
        if r["k"] == "done":
            done.add(r["tid"])
        elif r["k"] == "P":
            bad.add(r["tid"])
            v.violation(r["c"], f"recorded call with the real generator breaks clause {r['c']} (TLC trace validation)",
                        {"trace": traces[r["tid"] - 1]})
        else:
            bad.add(r["tid"])
            v.mismatch(f"trace {r['tid']}: {r['c']}  [{json.dumps(traces[r['tid'] - 1])[:300]}]")
    if len(done) != len(traces):
        raise MachineryError(f"only {len(done)}/{len(traces)} traces walked to the end")
    return len(done - bad), res


# ---------------------------------------------------------------------------

def decode_exports(out: str):
    """one pass over TLC's output: "REJ {json}" / "MUL {json}" / "ESS {json}" lines"""
    got = {"REJ": [], "MUL": [], "ESS": []}
    for line in out.splitlines():
        if len(line) > 6 and line[0] == '"' and line[1:4] in got and line[4] == " ":
            try:
                got[line[1:4]].append(json.loads(json.loads(line)[4:]))
            except json.JSONDecodeError:
                raise MachineryError(f"cannot decode TLC output line: {line[:200]}")
    return got["REJ"], got["MUL"], got["ESS"]


def strict_json(x):
    """evidence must be strict JSON: non-finite floats as strings"""
    if isinstance(x, float) and not math.isfinite(x):
        return repr(x)
    if isinstance(x, dict):
        return {k: strict_json(v) for k, v in x.items()}
    if isinstance(x, (list, tuple)):
        return [strict_json(v) for v in x]
    return x


def import_nessai():
    import nessai.posterior                      # noqa: F401
    import nessai.utils.stats                    # noqa: F401
    import nessai.evidence                       # noqa: F401
    import nessai.samplers.importancesampler     # noqa: F401
    import scipy.stats                           # noqa: F401


def real_specs(al, tier, seed):
    quick = tier == "quick"
    m = 2000 if quick else 40000
    rec = 40 if quick else 400
    vectors = [[1, 2, 4, 8, 0], [8, 8, 4, 1], [2, 0, 2, 1, 4, 8, 1, 2], [4, 2, 1], [8], [1, 1, 1, 1, 1]]
    if not quick:
        vectors += [[8, 1], [0, 4, 4, 0, 2], [1, 2, 4, 8, 8, 4, 2, 1]]
    randoms = [dict(N=12, sigma=2.0, wseed=seed + 1), dict(N=20, sigma=1.0, offset=1e5, wseed=seed + 2),
               dict(N=30, sigma=3.0, offset=-1e5, wseed=seed + 3)]
    specs = []
    k = 0
    for vec in [dict(w=x) for x in vectors] + randoms:
        for method, n, call in (("rejection_sampling", None, "draw"),
                                ("multinomial_resampling", None, "draw"),
                                ("importance_sampling", 7, "draw"),
                                ("rejection_sampling", None, "ins")):
            if call == "ins" and k % 3:
                k += 1
                continue
            k += 1
            s = dict(vec, method=method, n=n, call=call, M=m, seed=seed * 7919 + 104729 * k + 17,
                     record=rec)
            if method == "rejection_sampling":
                lw = real_log_weights(al, s)
                free = [i for i in range(lw.size) if np.isfinite(lw[i]) and lw[i] < lw.max()]
                s["pairs"] = [(free[i], free[i + 1]) for i in range(0, min(len(free) - 1, 8), 2)]
            specs.append(s)
    return specs


def generated_specs(al, tier, seed):
    quick = tier == "quick"
    tasks = []
    sizes = [1000, 20000] if quick else [1000, 10000, 100000]
    insts = [0, 1 + seed % 3, 4 + seed % 4] if quick else list(range(len(INSTS)))
    j = 0
    for n in sizes:
        for k in insts:
            for method, req in (("rejection_sampling", None), ("multinomial_resampling", None),
                                ("importance_sampling", 10), ("multinomial_resampling", 2 * n)):
                for call in ("draw", "ins"):
                    j += 1
                    if call == "ins" and (quick or n == 100000) and j % 3:
                        continue
                    tasks.append(("LONG", dict(N=n, inst=k, method=method, n=req, call=call,
                                               seed=(seed * 31 + j * 1009) % (2 ** 31))))
    if quick:
        tasks.append(("LONG", dict(N=100000, inst=5, method="rejection_sampling", n=None, call="draw",
                                   seed=(seed * 31 + 5) % (2 ** 31))))
        tasks.append(("LONG", dict(N=100000, inst=2, method="multinomial_resampling", n=None, call="draw",
                                   seed=(seed * 31 + 6) % (2 ** 31))))
    for rep in range(1 if quick else 6):
        for nlive in (10, 50):
            for n in (nlive + 3, 4 * nlive + 1):
                for expectation in ("logt", "t"):
                    for method, req in (("rejection_sampling", None), ("multinomial_resampling", None),
                                        ("importance_sampling", 5)):
                        j += 1
                        tasks.append(("NLIVE", dict(N=n, nlive=nlive, expectation=expectation, method=method,
                                                    n=req, seed=(seed * 31 + j * 1009 + rep) % (2 ** 31))))
    return tasks


def probe_ins_zero(v: Verdict):
    """n = 0 through the INS method (a degenerate request, outside the domain n >= 1)"""
    src = Source()
    with src:
        conc = dict(call="ins", method="multinomial_resampling", N=3, n=0,
                    log_w=[0.0, -1.0, NEG_INF], draws=[0], final=False)
        f, _ = execute(conc, src)
    ex = [m for lv, s, m in f if s == "exception"]
    if ex:
        v.note("note (not part of the verdict): ImportanceNestedSampler.draw_posterior_samples(n=0) -> " + ex[0])
    return bool(ex)


def main(tier: str) -> int:
    import threading

    seed = seed_from_env()
    v = Verdict(PROP, tier, seed, "model_checking")
    warnings.simplefilter("ignore")
    quick = tier == "quick"
    al = Alphabet([0, 1, 2, 4, 8], [0, 1, 2, 3, 4, 6, 8, 12], 16)
    bounds = dict(max_len=5, wnums=al.wnums, unums=al.unums, uden=al.uden,
                  reqs=[0, 1, 2, 7] if quick else [0, 1, 2, 3, 7], scales=[1, 2, 3, 5])
    runs = {}

    def fmt(b, extra):
        return CFG.format(max_len=b["max_len"], wnums=tla_set(b["wnums"]), unums=tla_set(b["unums"]),
                          uden=b["uden"], reqs=tla_set(b["reqs"]), scales=tla_set(b["scales"]), extra=extra)

    with Scratch("c16-") as scratch:
        def tlc_runs():
            try:
                (scratch / "main.cfg").write_text(fmt(bounds, "ACTION_CONSTRAINT Export"))
                runs["main"] = run_tlc("Resample", str(scratch / "main.cfg"), metadir=scratch / "m_main",
                                       timeout=3000, heap="6g")
                live = dict(bounds, max_len=3)
                (scratch / "live.cfg").write_text(fmt(live, "PROPERTY Terminates"))
                runs["live"] = run_tlc("Resample", str(scratch / "live.cfg"), metadir=scratch / "m_live",
                                       timeout=3000)
                if not quick:
                    big = dict(bounds, max_len=6, wnums=[0, 1, 3, 5, 8], unums=list(range(16)), uden=16)
                    (scratch / "big.cfg").write_text(fmt(big, ""))
                    runs["big"] = run_tlc("Resample", str(scratch / "big.cfg"), metadir=scratch / "m_big",
                                          timeout=3000, heap="8g")
                    runs["big_bounds"] = big
            except BaseException as ex:           # re-raised in the main thread
                runs["error"] = ex

        th = threading.Thread(target=tlc_runs)
        th.start()
        import_nessai()
        th.join()
        if "error" in runs:
            raise runs["error"]
        res = runs["main"]
        require_ok(res, "Resample")
        require_ok(runs["live"], "Resample (liveness)")
        states, trans = res.distinct + runs["live"].distinct, res.generated + runs["live"].generated
        v.note(f"TLC Resample: {res.distinct} states, {res.generated} transitions, {res.wall_s:.1f}s; "
               f"liveness (MaxLen 3): {runs['live'].distinct} states")
        if not quick:
            require_ok(runs["big"], "Resample (larger constants)")
            states += runs["big"].distinct
            trans += runs["big"].generated
            v.note(f"TLC Resample MaxLen 6, weights {{0,1,3,5,8}}/8, 16 uniforms: {runs['big'].distinct} states, "
                   f"{runs['big'].generated} transitions, {runs['big'].wall_s:.1f}s")
        rej, mul, ess = decode_exports(res.stdout)
        res.stdout = ""
        n_vec = sum(len(al.wnums) ** k - 1 for k in range(1, bounds["max_len"] + 1))
        if len(ess) != n_vec or len({tuple(r["w"]) for r in ess}) != n_vec:
            raise MachineryError(f"{len(ess)} weight vectors exported, {n_vec} exist")
        if not rej or not mul:
            raise MachineryError("no rejection / multinomial cases exported")
        if {tuple(r["w"]) for r in rej} != {tuple(r["w"]) for r in ess} \
                or {len(r["us"]) for r in rej} != set(range(1, bounds["max_len"] + 1)) \
                or {r["us"][-1] for r in rej} != set(al.unums):
            raise MachineryError("exported rejection edges do not cover all vectors / positions / uniforms")
        v.note(f"exported: {len(rej)} rejection edges, {len(mul)} multinomial cases, {len(ess)} weight vectors")

        ins_zero = probe_ins_zero(v)
        G.update(alphabet=al, rej=rej, mul=mul, ess=ess, seed=seed, all_insts=not quick,
                 insts=list(range(len(INSTS))))
        t0 = time.time()
        tasks = chunks("REJ", len(rej), 1500) + chunks("MUL", len(mul), 1500) + chunks("ESS", len(ess), 100)
        random.Random(seed).shuffle(tasks)
        stats, found = run_pool(tasks)
        v.note(f"replayed {stats['calls']} calls of the real code from TLC's exports in {time.time() - t0:.1f}s")
        if stats["oracle_disagree"]:
            raise MachineryError(f"the harness's rules disagree with {stats['oracle_disagree']} TLC exports")
        report(v, found)

        t0 = time.time()
        gtasks = generated_specs(al, tier, seed)
        gstats, gfound = run_pool(gtasks, work_generated)
        report(v, gfound)
        v.note(f"{gstats['calls']} generated cases (lengths to 1e5, weights from nlive) in {time.time() - t0:.1f}s")

        # the real generator
        t0 = time.time()
        specs = real_specs(al, tier, seed)
        ctx = multiprocessing.get_context("fork")
        with ctx.Pool(min(NCPU, len(specs))) as pool:
            real = pool.map(work_real, specs, chunksize=1)
        rstats = _new_stats()
        traces, skipped, tests = [], 0, []
        for r in real:
            _merge(rstats, r["stats"])
            report(v, r["found"])
            traces.extend(r["traces"])
            skipped += r["skipped"]
            tests.extend((r["spec"], *t) for t in frequency_tests(r))
        alpha = 1e-9 / max(1, len(tests))
        worst = 1.0
        informative = 0
        for spec, what, k, trials, p in tests:
            tail = binomial_tail(k, trials, p)
            informative += 0.0 < p < 1.0
            worst = min(worst, tail) if 0.0 < p < 1.0 else worst
            if 2 * tail < alpha:
                v.violation("frequencies",
                            f"{what}: {k} of {trials} with probability {p:.6g} "
                            f"(two-sided exact binomial tail {2 * tail:.3g} < {alpha:.3g}), "
                            f"method {spec['method']}",
                            {"case": dict(call="freq", spec=spec, what=what, alpha=alpha)})
        v.note(f"real generator: {rstats['calls']} calls, {len(tests)} exact binomial tests "
               f"({informative} with 0<p<1), smallest tail {worst:.3g}, per-test level {alpha:.3g}; "
               f"{time.time() - t0:.1f}s")
        n_ok, tres = validate_traces(traces, al, 8, scratch, v) if traces else (0, None)
        if tres is not None:
            states += tres.distinct
            trans += tres.generated
            v.note(f"TLC validated {n_ok}/{len(traces)} recorded calls ({tres.distinct} states); "
                   f"{skipped} not projectable")

    total = _new_stats()
    for s in (stats, gstats, rstats):
        _merge(total, s)
    # vacuity
    # (only meaningful while the code follows the model: a refactored random source is a mismatch, not a failure)
    for key in ("boundary_positions", "integer_boundary", "ins", "rejection", "multinomial", "ess_cases"):
        if not total[key] and not v.violations and not v.mismatches:
            raise MachineryError(f"vacuous run: no case of kind {key}")
    if set(stats["by_inst"]) != {i["name"] for i in INSTS}:
        raise MachineryError("an instantiation was never used")
    sample_rej = conc_rejection(al, rej[len(rej) // 2]["w"],
                                (rej[len(rej) // 2]["us"] + [0] * 8)[:len(rej[len(rej) // 2]["w"])], 4, 0)
    v.coverage = {
        "states": states, "transitions": trans,
        "traces_validated_against_impl": n_ok,
        "exhaustive": True,
        "bounds": bounds if quick else dict(bounds, larger_run=runs["big_bounds"]),
        "weight_vectors": len(ess), "rejection_edges_exported": len(rej),
        "multinomial_cases_exported": len(mul),
        "calls_replayed_from_exports": stats["calls"],
        "calls_generated_long_or_nlive": gstats["calls"],
        "calls_with_real_generator": rstats["calls"],
        "calls_by_instantiation": stats["by_inst"],
        "calls_through_ins_method": total["ins"],
        "ess_cases": total["ess_cases"],
        "rejection_positions_on_rounding_boundary": total["boundary_positions"],
        "multinomial_cases_with_integer_ess": total["integer_boundary"],
        "kept_set_sizes": stats["kept_sizes"],
        "binomial_tests": len(tests), "binomial_tests_informative": informative,
        "binomial_level_per_test": alpha, "binomial_smallest_tail": worst,
        "traces_recorded": len(traces), "traces_not_projectable": skipped,
        "ins_n0_raises": ins_zero,
        "samples": [
            {"kind": "rejection edge exported by TLC", "edge": rej[len(rej) // 2]},
            {"kind": "the same edge as a concrete call (instantiation range1e-298)", "case": strict_json(sample_rej)},
            {"kind": "multinomial case exported by TLC", "case": mul[len(mul) // 3]},
            {"kind": "recorded call with the real generator (trace for TLC)",
             "trace": traces[0] if traces else None},
        ],
        "rule": "TLC: all weight vectors of length <= MaxLen over the alphabet x all grid uniforms per position "
                "(complete graph under a view that hides the consumed uniforms), all requests, a family of draw "
                "vectors.  Every exported rejection edge (weights, uniforms so far, this uniform; the remaining "
                "uniforms drawn from the grid), every multinomial case and every weight vector is one or more "
                "calls of the real functions (one float instantiation per case in quick, all in thorough); "
                "plus generated long vectors, weights from compute_weights(nlive) and calls with the real "
                "seeded generator (judged call by call, counted for exact binomial tests, recorded for TLC).",
    }
    v.assumptions = [
        "numpy.random.rand yields i.i.d. U[0,1) and numpy.random.choice samples p correctly: with them the keep "
        "rule IS independent inclusion with probability w/w_max and the recorded p IS the selection distribution "
        "(checked against the real seeded generator by exact binomial tests, total false-alarm probability < 1e-9)",
        "float tolerance 1e-9 relative (keep rule undecided within 1e-9 of the boundary, integer part of the ESS "
        "accepted on either side when the exact ESS is within 1e-9 of an integer, shift invariance within "
        "1e-9 + 16 eps |shift|)",
        "weight vectors with no finite log-weight, NaN weights and empty inputs are outside the domain; a request "
        "for n = 0 draws through ImportanceNestedSampler.draw_posterior_samples is outside the domain (n >= 1)",
        "the statistical test uses the legacy global numpy generator seeded with numpy.random.seed",
    ]
    return v.finish()


def replay(path: str) -> int:
    warnings.simplefilter("ignore")
    with open(path) as fh:
        data = json.load(fh)
    al = Alphabet([0, 1, 2, 4, 8], [0, 1, 2, 3, 4, 6, 8, 12], 16)
    G.update(alphabet=al)
    import_nessai()
    bad = 0
    if "trace" in data:
        v = Verdict(PROP, "quick", seed_from_env(), "model_checking")
        with Scratch("c16r-") as scratch:
            validate_traces([data["trace"]], al, 8, scratch, v)
        return 1 if v.violations else 0
    conc = data["case"]
    if conc["call"] == "freq":
        r = work_real(conc["spec"])
        for lv, sig, msg, _ in r["found"]:
            print(f"{lv} {sig}: {msg}")
            bad += lv == "P"
        for what, k, trials, p in frequency_tests(r):
            tail = binomial_tail(k, trials, p)
            if 2 * tail < conc["alpha"]:
                print(f"P frequencies: {what}: {k} of {trials} with probability {p:.6g}, tail {2 * tail:.3g}")
                bad += 1
        if bad:
            print(f"VIOLATION property={PROP} replay={path}")
        return 1 if bad else 0
    long_case = False
    if conc["call"] == "generated":
        long_case = conc["kind"] == "LONG"
        conc = conc_long(al, conc["spec"]) if long_case else conc_nlive(conc["spec"])
    src = Source()
    with src:
        f, _ = execute(conc, src)
        if long_case:
            f.extend(execute(dict(call="ess", log_w=conc["log_w"], shifts=[1e5, -1e5, 0.5]), src)[0])
    for lv, sig, msg in f:
        print(f"{lv} {sig}: {msg}")
        bad += lv == "P"
    if bad:
        print(f"VIOLATION property={PROP} replay={path}")
    return 1 if bad else 0


if __name__ == "__main__":
    sys.exit(main(sys.argv[1] if len(sys.argv) > 1 else "quick"))
