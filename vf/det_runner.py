"""One process of the determinism check (C14):

    python -m vf.det_runner <config.json>

Runs the sampler `repeat` times in this process with the given seed and
parallelisation settings and writes, per run, one event per iteration boundary
with 31-bit digests of the observable state plus a final event with digests of
the results."""

from __future__ import annotations

import json
import os
import sys

import numpy as np


def d31(*parts):
    from .common import digest31

    return digest31(*parts)


def main():
    cfg = json.load(open(sys.argv[1]))
    import torch

    torch.set_num_threads(1)
    import logging

    logging.getLogger("nessai").setLevel(logging.ERROR)
    from nessai.flowsampler import FlowSampler
    from nessai.samplers.importancesampler import ImportanceNestedSampler as INS
    from nessai.samplers.nestedsampler import NestedSampler

    from .models import make_model

    out = open(cfg["events"], "a", buffering=1)
    state = {"run": 0}

    def emit(**k):
        k["run"] = state["run"]
        out.write(json.dumps(k) + "\n")

    def rng():
        st = np.random.get_state()
        return d31(st[1].tobytes(), int(st[2])), d31(torch.get_rng_state().numpy().tobytes())

    orig_consume = NestedSampler.consume_sample

    def consume_sample(ns):
        r = orig_consume(ns)
        a, b = rng()
        s = ns.state
        emit(ev="iter", it=int(ns.iteration),
             dead=d31(np.array(ns.nested_samples[-1:]).tobytes(), len(ns.nested_samples)),
             live=d31(ns.live_points.tobytes()),
             integ=d31(repr((s.logZ, s.logw, s.logLs[-1], len(s.logLs)))),
             evals=int(ns.model.likelihood_evaluations), np=a, torch=b)
        return r

    NestedSampler.consume_sample = consume_sample

    orig_hist = INS.update_history

    def update_history(ns):
        r = orig_hist(ns)
        a, b = rng()
        emit(ev="iter", it=int(ns.iteration),
             dead=d31(ns.training_samples.samples.tobytes()),
             live=d31(b"" if ns.iid_samples is None else ns.iid_samples.samples.tobytes()),
             integ=d31(repr((float(ns.state.logZ), float(ns.log_likelihood_threshold)))),
             evals=int(ns.model.likelihood_evaluations), np=a, torch=b)
        return r

    INS.update_history = update_history

    for rep in range(int(cfg.get("repeat", 1))):
        state["run"] = rep
        model = make_model(cfg["model"])
        kwargs = dict(cfg.get("kwargs", {}))
        par = dict(cfg.get("parallel", {}))
        user_pool = None
        if par.pop("user_pool", None):
            import multiprocessing

            from nessai.utils.multiprocessing import initialise_pool_variables

            user_pool = multiprocessing.get_context("fork").Pool(
                int(par.pop("user_pool_size", 2)), initializer=initialise_pool_variables, initargs=(model,))
            par["pool"] = user_pool
        outdir = os.path.join(cfg["output"], f"run{rep}")
        fs = FlowSampler(model, output=outdir, nlive=cfg["nlive"], seed=cfg["seed"], resume=False,
                         importance_nested_sampler=cfg["kind"] == "ins", plot=False, signal_handling=False,
                         log_on_iteration=False, logging_interval=100000, checkpointing=False,
                         **par, **kwargs)
        fs.run(plot=False, save=False)
        ns = fs.ns
        if cfg["kind"] == "ins":
            samples = ns.samples_unit
            weights = np.asarray(ns.state.log_posterior_weights, dtype=float)
        else:
            samples = np.asarray(fs.nested_samples)
            weights = np.asarray(ns.state.log_posterior_weights, dtype=float)
        emit(ev="done", it=int(ns.iteration), samples=d31(samples.tobytes()), weights=d31(weights.tobytes()),
             logZ=d31(repr(float(fs.logZ))), evals=int(ns.model.likelihood_evaluations),
             n=int(samples.size))
        if user_pool is not None:
            user_pool.close()
            user_pool.join()
    sys.exit(0)


if __name__ == "__main__":
    main()
