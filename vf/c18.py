"""C18 — live-point conversions preserve names, order, values and defaults.

spec/LivePoints.tla models the process-global registry of extra non-sampling
fields (``config.livepoints``: add / reset histories, including the cached
properties the conversions read) and every conversion as a function on
abstract values.  TLC checks the round-trip / default / view theorems in every
registry state for all parameter lists and shapes within the bounds.

spec -> code.  Every edge of the complete state graph is exported with a path
from the initial state.  Each path is replayed on the REAL global registry
(``add_extra_parameters_to_live_points``, ``reset_extra_live_points_parameters``,
real conversions for the Build steps) and, in the state reached, every
conversion function is called on concrete instantiations (names: valid
identifiers incl. unusual ones, 1..20 of them; values incl. NaN, +-inf,
subnormals, extremes; 0, 1 and n points; with and without non-sampling fields)
and compared field by field with the specification's results (decoded from the
abstract values).  Arrays built along the path are kept and must be untouched
at the end; models created along the path must still give a zero-copy view of
arrays built later.

code -> spec.  Long random add/reset/build histories are executed on the real
registry, recorded and validated by TLC against spec/TraceLivePoints.tla.

P-clauses (VIOLATION): names, order, values, defaults, number of points,
zero-copy, "nothing else changes", a conversion raising on a legal input.
M-clauses (MODEL-MISMATCH): exact field order of the non-sampling fields, the
registry/caches as the specification predicts them, dtypes.
"""

from __future__ import annotations

import json
import logging
import multiprocessing
import random
import string
import sys
import time
import warnings

import numpy as np

from .common import NCPU, MachineryError, Scratch, Verdict, digest31, seed_from_env
from .tlc import decode_printed, require_ok, run_tlc

PROP = "C18"
NAN = -1                 # code of the default float value
NONE_DS = [-2]           # default_values=None
CORE = ["logP", "logL", "it"]
KNOWN_DICT_SIG = "dict_one_point_sequences"

EXPORT_CFG = """SPECIFICATION Spec
CONSTANTS
  ENames = {{{enames}}}
  DVals = {{{dvals}}}
  MaxAdd = {max_add}
  MaxD = {max_d}
  MaxN = {max_n}
  MaxHeld = {max_held}
VIEW view
INVARIANT TypeOK
INVARIANT NoDuplicates
INVARIANT CacheCoherent
INVARIANT HeldReflectBirth
INVARIANT NamesAndOrder
INVARIANT Defaults
INVARIANT RoundTrips
INVARIANT ViewIsWindow
PROPERTY RegistryStep
PROPERTY HeldUnchanged
CHECK_DEADLOCK FALSE
"""
EXPORT_EXTRA = """INVARIANT ExportState
ACTION_CONSTRAINT ExportEdge
"""

TRACE_CFG = """SPECIFICATION TraceSpec
CONSTANTS
  ENames = {{{enames}}}
  DVals = {{{dvals}}}
  MaxAdd = 0
  MaxD = 3
  MaxN = 2
  MaxHeld = 0
CHECK_DEADLOCK FALSE
"""

# ---------------------------------------------------------------------------
# instantiation pools

NAME_POOL = [
    "x", "y", "z", "x_0", "x_1", "_", "__", "_private", "a1", "A", "X", "mass_1", "mass_2",
    "chirp_mass", "mass_ratio", "ra", "dec", "psi", "theta_jn", "luminosity_distance",
    "lambda", "class", "def", "None", "True", "import", "names", "dtype", "shape", "fields",
    "f0", "f1", "f2", "α", "β_1", "Ünï", "日本語", "x" * 64,
    "aLongCamelCaseParameterName", "logl", "logp", "It", "IT", "LogL", "logL_", "_it", "nan", "inf",
    "i", "j", "n", "col", "index", "values", "keys", "items", "T", "size", "ﬁ", "\U0001d4b3",
    "__len__", "self", "np", "copy", "view", "base", "data", "real", "imag", "flat", "mean", "sum",
    "p1", "p2", "e1", "e2", "q", "w", "x__y", "été", "Δφ",
]
EXTRA_POOL = ["logW", "logQ", "logU", "qID", "extra_1", "γ", "_e", "weight", "N_eff", "it2",
              "log_w", "logG"]
DEFAULT_POOL = [1.5, float("-inf"), float("inf"), 7, -3, 0.0, 1e300, 5e-324, -2.5e-310,
                12345.678, float(np.float64(2.5)), 1.7976931348623157e308, float("nan"), -1.0, 1]
DEFAULT_POOL_DECODABLE = [1.5, float("-inf"), float("inf"), 7, -3, 1e300, 5e-324, -2.5e-310,
                          12345.678, 2.5, 1.7976931348623157e308, -1.0]
SPECIAL = [
    float("nan"), float("inf"), float("-inf"), 0.0, -0.0, 5e-324, -5e-324, 2.2250738585072014e-308,
    1e-310, -1e-320, 1.7976931348623157e308, -1.7976931348623157e308, 1.0, -1.0, 1e5,
    1e5 + float(np.spacing(1e5)), -1e5, 1e-300, 1e300, 3.141592653589793, 2.0 ** 53, 2.0 ** 53 + 2,
    0.1, 1.0 / 3.0, -2.2250738585072014e-308, 4.9406564584124654e-324 * 3,
]

for _n in NAME_POOL + EXTRA_POOL:
    assert _n.isidentifier(), _n
assert not (set(NAME_POOL) & set(EXTRA_POOL)) and not (set(NAME_POOL + EXTRA_POOL) & set(CORE))


def random_identifier(rng: random.Random) -> str:
    first = string.ascii_letters + "_"
    rest = first + string.digits
    k = rng.choice([1, 1, 2, 3, 5, 8, 13, 30])
    return rng.choice(first) + "".join(rng.choice(rest) for _ in range(k - 1))


class Inst:
    """Concrete names and values for one history (everything from one seed)."""

    def __init__(self, seed: int, enames, dcodes, decodable=False):
        self.seed = seed
        self.rng = rng = random.Random(seed)
        pool = EXTRA_POOL[:]
        rng.shuffle(pool)
        self.ename = {a: pool[i] for i, a in enumerate(sorted(enames))}
        self.eabs = {c: a for a, c in self.ename.items()}
        dpool = DEFAULT_POOL_DECODABLE if decodable else DEFAULT_POOL
        self.dval = {NAN: float("nan"), 0: 0}
        for code, val in zip(sorted(dcodes), rng.sample(dpool, len(dcodes))):
            self.dval[code] = val
        self.reserved = set(CORE) | set(self.ename.values())
        self._names = {}
        self.fdt = "f8"             # config.livepoints.default_float_dtype of this history

    def stored(self, code):
        """A default as a field of the configured float type holds it."""
        with np.errstate(over="ignore"):
            return float(np.asarray(self.dval[code], dtype=float).astype(self.fdt))

    def fresh_names(self, d):
        out = []
        while len(out) < d:
            c = self.rng.choice(NAME_POOL) if self.rng.random() < 0.7 else random_identifier(self.rng)
            if c not in self.reserved and c not in out:
                out.append(c)
        return out

    def names(self, d):
        """The parameter names of this history for d parameters (fixed, so that
        models created early can view arrays built late)."""
        if d not in self._names:
            self._names[d] = self.fresh_names(d)
        return self._names[d]

    def matrix(self, n, d):
        rng = self.rng
        mode = rng.randrange(4)
        if mode == 0:      # distinct, exactly representable: any shift/transposition shows
            scale = rng.choice([1.0, 0.5, 2.0 ** -30, 2.0 ** 40, -1.0])
            off = rng.choice([0.0, 1e5, -1e5])
            m = (np.arange(n * d, dtype=float).reshape(n, d) + 1.0) * scale + off
        elif mode == 1:    # special values only
            m = np.array([rng.choice(SPECIAL) for _ in range(n * d)], dtype=float).reshape(n, d)
        elif mode == 2:    # wide-range random with a few specials
            m = np.array([rng.gauss(0, 1) * 10.0 ** rng.uniform(-300, 300) for _ in range(n * d)],
                         dtype=float).reshape(n, d)
            for _ in range(max(1, (n * d) // 4)):
                if n * d:
                    m.flat[rng.randrange(n * d)] = rng.choice(SPECIAL)
        else:              # ordinary numbers
            m = np.array([rng.uniform(-10, 10) for _ in range(n * d)], dtype=float).reshape(n, d)
        # inputs are representable in the configured float type, so that "the
        # same values" does not depend on the precision the user configured
        with np.errstate(over="ignore", under="ignore"):
            return m.astype(self.fdt).astype(float)

    def code_of(self, value):
        """Inverse of dval for observations (decodable pools only)."""
        try:
            f = float(value)
        except (TypeError, ValueError):
            return 9999
        if f != f:
            return NAN
        if f == 0:
            return 0
        for code, val in self.dval.items():
            if code not in (NAN, 0) and float(val) == f:
                return code
        return 9999

    def describe(self):
        return {"seed": self.seed, "extra_names": self.ename,
                "defaults": {str(k): repr(v) for k, v in self.dval.items()},
                "default_float_dtype": self.fdt,
                "parameter_names": {str(k): v for k, v in self._names.items()}}


# ---------------------------------------------------------------------------
# the specification's conversions, transcribed (cross-checked against TLC's
# export for every registry state and every case within TLC's bounds, then
# used for the larger shapes as well)


def oracle_case(ns, nd, d, n, nsp):
    pn = [f"p{k}" for k in range(1, d + 1)]
    mat = [[i * d + k + 1 for k in range(d)] for i in range(n)]
    fields = pn + (list(ns) if nsp else [])
    tail = list(nd) if nsp else []
    col = [[mat[i][k] for i in range(n)] for k in range(d)] + [[v] * n for v in tail]
    ecol = [[NAN] * n for _ in range(d)] + [[v] * n for v in tail]
    return {
        "d": d, "n": n, "nsp": nsp,
        "lp": {"fields": fields, "n": n, "col": col},
        "empty": {"fields": fields, "n": n, "col": ecol},
        "arr_all": [mat[i] + tail for i in range(n)],
        "arr_par": mat,
        "dict_all": {"keys": fields, "vals": col},
        "view": mat,
        "itemsize": 8 * d + (20 + 8 * (len(ns) - 3) if nsp else 0),
    }


def crosscheck_oracle(tabs):
    n = 0
    for t in tabs:
        for c in t["cases"]:
            mine = oracle_case(t["ns"], t["nd"], c["d"], c["n"], c["nsp"])
            if mine != c:
                raise MachineryError(
                    "the transcription of the specification's conversions in vf/c18.py differs from "
                    f"TLC's export for ns={t['ns']} nd={t['nd']} d={c['d']} n={c['n']} nsp={c['nsp']}")
            n += 1
    return n


# ---------------------------------------------------------------------------
# what the statement itself demands of the registry (independent of how the
# code resolves the cases the statement leaves open)


class Tracker:
    def __init__(self):
        self.reset()

    def reset(self):
        self.must = []        # certainly registered, by first mention
        self.may = set()      # mentioned without a default of their own (zip cut them off)
        self.dset = {}        # name -> defaults it was mentioned with
        self.loose = set()    # default left open by the statement

    def add(self, ns, ds):
        for j, a in enumerate(ns):
            if ds == NONE_DS or j < len(ds):
                code = NAN if ds == NONE_DS else ds[j]
                if a not in self.must:
                    self.must.append(a)
                self.dset.setdefault(a, set()).add(code)
            else:
                self.may.add(a)
                self.loose.add(a)


# ---------------------------------------------------------------------------
# the real code


class Real:
    """Handles on the real modules (imported once, before forking)."""

    lp = None
    config = None
    pd = None
    Model = None

    @classmethod
    def load(cls):
        if cls.lp is not None:
            return
        import pandas as pd
        from nessai import config
        from nessai import livepoint as lp
        from nessai.model import Model

        class _M(Model):
            def __init__(self, names):
                self.names = list(names)
                self.bounds = {n: [-1.0, 1.0] for n in names}

            def log_prior(self, x):
                return 0.0

            def log_likelihood(self, x):
                return 0.0

        cls.lp, cls.config, cls.pd, cls.Model = lp, config, pd, _M
        warnings.filterwarnings("ignore", category=RuntimeWarning)   # float32 overflow of 1e300
        logging.getLogger("nessai").setLevel(logging.CRITICAL)

    @classmethod
    def hard_reset(cls):
        """Isolation between histories: the API reset, then a fresh config."""
        try:
            cls.lp.reset_extra_live_points_parameters()
        finally:
            cls.config.livepoints.__init__()


def feq(a, b):
    """Same values (NaN equals NaN; dtypes do not matter)."""
    try:
        a = np.asarray(a, dtype=float)
        b = np.asarray(b, dtype=float)
    except (TypeError, ValueError):
        return False
    if a.shape != b.shape:
        return False
    return bool(((a == b) | ((a != a) & (b != b))).all())


_FAILED = object()


class Ctx:
    """One replayed history: the instantiation, what was built, what was found."""

    def __init__(self, inst: Inst, history, params):
        self.inst = inst
        self.history = history
        self.params = params
        self.tracker = Tracker()
        self.findings = []          # ("P", sig, what, detail) | ("M", what)
        self.held = []              # (label, array, copy, dtype, names, matrix)
        self.models = {}            # d -> [(born_at_step, model)]
        self.stats = {"calls": 0, "cases": 0, "views": 0, "held_checked": 0, "model_views": 0,
                      "max_d": 0, "max_n": 0, "dict_seq_failures": 0}
        self.step = 0
        self.current = {}           # the concrete input being converted (for replay files)
        self.exp_ns = None
        self.exp_nd = None

    # -- reporting
    def P(self, sig, what, **detail):
        self.findings.append(("P", sig, what, dict(self.current, **detail)))

    def M(self, what):
        self.findings.append(("M", what))

    def call(self, label, fn, *a, **k):
        self.stats["calls"] += 1
        try:
            return fn(*a, **k)
        except Exception as ex:  # a legal input made a conversion fail
            if label.startswith("dict_to_live_points[seq1") and isinstance(ex, (ValueError, TypeError)):
                self.stats["dict_seq_failures"] += 1
                self.P(KNOWN_DICT_SIG,
                       f"dict_to_live_points raised {type(ex).__name__}: {ex} for one point given as "
                       f"length-1 sequences ({label})", call=label)
            else:
                self.P(f"exception:{label.split('[')[0]}",
                       f"{label} raised {type(ex).__name__}: {ex}", call=label)
            return _FAILED

    # -- the models
    def new_models(self, ds):
        for d in ds:
            if d < 2:       # nessai refuses one-dimensional models
                continue
            m = Real.Model(self.inst.names(d))
            m._view_dtype         # computed now, under the registry of this moment
            self.models.setdefault(d, []).append((self.step, m))


def decode_lp(alp, names, mat, inst: Inst):
    """Abstract array of the specification -> expected (field, column) list."""
    d = mat.shape[1]
    flat = mat.reshape(-1)
    out = []
    for k, f in enumerate(alp["fields"]):
        codes = alp["col"][k]
        if k < d:
            if f != f"p{k + 1}":
                raise MachineryError(f"unexpected abstract field {f}")
            col = np.array([NAN_F if c == NAN else flat[c - 1] for c in codes], dtype=float)
            out.append((names[k], col))
        else:
            name = f if f in CORE else inst.ename[f]
            col = np.array([inst.stored(c) for c in codes], dtype=float)
            out.append((name, col))
    return out


NAN_F = float("nan")


def check_lp(ctx: Ctx, R, exp, names, mat, nsp, label):
    """P- and M-clauses on one live-point array returned by the real code."""
    n, d = mat.shape
    if not isinstance(R, np.ndarray) or R.dtype.names is None:
        ctx.P("names", f"{label} did not return a structured array ({type(R).__name__})", call=label)
        return False
    real = list(R.dtype.names)
    ok = True
    if R.shape != (n,):
        ctx.P("points", f"{label}: {n} point(s) in, shape {R.shape} out", call=label)
        return False
    # ---- names and order
    nameset = set(names)
    if [f for f in real if f in nameset] != list(names):
        ctx.P("names", f"{label}: parameter fields {[f for f in real if f in nameset]} for names "
              f"{list(names)}", call=label, fields=real)
        return False
    others = [f for f in real if f not in nameset]
    core_there = [f for f in others if f in CORE]
    extras_real = [f for f in others if f not in CORE]
    t = ctx.tracker
    if nsp:
        if sorted(core_there) != sorted(CORE):
            ctx.P("names", f"{label}: core non-sampling fields {core_there}", call=label, fields=real)
            ok = False
        must = {ctx.inst.ename[a] for a in t.must}
        may = {ctx.inst.ename[a] for a in t.may}
        got = set(extras_real)
        if not (must <= got <= (must | may)) or len(got) != len(extras_real):
            ctx.P("registry", f"{label}: new array has extra fields {extras_real}, registered "
                  f"{sorted(must)} (optional {sorted(may - must)})", call=label, fields=real)
            ok = False
    elif others:
        ctx.P("names", f"{label}: non-sampling fields {others} although not requested", call=label,
              fields=real)
        ok = False
    # ---- values
    for k, nm in enumerate(names):
        if not feq(R[nm], mat[:, k]):
            ctx.P("values", f"{label}: field {nm!r} (parameter {k + 1} of {d}) differs from the input",
                  call=label, got=R[nm].tolist(), want=mat[:, k].tolist())
            ok = False
            break
    # ---- defaults
    if nsp and ok:
        ok = check_defaults(ctx, R, extras_real, label)
    # ---- M: exactly the specification's array
    if ok:
        if real != [f for f, _ in exp]:
            ctx.M(f"{label}: field order {real} differs from the specification's {[f for f, _ in exp]}")
        else:
            for f, col in exp:
                if not feq(R[f], col):
                    ctx.M(f"{label}: field {f!r} differs from the specification's value")
                    break
    return ok


def check_defaults(ctx: Ctx, R, extras_real, label):
    ok = True
    if len(R):
        if not (np.all(np.isnan(R["logP"])) and np.all(np.isnan(R["logL"]))):
            ctx.P("defaults", f"{label}: logP/logL of a new array are not NaN "
                  f"({R['logP'][:3].tolist()}, {R['logL'][:3].tolist()})", call=label)
            ok = False
        if not np.all(R["it"] == 0):
            ctx.P("defaults", f"{label}: it of a new array is {R['it'][:3].tolist()}, not 0", call=label)
            ok = False
        for f in extras_real:
            a = ctx.inst.eabs.get(f)
            if a is None or a in ctx.tracker.loose or a not in ctx.tracker.dset:
                continue
            allowed = [ctx.inst.stored(c) for c in ctx.tracker.dset[a]]
            col = np.asarray(R[f], dtype=float)
            if not any(feq(col, np.full(len(col), v)) for v in allowed):
                ctx.P("defaults", f"{label}: extra field {f!r} is {col[:3].tolist()} in a new array, "
                      f"registered default(s) {allowed}", call=label)
                ok = False
    return ok


def from_variants(ctx: Ctx, names, mat, nsp, everything):
    """(label, thunk) for every way of handing the same points to the code."""
    lp, pd = Real.lp, Real.pd
    n, d = mat.shape
    rng = ctx.inst.rng
    cols = [mat[:, k].copy() for k in range(d)]
    out = []

    def pick(options):
        return options if (everything or not options) else [rng.choice(options)]

    # plain arrays
    arrs = [("C", np.ascontiguousarray(mat)), ("F", np.asfortranarray(mat))]
    if n == 1:
        arrs.append(("1d", mat[0].copy()))
    if n == 0:
        arrs.append(("empty1d", np.array([])))
    arrs.append(("strided", np.repeat(np.repeat(mat, 2, axis=0), 2, axis=1)[::2, ::2]))
    for tag, a in pick(arrs):
        out.append((f"numpy_array_to_live_points[{tag}]",
                    lambda a=a: lp.numpy_array_to_live_points(a, list(names), non_sampling_parameters=nsp)))
    # dictionaries
    if n == 1:
        dicts = [("pyfloat", {k: float(c[0]) for k, c in zip(names, cols)}),
                 ("npfloat", {k: c[0] for k, c in zip(names, cols)})]
        seqs = [("seq1-array", {k: c for k, c in zip(names, cols)}),
                ("seq1-list", {k: c.tolist() for k, c in zip(names, cols)})]
    else:
        dicts = [("array", {k: c for k, c in zip(names, cols)}),
                 ("list", {k: c.tolist() for k, c in zip(names, cols)})]
        seqs = []
    for tag, dd in pick(dicts) + pick(seqs):
        out.append((f"dict_to_live_points[{tag}]",
                    lambda dd=dd: lp.dict_to_live_points(dd, non_sampling_parameters=nsp)))
    # data frame
    out.append(("dataframe_to_live_points",
                lambda: lp.dataframe_to_live_points(
                    pd.DataFrame({k: c for k, c in zip(names, cols)}, columns=list(names)),
                    non_sampling_parameters=nsp)))
    # one point / no point as a parameter list
    if n <= 1:
        p = mat[0] if n else np.array([])
        ps = [("list", p.tolist()), ("tuple", tuple(p.tolist())), ("array", p.copy())]
        for tag, pp in pick(ps):
            out.append((f"parameters_to_live_point[{tag}]",
                        lambda pp=pp: lp.parameters_to_live_point(pp, list(names),
                                                                  non_sampling_parameters=nsp)))
    return out


def check_case(ctx: Ctx, d, n, nsp, everything):
    """Every conversion for one (names, shape, nsp) in the current registry state."""
    lp = Real.lp
    inst = ctx.inst
    names = inst.names(d)
    mat = inst.matrix(n, d)
    case = oracle_case(ctx.exp_ns, ctx.exp_nd, d, n, nsp)
    exp = decode_lp(case["lp"], names, mat, inst)
    ctx.current = {"names": list(names), "points": n, "non_sampling_parameters": nsp,
                   "values": mat.tolist() if mat.size <= 24 else f"{n}x{d} matrix from the seed"}
    ctx.stats["cases"] += 1
    ctx.stats["max_d"] = max(ctx.stats["max_d"], d)
    ctx.stats["max_n"] = max(ctx.stats["max_n"], n)
    first = None
    for label, thunk in from_variants(ctx, names, mat, nsp, everything):
        R = ctx.call(label, thunk)
        if R is _FAILED:
            continue
        if check_lp(ctx, R, exp, names, mat, nsp, label) and first is None:
            first = R
    # ---- empty_structured_array
    exp_e = decode_lp(case["empty"], names, mat, inst)
    nanmat = np.full((n, d), np.nan)
    E = ctx.call("empty_structured_array",
                 lambda: lp.empty_structured_array(n, names=list(names), non_sampling_parameters=nsp))
    if E is not _FAILED:
        check_lp(ctx, E, exp_e, names, nanmat, nsp, "empty_structured_array")
    if nsp and first is not None:
        E2 = ctx.call("empty_structured_array[dtype]",
                      lambda: lp.empty_structured_array(n, dtype=first.dtype))
        if E2 is not _FAILED:
            check_lp(ctx, E2, exp_e, names, nanmat, nsp, "empty_structured_array[dtype]")
    if first is None:
        return
    A = first
    # ---- M: the "to" conversions on the array of the specification
    arr_all = ctx.call("live_points_to_array[all]", lambda: lp.live_points_to_array(A))
    if arr_all is not _FAILED:
        want = np.array([c for _, c in exp], dtype=float).T.reshape(n, len(exp))
        if not feq(arr_all, want):
            ctx.M("live_points_to_array(all fields) differs from the specification's array")
    # ---- P: "to" conversions and ways back, on an array whose non-sampling
    # fields hold arbitrary values (they must come back too)
    X = A.copy()
    rng = inst.rng
    for f in X.dtype.names[d:]:
        if f == "it":
            X[f] = np.arange(n) + 1
        else:
            X[f] = [rng.choice(SPECIAL) for _ in range(n)]
    allf = list(X.dtype.names)
    sels = [("params", list(names)), ("all", None)]
    if d > 1:
        perm = list(names)
        rng.shuffle(perm)
        sels.append(("subset", perm[: rng.randint(1, d)]))
    for tag, sel in sels:
        want_names = allf if sel is None else sel
        for cp in (False, True):
            a = ctx.call(f"live_points_to_array[{tag}]", lambda: lp.live_points_to_array(X, sel, copy=cp))
            if a is _FAILED:
                continue
            if not isinstance(a, np.ndarray) or a.shape != (n, len(want_names)):
                ctx.P("points", f"live_points_to_array[{tag}]: shape {getattr(a, 'shape', None)} for "
                      f"{n} points x {len(want_names)} fields", call=f"live_points_to_array[{tag}]")
                continue
            for j, f in enumerate(want_names):
                if not feq(a[:, j], X[f]):
                    ctx.P("values", f"live_points_to_array[{tag}]: column {j} is not field {f!r}",
                          call=f"live_points_to_array[{tag}]")
                    break
        dd = ctx.call(f"live_points_to_dict[{tag}]", lambda: lp.live_points_to_dict(X, sel))
        if dd is _FAILED:
            continue
        if not isinstance(dd, dict) or list(dd.keys()) != list(want_names):
            ctx.P("names", f"live_points_to_dict[{tag}]: keys {list(dd) if isinstance(dd, dict) else dd} "
                  f"for fields {want_names}", call=f"live_points_to_dict[{tag}]")
            continue
        for f in want_names:
            if not feq(dd[f], X[f]):
                ctx.P("values", f"live_points_to_dict[{tag}]: entry {f!r} differs from the field",
                      call=f"live_points_to_dict[{tag}]")
                break
    # ways back (parameters only; non-sampling fields take their defaults again)
    back = []
    a = ctx.call("live_points_to_array[params]", lambda: lp.live_points_to_array(X, list(names)))
    if a is not _FAILED:
        back.append(("array->lp", lambda: lp.numpy_array_to_live_points(a, list(names),
                                                                         non_sampling_parameters=nsp)))
    dd = ctx.call("live_points_to_dict[params]", lambda: lp.live_points_to_dict(X, list(names)))
    if dd is not _FAILED and isinstance(dd, dict):
        lab = "dict_to_live_points[seq1-roundtrip]" if n == 1 else "dict_to_live_points[roundtrip]"
        back.append((lab, lambda: lp.dict_to_live_points(dd, non_sampling_parameters=nsp)))
        back.append(("dataframe_to_live_points[roundtrip]",
                     lambda: lp.dataframe_to_live_points(Real.pd.DataFrame(dd),
                                                         non_sampling_parameters=nsp)))
    for lab, thunk in back:
        R = ctx.call(lab, thunk)
        if R is not _FAILED:
            check_lp(ctx, R, exp, names, mat, nsp, lab)
    # ---- the unstructured view
    check_views(ctx, X, names, mat, d)


def check_views(ctx: Ctx, X, names, mat, d):
    lp = Real.lp
    n = len(X)
    rng = ctx.inst.rng
    views = [("unstructured_view", lambda: lp.unstructured_view(X, list(names)))]
    for born, m in ctx.models.get(d, []):
        if m.names == list(names):
            views.append((f"Model.unstructured_view[model of step {born}]",
                          lambda m=m: m.unstructured_view(X)))
    for label, thunk in views:
        v = ctx.call(label, thunk)
        if v is _FAILED:
            continue
        ctx.stats["views"] += 1
        if label.startswith("Model"):
            ctx.stats["model_views"] += 1
        if not isinstance(v, np.ndarray) or v.shape != (n, d):
            ctx.P("view", f"{label}: shape {getattr(v, 'shape', None)}, expected {(n, d)}", call=label)
            continue
        if not feq(v, mat):
            ctx.P("view", f"{label}: the view does not show exactly the parameters, in order", call=label)
            continue
        if n == 0:
            continue
        if not np.shares_memory(v, X):
            ctx.P("zero_copy", f"{label}: the view does not share memory with the array", call=label)
            continue
        i, k = rng.randrange(n), rng.randrange(d)
        before = X.copy()
        w = -(1000.25 + i + 16 * k)       # exact in float32 too
        try:
            v[i, k] = w
        except ValueError as ex:
            ctx.P("zero_copy", f"{label}: the view is not writable: {ex}", call=label)
            continue
        fixed = X.copy()
        hit = X[names[k]][i] == w
        fixed[names[k]][i] = before[names[k]][i]
        if not hit or fixed.tobytes() != before.tobytes():
            ctx.P("zero_copy", f"{label}: writing view[{i},{k}] did not change exactly field "
                  f"{names[k]!r} of point {i}", call=label)
        i2, k2 = rng.randrange(n), rng.randrange(d)
        X[names[k2]][i2] = -w
        if v[i2, k2] != -w:
            ctx.P("zero_copy", f"{label}: writing the array is not seen through the view", call=label)
        X[...] = before
        if not feq(v, mat):
            ctx.P("zero_copy", f"{label}: the view lost track of the array", call=label)


# ---------------------------------------------------------------------------
# replaying one history


def real_add(ctx: Ctx, ns, ds):
    lp = Real.lp
    inst = ctx.inst
    cn = [inst.ename[a] for a in ns]
    if ds == NONE_DS:
        variant = inst.rng.randrange(2)
        if variant:
            ctx.call("add_extra_parameters_to_live_points", lp.add_extra_parameters_to_live_points, cn)
        else:
            ctx.call("add_extra_parameters_to_live_points", lp.add_extra_parameters_to_live_points,
                     cn, default_values=None)
    else:
        dv = [inst.dval[c] for c in ds]
        if inst.rng.randrange(2):
            dv = tuple(dv)
        ctx.call("add_extra_parameters_to_live_points", lp.add_extra_parameters_to_live_points, cn, dv)
    ctx.tracker.add(ns, ds)


def real_reset(ctx: Ctx):
    ctx.call("reset_extra_live_points_parameters", Real.lp.reset_extra_live_points_parameters)
    ctx.tracker.reset()


def real_build(ctx: Ctx, kind, ds):
    """A Build step of the specification: calls that read exactly what the
    kind reads; the results are kept."""
    lp, pd = Real.lp, Real.pd
    rng = ctx.inst.rng
    d = rng.choice(ds)
    names = ctx.inst.names(d)
    nsp = kind != "plain"
    if kind == "names":
        n = 0
        which = rng.choice(["numpy", "dict", "params", "empty"])
    elif kind == "all":
        which = rng.choice(["numpy", "dict", "params", "empty", "frame", "frame0"])
        n = 0 if which == "frame0" else (1 if which == "params" else rng.choice([1, 2, 3]))
    else:
        which = rng.choice(["numpy", "dict", "params", "empty", "frame"])
        n = rng.choice([0, 1, 2]) if which != "params" else rng.choice([0, 1])
    mat = ctx.inst.matrix(n, d)
    cols = {k: mat[:, j].copy() for j, k in enumerate(names)}
    if which == "numpy":
        R = ctx.call("numpy_array_to_live_points", lp.numpy_array_to_live_points, mat, list(names),
                     non_sampling_parameters=nsp)
    elif which == "dict":
        dd = {k: float(c[0]) for k, c in cols.items()} if n == 1 else cols
        R = ctx.call("dict_to_live_points", lp.dict_to_live_points, dd, non_sampling_parameters=nsp)
    elif which == "params":
        R = ctx.call("parameters_to_live_point", lp.parameters_to_live_point,
                     mat[0].tolist() if n else [], list(names), non_sampling_parameters=nsp)
    elif which == "empty":
        R = ctx.call("empty_structured_array", lp.empty_structured_array, n, names=list(names),
                     non_sampling_parameters=nsp)
        mat = np.full((n, d), np.nan)
    else:
        R = ctx.call("dataframe_to_live_points", lp.dataframe_to_live_points,
                     pd.DataFrame(cols, columns=list(names)), non_sampling_parameters=nsp)
    if R is not _FAILED and isinstance(R, np.ndarray):
        ctx.held.append((f"{which} at step {ctx.step}", R, R.copy(), R.dtype, list(names), mat))
    if nsp:
        ctx.new_models(ds)      # reads the dtype only: nothing the kind does not read anyway
    return which, d, n, nsp, R, names


def observe_registry(ctx: Ctx, post):
    """M-clauses: the registry and its caches as the specification has them
    (read without filling any cache)."""
    cfg = Real.config.livepoints
    inst = ctx.inst
    try:
        xn = [inst.eabs.get(c, "?" + str(c)) for c in cfg.extra_parameters]
        xd = list(cfg.extra_parameters_defaults)
    except AttributeError as ex:
        ctx.M(f"registry not observable: {ex}")
        return
    want_n = [a for a, _ in post["x"]]
    want_d = [float(inst.dval[c]) for _, c in post["x"]]
    if xn != want_n or not feq(xd, want_d):
        ctx.M(f"registry names {xn} defaults {xd} differ from the specification's "
              f"{want_n} {want_d}")
    if hasattr(cfg, "_non_sampling_parameters") and hasattr(cfg, "_non_sampling_defaults"):
        cn = cfg._non_sampling_parameters is not None
        cd = cfg._non_sampling_defaults is not None
        if (cn, cd) != (post["cn"], post["cd"]):
            ctx.M(f"cached properties filled: names={cn} defaults={cd}; specification: "
                  f"names={post['cn']} defaults={post['cd']}")


def check_held(ctx: Ctx):
    lp = Real.lp
    for label, R, cp, dt, names, mat in ctx.held:
        ctx.stats["held_checked"] += 1
        if R.dtype != dt or R.shape != cp.shape or R.tobytes() != cp.tobytes():
            ctx.P("nothing_else", f"an array built earlier ({label}) changed when the registry changed",
                  call=label)
            continue
        own = np.array([np.asarray(R[f], dtype=float) for f in names]).T.reshape(len(R), len(names))
        a = ctx.call("live_points_to_array[held]", lambda: lp.live_points_to_array(R, names))
        if a is not _FAILED and not feq(a, own):
            ctx.P("values", f"live_points_to_array of an array built earlier ({label}) differs from "
                  "its fields", call=label)
        v = ctx.call("unstructured_view[held]", lambda: lp.unstructured_view(R, names))
        if v is not _FAILED and (not feq(v, own) or (len(R) and not np.shares_memory(v, R))):
            ctx.P("view", f"the view of an array built earlier ({label}) is not a window on its "
                  "parameters", call=label)


def replay_history(history, post, inst_seed, params):
    """Replays one exported edge (path + last step) on the real registry and
    checks the state reached.  Returns the context (findings, stats)."""
    Real.load()
    inst = Inst(inst_seed, params["enames"], params["dcodes"])
    ctx = Ctx(inst, history, params)
    rng = inst.rng
    small_d = list(range(1, params["max_d"] + 1))
    big_d = sorted({rng.randint(4, 20) for _ in range(params["big"])}) if params["big"] else []
    ds_models = small_d + big_d
    Real.hard_reset()
    try:
        if inst_seed % 100 < params.get("f4_percent", 0):
            # another configuration: single-precision live points
            inst.fdt = "f4"
            Real.config.livepoints.default_float_dtype = "f4"
            Real.config.livepoints.reset_properties()
            ctx.stats["f4_histories"] = 1
        for i, op in enumerate(history):
            ctx.step = i + 1
            # arrays without non-sampling fields read nothing: one can always be
            # built and kept before the registry changes
            if op["op"] != "build":
                real_build(ctx, "plain", small_d)
            if op["op"] == "add":
                real_add(ctx, op["ns"], op["ds"])
            elif op["op"] == "reset":
                real_reset(ctx)
            elif op["op"] == "build":
                real_build(ctx, op["kind"], small_d)
            else:
                raise MachineryError(f"unknown op {op}")
        observe_registry(ctx, post)
        ctx.exp_ns, ctx.exp_nd = post["ns"], post["nd"]
        ctx.step = len(history) + 1
        ctx.new_models(ds_models)
        # the shapes: everything within TLC's bounds (a sample of it per edge in
        # the quick tier), plus larger ones
        cases = [(d, n, nsp) for d in small_d for n in range(params["max_n"] + 1) for nsp in (True, False)]
        if params["sample_small"] and len(cases) > params["sample_small"]:
            cases = rng.sample(cases, params["sample_small"])
        for d in big_d:
            cases.append((d, rng.choice([0, 1, rng.randint(2, 64)]), rng.random() < 0.75))
        for d, n, nsp in cases:
            check_case(ctx, d, n, nsp, params["everything"])
        ctx.current = {}
        check_held(ctx)
    finally:
        Real.hard_reset()
    return ctx


def edge_seed(seed, history):
    return digest31(seed, json.dumps(history, sort_keys=True))


_G = {}


def _work(chunk):
    params, seed = _G["params"], _G["seed"]
    findings, nfind = [], {}
    stats = {}
    kinds = set()
    for idx, e in chunk:
        s = edge_seed(seed, e["h"])
        post = {k: e[k] for k in ("x", "cn", "cd", "ns", "nd")}
        ctx = replay_history(e["h"], post, s, params)
        for k, val in ctx.stats.items():
            stats[k] = max(stats.get(k, 0), val) if k.startswith("max_") else stats.get(k, 0) + val
        stats["edges"] = stats.get("edges", 0) + 1
        kinds.add((e["h"][-1]["op"], e["h"][-1]["kind"], len(e["x"]), e["cn"], e["cd"]))
        for f in ctx.findings:
            key = f[1] if f[0] == "P" else "M:" + f[1][:40]
            nfind[key] = nfind.get(key, 0) + 1
            if nfind[key] <= 3:
                findings.append((f, {"kind": "edge", "history": e["h"], "post": post, "inst_seed": s,
                                     "params": params, "instantiation": ctx.inst.describe()}))
    return findings, nfind, stats, sorted(kinds)


# ---------------------------------------------------------------------------
# code -> spec: random long histories, recorded and validated by TLC


def record_trace(seed, length, enames, dcodes):
    Real.load()
    lp, pd, cfg = Real.lp, Real.pd, Real.config.livepoints
    inst = Inst(seed, enames, dcodes, decodable=True)
    rng = inst.rng
    enames = sorted(enames)
    dcodes = sorted(dcodes)
    ctx = Ctx(inst, [], {})
    events = []
    Real.hard_reset()
    try:
        for _ in range(length):
            r = rng.random()
            ev = {"op": "", "ns": [], "ds": [], "kind": "", "d": 0, "n": 0, "nsp": False,
                  "fields": [], "dflts": []}
            if r < 0.45:
                ns = [rng.choice(enames) for _ in range(rng.choice([1, 1, 2, 2, 3, 4]))]
                q = rng.random()
                if q < 0.3:
                    ds = NONE_DS
                else:
                    m = len(ns) if q < 0.75 else (len(ns) - 1 if q < 0.87 else len(ns) + 1)
                    ds = [rng.choice(dcodes) for _ in range(m)]
                ev.update(op="add", ns=ns, ds=ds)
                real_add(ctx, ns, ds)
            elif r < 0.55:
                ev.update(op="reset")
                real_reset(ctx)
            else:
                kind = rng.choice(["plain", "names", "all", "all"])
                which, d, n, nsp, R, names = real_build(ctx, kind, [1, 2, 3])
                ev.update(op="build", kind=kind, d=d, n=n, nsp=nsp)
                if R is _FAILED or not isinstance(R, np.ndarray) or R.dtype.names is None:
                    ev["fields"] = ["?failed"]
                else:
                    fields = []
                    for f in R.dtype.names:
                        if f in names:
                            fields.append(f"p{names.index(f) + 1}")
                        elif f in CORE:
                            fields.append(f)
                        else:
                            fields.append(inst.eabs.get(f, "?" + f))
                    ev["fields"] = fields
                    ev["n"] = int(len(R))
                    if nsp and len(R):
                        ev["dflts"] = [inst.code_of(R[f][0]) for f in R.dtype.names[d:]]
            ev["xn"] = [inst.eabs.get(c, "?" + str(c)) for c in cfg.extra_parameters]
            ev["xd"] = [inst.code_of(x) for x in cfg.extra_parameters_defaults]
            ck = hasattr(cfg, "_non_sampling_parameters") and hasattr(cfg, "_non_sampling_defaults")
            ev["ck"] = bool(ck)
            ev["cn"] = ev["cd"] = []
            if ck:
                if cfg._non_sampling_parameters is not None:
                    ev["cn"] = [c if c in CORE else inst.eabs.get(c, "?" + str(c))
                                for c in cfg._non_sampling_parameters]
                if cfg._non_sampling_defaults is not None:
                    ev["cd"] = [inst.code_of(x) for x in cfg._non_sampling_defaults]
            events.append(ev)
        check_held(ctx)
    finally:
        Real.hard_reset()
    return events, ctx.findings, inst.describe()


def _trace_work(args):
    return record_trace(*args)


def validate_traces(traces, enames, dcodes, scratch, v: Verdict, describe):
    events, windows = [], []
    for t in traces:
        windows.append([len(events) + 1, len(events) + len(t)])
        events.extend(t)
    tf = scratch / "traces.json"
    with open(tf, "w") as f:
        json.dump({"ev": events, "win": windows}, f)
    cfg = scratch / "trace.cfg"
    cfg.write_text(TRACE_CFG.format(enames=",".join(f'"{e}"' for e in sorted(enames)),
                                    dvals=",".join(str(c) for c in sorted(dcodes))))
    res = run_tlc("TraceLivePoints", str(cfg), metadir=scratch / "mt", env={"TRACE_FILE": str(tf)},
                  collect_prefix="TR", timeout=1500)
    if not res.ok:
        raise MachineryError(f"trace validation failed to run: {res.error}\n"
                             + "\n".join(res.stdout.splitlines()[-30:]))
    done = set()
    for r in res.printed:
        tid = r["tid"]
        if r["k"] == "done":
            done.add(tid)
            continue
        upto = r["l"] - windows[tid - 1][0] + 1
        if r["k"] == "P":
            _report(v, ("P", "trace:" + r["c"],
                        f"clause {r['c']} fails at event {upto} of a recorded history", {}),
                    {"kind": "trace", "events": traces[tid - 1][:upto],
                     "instantiation": describe[tid - 1]})
        else:
            _report(v, ("M", f"recorded history {tid} event {upto}: {r['c']}"), {})
    if len(done) != len(traces):
        raise MachineryError(f"only {len(done)}/{len(traces)} recorded histories were consumed by TLC")
    return len(done), res


# ---------------------------------------------------------------------------


def tier_params(tier):
    if tier == "quick":
        return dict(enames=["e1", "e2", "e3"], dcodes=[101], max_add=2, max_d=3, max_n=2,
                    sample_small=4, big=1, everything=False, f4_percent=10,
                    held_enames=["e1", "e2"], held_dcodes=[101], n_traces=32, trace_len=80)
    return dict(enames=["e1", "e2", "e3"], dcodes=[101, 102], max_add=2, max_d=3, max_n=2,
                sample_small=8, big=2, everything=True, f4_percent=10,
                held_enames=["e1", "e2", "e3"], held_dcodes=[101], n_traces=400, trace_len=250)


_REPORTED = {}


def _report(v: Verdict, finding, replay):
    """At most a few written-out cases per signature (all are counted)."""
    key = finding[1] if finding[0] == "P" else "M"
    _REPORTED[key] = _REPORTED.get(key, 0) + 1
    if _REPORTED[key] > 3:
        return
    if finding[0] == "P":
        _, sig, what, detail = finding
        v.violation(sig, what, dict(replay, detail=detail))
    else:
        v.mismatch(finding[1])


def main(tier: str) -> int:
    seed = seed_from_env()
    v = Verdict(PROP, tier, seed, "model_checking")
    p = tier_params(tier)
    Real.load()
    fmt = lambda xs: ",".join(f'"{e}"' for e in xs)          # noqa: E731
    with Scratch("c18-") as scratch:
        # ---- TLC: the complete graph with every edge exported
        cfg = scratch / "lp.cfg"
        cfg.write_text(EXPORT_CFG.format(enames=fmt(p["enames"]), dvals=",".join(map(str, p["dcodes"])),
                                         max_add=p["max_add"], max_d=p["max_d"], max_n=p["max_n"],
                                         max_held=0) + EXPORT_EXTRA)
        res = run_tlc("LivePoints", str(cfg), metadir=scratch / "m", timeout=3000, heap="6g")
        require_ok(res, "LivePoints (export)")
        edges = decode_printed(res.stdout, "EDGE")
        tabs = decode_printed(res.stdout, "TAB")
        res.stdout = ""
        if len(edges) < res.generated - 1:
            raise MachineryError("fewer edges exported than transitions")
        regs = {json.dumps(e["x"]) for e in edges}
        tabkeys = {json.dumps([t["ns"], t["nd"]]) for t in tabs}
        if len(tabkeys) < len(regs):
            raise MachineryError(f"{len(tabkeys)} conversion tables for {len(regs)} registry values")
        ncross = crosscheck_oracle(tabs)
        v.note(f"TLC: {res.distinct} states, {res.generated} transitions, {len(edges)} edges, "
               f"{len(tabkeys)} registry values, {ncross} conversion cases cross-checked, {res.wall_s:.1f}s")
        # ---- TLC: arrays kept across registry changes
        cfg2 = scratch / "held.cfg"
        cfg2.write_text(EXPORT_CFG.format(enames=fmt(p["held_enames"]), dvals=",".join(map(str, p["held_dcodes"])),
                                          max_add=p["max_add"], max_d=p["max_d"], max_n=p["max_n"],
                                          max_held=1))
        res2 = run_tlc("LivePoints", str(cfg2), metadir=scratch / "m2", timeout=3000)
        require_ok(res2, "LivePoints (held arrays)")
        v.note(f"TLC (held arrays): {res2.distinct} states, {res2.generated} transitions, {res2.wall_s:.1f}s")
        # ---- spec -> code
        t0 = time.time()
        order = list(enumerate(edges))
        random.Random(seed).shuffle(order)
        nchunk = max(NCPU * 8, 1)
        chunks = [order[i::nchunk] for i in range(nchunk)]
        chunks = [c for c in chunks if c]
        _G.update(params={k: p[k] for k in ("enames", "dcodes", "max_d", "max_n", "sample_small", "big",
                                            "everything", "f4_percent")}, seed=seed)
        stats, nfind, kinds = {}, {}, set()
        with multiprocessing.get_context("fork").Pool(NCPU) as pool:
            for findings, nf, st, kd in pool.imap_unordered(_work, chunks):
                for f, replay in findings:
                    _report(v, f, replay)
                for k, c in nf.items():
                    nfind[k] = nfind.get(k, 0) + c
                for k, c in st.items():
                    stats[k] = max(stats.get(k, 0), c) if k.startswith("max_") else stats.get(k, 0) + c
                kinds.update(map(tuple, kd))
        v.note(f"replayed {stats.get('edges', 0)} edges on the real registry: {stats.get('calls', 0)} calls, "
               f"{stats.get('cases', 0)} (names, shape, nsp) cases, {time.time() - t0:.1f}s")
        if stats.get("edges", 0) != len(edges):
            raise MachineryError("not every edge was replayed")
        # ---- code -> spec
        t_en = ["e1", "e2", "e3", "e4", "e5", "e6"]
        t_dc = [101, 102, 103, 104]
        jobs = [(digest31(seed, "trace", i), p["trace_len"], t_en, t_dc) for i in range(p["n_traces"])]
        with multiprocessing.get_context("fork").Pool(NCPU) as pool:
            recs = pool.map(_trace_work, jobs)
        traces = [r[0] for r in recs]
        for i, r in enumerate(recs):
            for f in r[1]:
                _report(v, f, {"kind": "trace", "events": r[0], "instantiation": r[2]})
        try:
            ntr, tres = validate_traces(traces, t_en, t_dc, scratch, v, [r[2] for r in recs])
        except MachineryError as ex:
            # histories recorded from code that already broke P-clauses in this run can be ill-formed for
            # the trace specification (TLC then stops with an evaluation error); the violations found so
            # far stand and are the verdict.  With no violation a failure here stays a machinery failure.
            if not v.violations:
                raise
            import types
            ntr, tres = 0, types.SimpleNamespace(distinct=0, generated=0, wall_s=0.0)
            v.note("trace validation could not run on the recorded histories after violations were found: "
                   + str(ex).splitlines()[0])
        v.note(f"{ntr} recorded histories ({sum(map(len, traces))} events) validated by TLC, "
               f"{tres.distinct} states, {tres.wall_s:.1f}s")
    sample_edge = edges[len(edges) // 2]
    v.coverage = {
        "states": res.distinct + res2.distinct + tres.distinct,
        "transitions": res.generated + res2.generated + tres.generated,
        "traces_validated_against_impl": ntr,
        "trace_events": sum(map(len, traces)),
        "edges_replayed_on_real_registry": stats.get("edges", 0),
        "registry_values": len(regs),
        "distinct_edge_kinds": len(kinds),
        "conversion_calls": stats.get("calls", 0),
        "cases_names_shape_nsp": stats.get("cases", 0),
        "views_checked": stats.get("views", 0),
        "model_views_checked": stats.get("model_views", 0),
        "held_arrays_checked": stats.get("held_checked", 0),
        "histories_with_float32_live_points": stats.get("f4_histories", 0),
        "largest_number_of_names": stats.get("max_d", 0),
        "largest_number_of_points": stats.get("max_n", 0),
        "oracle_cases_crosschecked_with_tlc": ncross,
        "findings_by_signature": nfind,
        "findings_passed_to_verdict": dict(_REPORTED),
        "exhaustive": True,
        "bounds": {k: p[k] for k in ("enames", "dcodes", "max_add", "max_d", "max_n", "held_enames",
                                     "held_dcodes", "n_traces", "trace_len")},
        "samples": [
            {"kind": "edge (path, registry after it, what a new array must see)", "edge": sample_edge,
             "instantiation": Inst(edge_seed(seed, sample_edge["h"]), p["enames"], p["dcodes"]).describe()},
            {"kind": "recorded history (first 4 events)", "events": traces[0][:4]},
        ],
        "rule": "every edge of the complete state graph of LivePoints.tla (registry x cached properties; "
                "Add with 1..max_add names incl. repeats, defaults none / as many / one fewer / one more; "
                "Reset; Build of each kind) replayed on the real global registry; in the state reached "
                "every conversion function is called for parameter lists p1..pd (d<=max_d, a sample per "
                "edge in the quick tier) and 4..20 names, 0/1/n points, with and without non-sampling "
                "fields, names and float values instantiated from the seed, and compared with the "
                "specification's results; distinct_edge_kinds counts (last step, #extras, cache state)",
    }
    v.assumptions = [
        "parameter names are distinct and differ from logP, logL, it and from the registered extra names",
        "default_float_dtype is f8, and f4 for a tenth of the histories; inputs are representable in it; "
        "dtypes are not compared, only names, order and values",
        "unstructured_view is exercised for the full parameter list of an array (the model's parameters), "
        "not for arbitrary subsets of fields",
        "values are compared as numbers (NaN equal to NaN), not bit patterns",
        "where the statement is silent (a name registered twice with different defaults, fewer defaults "
        "than names, order of the extra fields) a deviation from the specification is a MODEL-MISMATCH only",
    ]
    return v.finish()


def replay(path: str) -> int:
    """Re-executes a replay file written by this check."""
    with open(path) as f:
        r = json.load(f)
    Real.load()
    if r.get("kind") == "edge":
        ctx = replay_history(r["history"], r["post"], r["inst_seed"], r["params"])
        findings = ctx.findings
    elif r.get("kind") == "trace":
        print("recorded histories are replayed by re-running the check with the same VERIF_SEED")
        return 2
    else:
        print("not a C18 replay file")
        return 2
    hit = 0
    for fnd in findings:
        if fnd[0] == "P":
            print(f"P-clause {fnd[1]}: {fnd[2]}")
            hit += fnd[1] == r.get("signature")
        else:
            print(f"model mismatch: {fnd[1]}")
    print(f"history: {json.dumps(r['history'])}")
    print(f"reproduced: {bool(hit)}")
    return 1 if hit else 0


if __name__ == "__main__":
    sys.exit(main(sys.argv[1] if len(sys.argv) > 1 else "quick"))
