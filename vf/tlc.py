"""Running TLC and reading what it says."""

from __future__ import annotations

import json
import os
import re
import subprocess
import time
from dataclasses import dataclass, field
from pathlib import Path

from .common import NCPU, SPEC, MachineryError

JAR = "/opt/veriftools/tla/tla2tools.jar:/opt/veriftools/tla/CommunityModules-deps.jar"


@dataclass
class TLCResult:
    ok: bool                      # finished, no error reported
    generated: int = 0            # states generated (= transitions taken + inits)
    distinct: int = 0
    depth: int = 0
    error: str = ""               # first error line
    stdout: str = ""
    wall_s: float = 0.0
    printed: list = field(default_factory=list)   # decoded PrintT payloads
    cmd: str = ""
    coverage: dict = field(default_factory=dict)  # action -> (distinct, total)


_RE_STATES = re.compile(
    r"(\d+) states generated, (\d+) distinct states found, (\d+) states left on queue"
)
_RE_DEPTH = re.compile(r"The depth of the complete state graph search is (\d+)")
_RE_COV = re.compile(r"^<(\w+) line \d+, col \d+ to line \d+, col \d+ of module (\w+)>: (\d+):(\d+)")


def run_tlc(
    module: str,
    cfg: str,
    *,
    workers: int | str = None,
    metadir: Path,
    extra: list[str] = (),
    env: dict | None = None,
    timeout: float = 3600,
    jvm: list[str] = (),
    cwd: Path = SPEC,
    heap: str = "4g",
    collect_prefix: str | None = None,
    simulate: str | None = None,
    coverage: bool = False,
) -> TLCResult:
    """Run TLC on spec/<module>.tla with spec/cfg/<cfg>.

    ``collect_prefix``: PrintT("<prefix> " \\o ToJson(x)) lines are decoded and
    returned in ``printed``.
    """
    workers = workers or NCPU
    cfgpath = Path(cfg)
    if not cfgpath.is_absolute():
        cfgpath = cwd / "cfg" / cfg
    cmd = [
        "java", "-XX:+UseParallelGC", f"-Xmx{heap}", *jvm, "-cp", JAR, "tlc2.TLC",
        "-workers", str(workers), "-metadir", str(metadir), "-noGenerateSpecTE",
        "-config", str(cfgpath),
    ]
    if simulate:
        cmd += ["-simulate", simulate]
    if coverage:
        cmd += ["-coverage", "1"]
    cmd += list(extra) + [module]
    e = dict(os.environ)
    if env:
        e.update({k: str(v) for k, v in env.items()})
    t0 = time.time()
    try:
        p = subprocess.run(cmd, cwd=cwd, env=e, capture_output=True, text=True,
                           timeout=timeout)
    except subprocess.TimeoutExpired as ex:
        out = ex.stdout.decode() if isinstance(ex.stdout, bytes) else (ex.stdout or "")
        raise MachineryError(f"TLC timeout after {timeout}s: {' '.join(cmd)}\n{out[-2000:]}")
    out = p.stdout
    res = TLCResult(ok=False, stdout=out, wall_s=time.time() - t0, cmd=" ".join(cmd))
    for m in _RE_STATES.finditer(out):
        res.generated, res.distinct = int(m.group(1)), int(m.group(2))
    m = _RE_DEPTH.search(out)
    if m:
        res.depth = int(m.group(1))
    err = [l for l in out.splitlines() if l.startswith("Error:")]
    finished = ("Model checking completed. No error has been found." in out) or (
        simulate and "Error:" not in out and p.returncode == 0)
    if err:
        res.error = err[0]
    elif not finished:
        res.error = f"TLC did not finish cleanly (rc={p.returncode})"
    res.ok = bool(finished and not err)
    if collect_prefix:
        res.printed = decode_printed(out, collect_prefix)
    if coverage:
        for line in out.splitlines():
            m = _RE_COV.match(line.strip())
            if m:
                res.coverage[m.group(1)] = (int(m.group(3)), int(m.group(4)))
    return res


def decode_printed(out: str, prefix: str) -> list:
    """PrintT("PFX " \\o ToJson(v)) prints a quoted TLA+ string; decode it."""
    res = []
    start = '"' + prefix + " "
    for line in out.splitlines():
        if not line.startswith(start):
            continue
        try:
            s = json.loads(line)          # the TLA+ string literal is JSON-compatible
        except json.JSONDecodeError:
            raise MachineryError(f"cannot decode TLC output line: {line[:200]}")
        res.append(json.loads(s[len(prefix) + 1:]))
    return res


def sany(module_path: Path) -> bool:
    p = subprocess.run(
        ["java", "-cp", JAR, "tla2sany.SANY", module_path.name],
        cwd=module_path.parent, capture_output=True, text=True,
    )
    bad = ("error" in p.stdout.lower() and "Semantic errors" in p.stdout) or \
        "*** Errors" in p.stdout or "Fatal" in p.stdout or p.returncode != 0
    if bad:
        print(p.stdout[-3000:])
    return not bad


def require_ok(res: TLCResult, what: str):
    """TLC on the *specification alone* must pass; failing is a machinery
    problem (the model is wrong), never a verdict about the code."""
    if not res.ok:
        tail = "\n".join(res.stdout.splitlines()[-60:])
        raise MachineryError(f"{what}: {res.error}\n{tail}")
