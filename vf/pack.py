"""Projection of raw observer events to integer-only trace events for TLC.

points -> dense ids in order of first appearance in a live set;
log-likelihoods -> dense ranks with ties preserved (NaN -> 0);
numeric facts -> booleans (already computed by the observer / oracle).
"""

from __future__ import annotations

import json
import math


TIME_TOL = 1.0   # seconds; downtime between processes is several seconds


def load_events(paths):
    evs = []
    for p in paths:
        with open(p) as f:
            for line in f:
                line = line.strip()
                if line:
                    evs.append(json.loads(line))
    evs.sort(key=lambda e: (e["proc"], e["seq"]))
    return evs


def pack_ckpt_call(e, base):
    """ckpt_call event (Schedule.tla / ScheduleOps.tla): integers and booleans only."""
    base.update(periodic=bool(e["periodic"]), force=bool(e["force"]), on_it=bool(e["on_it"]),
                cur=int(e["cur"]), last0=int(e["last0"]), last1=int(e["last1"]), interval=int(e["interval"]),
                near=bool(e["near"]), wrote=bool(e["wrote"]))
    return base


class Ranker:
    def __init__(self, values):
        vals = sorted({v for v in values if not (isinstance(v, float) and math.isnan(v))})
        self.rank = {v: i + 1 for i, v in enumerate(vals)}

    def __call__(self, v):
        if v is None or (isinstance(v, float) and math.isnan(v)):
            return 0
        return self.rank[v]


def _all_logL(evs):
    for e in evs:
        for key in ("live", "pre_live", "dead_tail"):
            d = e.get(key)
            if d:
                yield from d["logL"]
        for key in ("worst", "new"):
            d = e.get(key)
            if d:
                yield d["logL"]
        for k in ("lmin", "lmax"):
            if k in e and e[k] is not None:
                yield e[k]
        il = e.get("integ_last")
        if il:
            yield il[0]
        for t in e.get("integ_tail", []) or []:
            yield t[0]
        for d in e.get("draws", []) or []:
            yield d[1]


def pack_standard(evs):
    """raw events of one history -> list of TLC events (dicts of ints/bools/strs)."""
    rk = Ranker(_all_logL(evs))
    ids = {}

    def pid(h):
        if h not in ids:
            ids[h] = len(ids) + 1
        return ids[h]

    def known_id(h, logl, fresh):
        """id of a point that should already be known; a point never seen in a live set (e.g. a recorded
        discarded point that was overwritten) gets a new id with its own rank, so that every id has a rank and
        the clauses fail on the values instead of TLC failing on an unknown id"""
        if h in ids:
            return ids[h]
        i = pid(h)
        fresh.append([i, rk(logl)])
        return i

    out = []
    ev_base = {}
    st_base = {}      # proc -> sampling time restored at the start of that process
    last_ckpt_digest = None
    last_ckpt_mid = False
    last_ckpt_sched = None
    last_ckpt_pool = None
    last_resume_latest = False
    last_done = None
    for e in evs:
        ev = e["ev"]
        base = {"ev": ev, "proc": e["proc"], "seq": e["seq"]}
        for k in ("it", "n_dead", "n_integ", "n_vols", "n_nlive", "n_ins", "evals", "train", "nckpt",
                  "last_train", "n_hist", "cooldown", "max_uninformed", "poolsize"):
            if k in e:
                base[k] = int(e[k])
        if "fin" in e:
            base["fin"] = bool(e["fin"])
        base["prior_sampling"] = bool(e.get("prior_sampling", False))
        if "train_on_empty" in e:
            base["train_on_empty"] = bool(e["train_on_empty"])
        if "phase" in e:
            base["phase"] = e["phase"]
        if "evals_here" in e:
            base["evals_here"] = int(e["evals_here"])

        if e.get("dead_last"):
            base["dead_last"] = ids.get(e["dead_last"]["id"], 0)
            base["dead_last_rank"] = rk(e["dead_last"]["logL"])
        else:
            base["dead_last"] = 0
            base["dead_last_rank"] = 0
        if ev in ("ckpt", "resume"):
            il = e.get("integ_last")
            base["integ_last"] = [rk(il[0]), int(il[1])] if il else [0, 0]
            base["ins_last"] = int(e.get("ins_last", -1))

        def live_of(d):
            fresh = []
            lst = []
            for h, l in zip(d["ids"], d["logL"]):
                new = h not in ids
                i = pid(h)
                lst.append(i)
                if new:
                    fresh.append([i, rk(l)])
            return lst, fresh, [rk(l) for l in d["logL"]]

        # C12 accounting: model counter = restored count + evaluations made by this process
        if ev == "start":
            ev_base[e["proc"]] = 0
        if ev == "resume":
            ev_base[e["proc"]] = int(e.get("evals", 0))
        if "evals" in e and "evals_here" in e and ev != "resume":
            base["evals_ok"] = bool(int(e["evals"]) == ev_base.get(e["proc"], 0) + int(e["evals_here"]))
        else:
            base["evals_ok"] = True
        # C12 timing: reported sampling time = restored time + wall clock spent in the loop
        if ev == "start":
            st_base[e["proc"]] = 0.0
        if ev == "resume":
            st_base[e["proc"]] = float(e.get("st", 0.0))
        if ev in ("ckpt", "done") and e.get("el", -1.0) >= 0:
            exp = st_base.get(e["proc"], 0.0) + float(e["el"])
            base["time_ok"] = bool(abs(float(e["st"]) - exp) <= TIME_TOL + 0.02 * exp)
            base["time_diff_ms"] = int(1000 * (float(e["st"]) - exp))
        else:
            base["time_ok"] = True
            base["time_diff_ms"] = 0
        if ev == "start":
            base["resume"] = bool(e["resume"])
        elif ev == "init":
            lst, fresh, ranks = live_of(e["live"])
            base.update(live=lst, fresh=fresh, live_ranks=ranks, nlive=int(e["nlive"]),
                        all_ok=bool(e["all_ok"]), it_zero=bool(e["it_zero"]))
        elif ev == "iter":
            lst, fresh, ranks = live_of(e["live"])
            w, n = e["worst"], e["new"]
            draws = e.get("draws", [])
            base.update(
                live=lst, fresh=fresh, live_ranks=ranks,
                worst=known_id(w["id"], w["logL"], fresh), worst_rank=rk(w["logL"]),
                new=known_id(n["id"], n["logL"], fresh), new_rank=rk(n["logL"]),
                new_ok=bool(n["prior_finite"] and n["in_bounds"]),
                new_vals_ok=bool(n["logP_ok"] and n["logL_ok"]),
                new_it=int(n["it"]), worst_it=int(w["it"]), it_sum=int(e["live"]["it_sum"]),
                lmin=rk(e["lmin"]), integ_last=[rk(e["integ_last"][0]), int(e["integ_last"][1])],
                ins_last=int(e["ins_last"]), above=bool(e["above"]), it0=int(e["it0"]),
                n_draws=len(draws), pool_left=int(e.get("pool_left", 0)),
                # every rejected draw is not acceptable, the accepted one is the last
                draws_ok=bool(all((not (d[2] and d[3])) or (rk(d[1]) <= rk(e["lmin"])) for d in draws[:-1])
                              and (not draws or draws[-1][0] == n["id"])),
                cond_is_reported=True,
            )
        elif ev == "finalise":
            pre = e["pre_live"] or {"ids": [], "logL": []}
            base.update(
                pre_live=[ids.get(h, 0) for h in pre["ids"]],
                dead_tail=[ids.get(h, 0) for h in e["dead_tail"]["ids"]],
                integ_tail=[[rk(a), int(b)] for a, b in e["integ_tail"]],
                live_none=bool(e["live_none"]),
            )
        elif ev in ("ckpt", "resume"):
            lv = e.get("live")
            if lv:
                lst, fresh, ranks = live_of(lv)
            else:
                lst, fresh, ranks = [], [], []
            base.update(live=lst, fresh=fresh, live_ranks=ranks, live_none=lv is None,
                        it_sum=int(lv["it_sum"]) if lv else 0)
            if ev == "ckpt":
                last_ckpt_digest = e["digest"]
                last_ckpt_mid = bool(e.get("mid", False))
                last_ckpt_sched = e.get("sched")
                last_ckpt_pool = (e.get("pool_eff"), bool(e.get("pool_stale", False)))
                base["sched_ok"] = True
                base["digest_ok"] = True
                base["digest_diff"] = ""
                base["mid"] = last_ckpt_mid
            else:
                d = e["digest"]
                if last_ckpt_digest is None:
                    base["digest_ok"] = False
                    base["digest_diff"] = "no checkpoint event"
                else:
                    diff = sorted(k for k in set(d) | set(last_ckpt_digest)
                                  if d.get(k) != last_ckpt_digest.get(k))
                    base["digest_ok"] = not diff
                    base["digest_diff"] = ",".join(diff)
                base["from_mid_ckpt"] = bool(last_ckpt_mid)
                # the restored schedule is the pickled one (only judged when the latest file was restored)
                base["sched_ok"] = bool(not base["digest_ok"] or e.get("sched") == last_ckpt_sched)
                last_resume_latest = bool(base["digest_ok"])
        elif ev in ("done", "done_again"):
            facts = ["ascending", "count_ok", "logZ_ok", "logZ_err_ok", "weights_ok", "vols_ok",
                     "logL_model_ok", "logP_model_ok", "in_bounds_ok", "birth_ok", "dict_ok",
                     "posterior_subset", "history_ok"]
            for k in facts:
                base[k] = bool(e.get(k, False))
            base["oracle_error"] = "oracle_error" in e
            base["n_returned"] = int(e["n_returned"])
            base["nlive"] = int(e["nlive"])
            base["res_digest"] = int(e["res_digest"])
            if last_done is None:
                last_done = e
                base["same_as_done"] = True
                base["first_done"] = True
            else:
                base["first_done"] = False
                base["same_as_done"] = bool(last_done is not None and
                                            last_done["res_digest"] == e["res_digest"] and
                                            last_done["evals"] == e["evals"])
        elif ev == "populate":
            base.update(cls=e["cls"], n=int(e["n"]), N=int(e["N"]),
                        nodup=len(set(e["ids"])) == len(e["ids"]),
                        perm=bool(e["indices_perm"]), accumulate=bool(e.get("accumulate", False)),
                        in_bounds=bool(e.get("in_bounds", True)), prior_finite=bool(e.get("prior_finite", True)),
                        logP_ok=bool(e.get("logP_ok", True)), logL_ok=bool(e.get("logL_ok", True)),
                        in_contour=bool(e.get("in_contour", True)),
                        contour_checked=bool(e.get("contour_checked", False)))
        elif ev == "pbatch":
            base.update(mode=e["mode"], n=int(e["n"]), n_acc=int(e["n_acc"]), mask_ok=bool(e["mask_ok"]),
                        norm_ok=bool(e["norm_ok"]), n_target=int(e["n_target"]), n_before=int(e.get("n_before", -1)))
        elif ev == "ppool":
            base.update(n=int(e["n"]), n_target=int(e["n_target"]), accumulate=bool(e["accumulate"]),
                        prefix_ok=bool(e["prefix_ok"]), n_proposed=int(e["n_proposed"]))
        elif ev == "ll_outside":
            base["n"] = int(e["n"])
        elif ev == "ckpt_call":
            pack_ckpt_call(e, base)
        elif ev == "train_check":
            for k in ("train", "force", "completed", "populated", "train_on_empty", "populating", "acc_low",
                      "retrain_acc"):
                base[k] = bool(e[k])
            base.update(it=int(e["it"]), last=int(e["last"]), freq=int(e["freq"]))
        elif ev == "train_call":
            for k in ("force", "trained", "reset_w", "reset_p", "reset_acc", "acc_low"):
                base[k] = bool(e[k])
            for k in ("it", "last", "cooldown", "tc", "rw", "rp", "n_live", "n_dead", "memory", "data_n"):
                base[k] = int(e[k])
        elif ev == "resume_checked":
            # the pool is usable after check_resume iff it was usable when the checkpoint was written
            # (only judged when the latest checkpoint was restored)
            known = last_ckpt_pool is not None and last_ckpt_pool[0] is not None and last_resume_latest
            base["pool_eff_ok"] = bool(not known or bool(e["pool_eff"]) == bool(last_ckpt_pool[0]))
            base["from_stale"] = bool(known and last_ckpt_pool[1])
        elif ev == "kill":
            pass
        elif ev == "exception":
            base["what"] = e.get("what", "")[:200]
        elif ev == "replay":
            base["n_diffs"] = len(e.get("diffs", []))
        out.append(base)
    return out, {"n_ids": len(ids), "n_ranks": len(rk.rank)}
