"""TLAPS (tlapm) proofs of the pure operator modules, for unbounded integers (spec/proofs/*.tla)."""

from __future__ import annotations

import re
import shutil
import subprocess
import time
from pathlib import Path

from .common import MachineryError

SPEC = Path(__file__).resolve().parent.parent / "spec"
PROOFS = {"ScheduleProofs.tla": ("ScheduleOps.tla",), "TrainPolicyProofs.tla": ("TrainPolicyOps.tla",)}


def run_tlaps(scratch: Path, only=None) -> dict:
    exe = shutil.which("tlapm")
    if exe is None:
        return {"status": "unavailable"}
    d = scratch / "tlaps"
    d.mkdir(exist_ok=True)
    out = {"status": "ran", "modules": {}, "obligations_proved": 0}
    t0 = time.time()
    for proof, deps in PROOFS.items():
        if only and proof not in only:
            continue
        shutil.copy(SPEC / "proofs" / proof, d / proof)
        for dep in deps:
            shutil.copy(SPEC / dep, d / dep)
        try:
            p = subprocess.run([exe, proof], cwd=d, capture_output=True, text=True, timeout=900)
        except subprocess.TimeoutExpired:
            out["status"] = "timeout"
            out["modules"][proof] = "timeout"
            continue
        txt = p.stdout + p.stderr
        m = re.search(r"All (\d+) obligations? proved", txt)
        if not m:
            raise MachineryError(f"TLAPS: {proof} is not proved (a modelling error in the operator module, not a "
                                 "verdict about the code): " + txt[-400:])
        out["modules"][proof] = int(m.group(1))
        out["obligations_proved"] += int(m.group(1))
    out["wall_s"] = round(time.time() - t0, 1)
    return out
