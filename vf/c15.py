"""C15 — sampling stops exactly per the stopping rule; finished runs are
idempotent (standard sampler part)."""

from __future__ import annotations

import sys

from .common import seed_from_env
from .nscheck import run_property
from .nsruns import std_spec, ins_spec

PROP = "C15"

RERUN_CLAUSES = ("run_again_same_result", "run_again_no_new_iteration", "resume_after_finish_same_result")


def sig_of(r):
    c = r["c"].split(":")[0]
    ev = r["ev"] or {}
    if c in RERUN_CLAUSES and ev.get("fin") is False:
        # a run stopped by max_iteration (never finalised) is iterated once more
        # by every further run()/resume
        return "cap_stopped_rerun"
    if r["c"] == "fractional_error = standard definition" and \
            (ev.get("crit") or {}).get("frac_err_nan_unrepresentable_evidence"):
        return "fractional_error_nan_when_evidence_not_representable"
    return c


def corpus(tier, seed):
    s = seed * 1000 + 700
    specs = [
        std_spec("gauss2", s + 1, 50, run_again=2, resume_after_done=1),
        std_spec("gauss2", s + 2, 50, stopping=2.0, run_again=1, resume_after_done=2),
        std_spec("plateau2", s + 3, 20, stopping=0.5, run_again=1),
        std_spec("hole2", s + 4, 50, max_iteration=90, run_again=1, resume_after_done=1),
        std_spec("rosen2", s + 5, 25, max_iteration=25),
        std_spec("gauss4", s + 6, 100, stopping=5.0, resume_after_done=1),
        std_spec("nonuni2", s + 7, 50, stopping=0.01, run_again=1),
        std_spec("plateau2", s + 8, 10, max_iteration=1, run_again=1),
        std_spec("gauss2", s + 9, 50, stopping=1e6, run_again=1, resume_after_done=1),   # never enters the loop
        std_spec("gauss2", s + 10, 50, kills=[200], run_again=1, resume_after_done=1),
    ]
    if tier == "thorough":
        k = 11
        for model in ("gauss2", "plateau2", "hole2", "rosen2", "nonuni2"):
            for nlive in (10, 25, 50):
                for tol in (0.01, 0.1, 1.0, 10.0):
                    specs.append(std_spec(model, s + k, nlive, stopping=tol, run_again=1, resume_after_done=1))
                    k += 1
                for cap in (1, nlive, 3 * nlive):
                    specs.append(std_spec(model, s + k, nlive, max_iteration=cap, run_again=1,
                                          resume_after_done=1))
                    k += 1
    return specs


def ins_corpus(tier, seed):
    s = seed * 1000 + 750
    specs = [
        ins_spec("gauss2", s + 1, 100, run_again=1, resume_after_done=1),
        ins_spec("gauss2", s + 2, 100, stopping_criterion=["log_dZ", "ratio"], tolerance=[0.05, 0.5],
                 check_criteria="all", max_iteration=8, run_again=1),
        ins_spec("rosen2", s + 3, 100, stopping_criterion=["ess", "Z_err", "ratio"], tolerance=[-1.0, 1.2, 0.2],
                 check_criteria="any", max_iteration=8),
        ins_spec("gauss2", s + 4, 100, stopping_criterion=["evidence_error", "log_evidence"], tolerance=[1.05, 0.02],
                 check_criteria="any", min_iteration=3, max_iteration=8, resume_after_done=1),
        ins_spec("gauss4", s + 5, 100, stopping_criterion="fractional_error", tolerance=0.1, max_iteration=3,
                 run_again=1),
        ins_spec("gauss2", s + 6, 100, stopping_criterion=["ratio_ns", "ratio_all"], tolerance=[-0.5, 1.0],
                 check_criteria="all", min_iteration=2, max_iteration=7, draw_iid_live=False),
        # unnormalised likelihood (ln Z ~ -700): the criteria must still equal their definitions
        ins_spec("offlow2", s + 7, 100, stopping_criterion=["fractional_error", "Z_err", "ess"],
                 tolerance=[0.05, 1.05, -1.0], check_criteria="any", max_iteration=5),
        # ln L ~ -2e4: Z_err and fractional_error are NaN (0/0 even in long double) and never "met"
        ins_spec("offvlow2", s + 8, 100, stopping_criterion=["ratio", "Z_err"], tolerance=[5.0, 0.5],
                 check_criteria="all", max_iteration=4),
        ins_spec("offvlow2", s + 9, 100, stopping_criterion="fractional_error", tolerance=0.5, max_iteration=3),
    ]
    if tier == "thorough":
        import itertools
        import random

        rng = random.Random(seed)
        names = ["ratio", "ratio_all", "ratio_ns", "Z_err", "evidence_error", "log_dZ", "log_evidence", "ess",
                 "fractional_error"]
        tols = {"ratio": 0.3, "ratio_all": 0.3, "ratio_ns": 0.0, "Z_err": 1.1, "evidence_error": 1.1, "log_dZ": 0.03,
                "log_evidence": 0.03, "ess": -1.0, "fractional_error": 0.08}
        k = 7
        for n in (1, 2, 3):
            for _ in range(8):
                cs = rng.sample(names, n)
                specs.append(ins_spec(rng.choice(["gauss2", "rosen2"]), s + k, 100, stopping_criterion=cs,
                                      tolerance=[tols[c] * rng.choice([0.5, 1.0, 2.0]) for c in cs],
                                      check_criteria=rng.choice(["any", "all"]),
                                      min_iteration=rng.choice([None, 0, 2, 4]), max_iteration=rng.choice([3, 6, 9]),
                                      run_again=1, resume_after_done=k % 2))
                k += 1
    return specs


def capped_at_natural_stop(tier, seed):
    """Histories whose iteration cap EQUALS the iteration at which the run converges anyway: the loop is left
    through the max_iteration break in the very iteration in which the condition drops below the tolerance; the
    run must still be finalised (runs are reproducible by seed, so an uncapped run tells the iteration)."""
    import os

    from .common import Scratch
    from .nsruns import run_corpus
    from .pack import load_events

    base = [("gauss2", seed * 1000 + 741, 50, {}), ("hole2", seed * 1000 + 742, 25, {"stopping": 0.5})]
    if tier != "quick":
        base += [("rosen2", seed * 1000 + 743, 50, {}), ("nonuni2", seed * 1000 + 744, 20, {"stopping": 1.0})]
    out = []
    with Scratch("c15pre-") as scratch:
        hs = run_corpus([std_spec(m, sd, n, **kw) for m, sd, n, kw in base], scratch / "pre")
        for (m, sd, n, kw), h in zip(base, hs):
            if h["codes"][-1] != 0:
                continue
            done = [e for e in load_events([f for f in h["events"] if os.path.exists(f)]) if e["ev"] == "done"]
            if not done or not done[-1].get("fin"):
                continue
            out.append(std_spec(m, sd, n, max_iteration=int(done[-1]["it"]), run_again=1, resume_after_done=1, **kw))
    return out


def main(tier: str) -> int:
    seed = seed_from_env()
    return run_property(PROP, tier, corpus(tier, seed) + capped_at_natural_stop(tier, seed), sig_of=sig_of, capit=2,
                        ins_specs=ins_corpus(tier, seed), ins_scripted=True,
                        scripted=True,
                        note="Every iteration logs the condition compared with the tolerance; an iteration event is "
                             "only legal while the previous condition exceeded the tolerance, finalise only when it no "
                             "longer does; after Done the run is run again in-process and resumed from the final "
                             "checkpoint in a fresh process and must report the same digest of samples/evidence/"
                             "weights and the same evaluation count.")


if __name__ == "__main__":
    sys.exit(main(sys.argv[1] if len(sys.argv) > 1 else "quick"))
