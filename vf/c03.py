"""C03 — every INS sample carries the exact meta-proposal density and weight."""

from __future__ import annotations

import sys

from .common import seed_from_env
from .nscheck import run_property
from .nsruns import ins_spec

PROP = "C03"


def corpus(tier, seed):
    s = seed * 1000 + 300
    specs = [
        ins_spec("gauss2", s + 1, 100),
        ins_spec("gauss2", s + 2, 100, strict_threshold=True, kills=[350]),
        ins_spec("rosen2", s + 3, 100, draw_iid_live=False, kills=[300, 250]),
        ins_spec("gauss4", s + 4, 100, draw_constant=False),
        ins_spec("gauss2", s + 5, 100, reparameterisation=None, save_log_q=True, kills=[450]),
        ins_spec("rosen2", s + 6, 60, replace_all=True, max_iteration=4),
        ins_spec("gauss2", s + 7, 100, flow_config={"n_blocks": 2, "n_neurons": 8, "ftype": "maf"},
                 kills=[500, 200, 200]),
        ins_spec("gauss4", s + 8, 80, n_initial=120, draw_constant=True, strict_threshold=True,
                 draw_iid_live=False),
        ins_spec("trunc2", s + 9, 100, max_iteration=4, kills=[350]),
        # prior that is not uniform in the unit hypercube: logU != 0, logW = logU - logQ
        ins_spec("uprior2", s + 10, 100, max_iteration=4),
        ins_spec("uprior2", s + 11, 100, max_iteration=4, draw_iid_live=False, kills=[350]),
        # prior that is -inf inside the unit hypercube (disc in a box): drawn candidates are rejected by the prior
        ins_spec("disc2", s + 12, 100, max_iteration=4),
        ins_spec("rect3", s + 14, 100, max_iteration=4, kills=[400]),
        # resampled (LARS) latent distribution: the flow has state that finalise() re-estimates after training;
        # the weights on disk must be those of the flow used for the stored densities (checked at the resume)
        ins_spec("gauss2", s + 17, 60, max_iteration=3, kills=[260],
                 flow_config={"n_blocks": 2, "n_neurons": 8, "distribution": "lars"}),
        ins_spec("gauss2", s + 18, 60, max_iteration=3, kills=[260], save_log_q=True, draw_iid_live=False,
                 flow_config={"n_blocks": 2, "n_neurons": 8, "distribution": "lars"}),
        # with the sampler's own plots enabled (plotting_frequency 2: plots are produced before checkpoints)
        ins_spec("gauss2", s + 15, 60, max_iteration=4, plot=True, plotting_frequency=2),
        ins_spec("gauss2", s + 16, 60, max_iteration=4, plot=True, plotting_frequency=2, draw_iid_live=False,
                 kills=[250]),
        ins_spec("disc2", s + 13, 100, max_iteration=4, draw_iid_live=False, kills=[350]),
    ]
    if tier == "thorough":
        k = 9
        for model in ("gauss2", "rosen2", "gauss4"):
            for strict in (False, True):
                for iid in (True, False):
                    for dc in (True, False):
                        for rep in ("logit", None):
                            kills = [300 + 50 * (k % 4)] * (k % 3)
                            specs.append(ins_spec(model, s + k, 100, strict_threshold=strict, draw_iid_live=iid,
                                                  draw_constant=dc, reparameterisation=rep, kills=kills,
                                                  save_log_q=bool(k % 2)))
                            k += 1
    return specs


def main(tier: str) -> int:
    seed = seed_from_env()
    return run_property(PROP, tier, [], ins_specs=corpus(tier, seed),
                        note="INS runs over strict/soft threshold, replace-all, constant/variable draws, with/without "
                             "the independent set, logit/no reparameterisation, RealNVP/MAF, with kill+resume "
                             "histories; after every iteration, after finalise and after every resume the oracle "
                             "(vf/oracle_ins.py) re-evaluates the saved proposals at every stored sample (float32 "
                             "accuracy), recomputes the mixture density with weights = fraction of samples per "
                             "proposal, the log-weights, and re-evaluates the model; TLC requires these facts and the "
                             "column/count bookkeeping of ImportanceSampler.tla at every boundary.")


if __name__ == "__main__":
    sys.exit(main(sys.argv[1] if len(sys.argv) > 1 else "quick"))
