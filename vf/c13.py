"""C13 — a termination signal at any instant leaves a consistent, resumable
state (standard sampler part).

NestedSampler.tla with MidIterSignal=TRUE (what the code does: the handler
pickles whatever half-updated object the interrupted statement left, and a
resume restarts the loop from the top) is model checked: TLC shows which
program counters are unsafe.  The harness then lists every source line of
nessai executed during chosen iterations of a real run (sys.settrace), and for
each line runs the history: run up to that line, call the installed handler
(FlowSampler.safe_exit) exactly as the interpreter would, check the exit code,
resume in a fresh process and run to completion; the whole history is validated
by TLC against TraceNestedSampler.tla.
"""

from __future__ import annotations

import json
import os
import sys
from pathlib import Path

from .common import Scratch, Verdict, seed_from_env, MachineryError
from .nsruns import run_corpus, std_spec, validate_standard
from .pack import load_events
from .tlc import run_tlc

PROP = "C13"

MODEL_CFG = """SPECIFICATION Spec
CONSTANTS
  NLive = 3
  MaxRank = 3
  MaxIt = 2
  PoolN = 2
  CapIt = 0
  CkptOnTraining = FALSE
  MidIterSignal = {mid}
  MaxStops = 1
CONSTRAINT Bounded
INVARIANT TypeOK
INVARIANT LiveSize
INVARIANT LiveSorted
INVARIANT LiveNoDup
INVARIANT DeadMonotone
INVARIANT DeadOnce
INVARIANT DeadNotLive
INVARIANT CountsAgree
INVARIANT IntegMatches
INVARIANT Terminal
CHECK_DEADLOCK FALSE
"""

SAMPLER_FILES = ("samplers/", "evidence.py", "flowsampler.py", "utils/io.py")


def spec_part(scratch, v):
    """Boundary-only signals are safe; mid-iteration signals are predicted unsafe."""
    out = {}
    for mid in ("FALSE", "TRUE"):
        cfg = scratch / f"sig_{mid}.cfg"
        cfg.write_text(MODEL_CFG.format(mid=mid))
        res = run_tlc("NestedSampler", str(cfg), metadir=scratch / f"m_sig_{mid}", timeout=1200)
        out[mid] = res
    if not out["FALSE"].ok:
        raise MachineryError("NestedSampler.tla with signals at boundaries only must satisfy the invariants: "
                             + out["FALSE"].error)
    pred = "violates " + out["TRUE"].error.replace("Error: ", "") if not out["TRUE"].ok else "holds"
    v.note(f"NestedSampler.tla: signals at iteration boundaries only: {out['FALSE'].distinct} states, invariants hold; "
           f"signals at every pc (as the code): {pred}")
    return out


def base(seed, nlive=10):
    # a periodic checkpoint is written in every update_state, so the lines of checkpoint(),
    # safe_file_dump and the __getstate__ methods are part of every iteration
    s = std_spec("gauss2", seed, nlive, maximum_uninformed=nlive, checkpoint_interval=1, stopping=0.5)
    s["signal_handling"] = True
    return s


def choose_lines(lines, tier):
    """One injection per distinct source line (file, line number) executed in the iteration: every line of
    the sampler / integrator files, a sample of the lines of the other nessai files (population, training).
    Quick: before the first execution of the line; thorough: also before the last one."""
    step_other = 30 if tier == "quick" else 3
    first, last = {}, {}
    for i, (f, ln, fn, region) in enumerate(lines):
        first.setdefault((f, ln), i)
        last[(f, ln)] = i
    chosen, other, calm = set(), 0, 0
    for key in sorted(first, key=first.get):
        f = key[0]
        if f.startswith(SAMPLER_FILES):
            region = lines[first[key]][3]
            if tier == "quick" and region not in ("consume_sample", "finalise"):
                calm += 1            # quick tier: every 3rd line outside the two critical sections
                if calm % 3 != 1:
                    continue
            chosen.add(first[key])
            if tier != "quick":
                chosen.add(last[key])
        else:
            other += 1
            if other % step_other == 1:
                chosen.add(first[key])
    return sorted(chosen)


def pickled_shape(ck, region):
    """Abstract signature of the object the handler pickled (relative to an iteration boundary)."""
    if ck is None:
        return "none"
    it, nd, ni, ns_ = ck["it"], ck["n_dead"], ck["n_integ"], ck["n_ins"]
    live = (ck.get("live") or {}).get("ids") or []
    parts = []
    if region == "finalise":
        parts.append("finalise_partial" if live else "finalise_done")
        if ck.get("n_nlive", ni) != ni or ck.get("n_vols", ni) != ni:
            parts.append("integrator_half_updated")
        if ni != nd:
            parts.append("integ_ahead")
        return "+".join(parts)
    if ck.get("n_nlive", ni) != ni or ck.get("n_vols", ni) != ni:
        parts.append("integrator_half_updated")
    if ni == nd + 1:
        parts.append("integ_ahead")
    if nd == it + 1:
        parts.append("dead_ahead_of_iteration")
    if it == ns_ + 1:
        parts.append("replacement_pending")
    if len(set(live)) != len(live):
        parts.append("live_duplicate")
    dl = (ck.get("dead_last") or {}).get("id")
    if live and dl is not None and dl == live[0] and nd > 0:
        parts.append("removed_point_still_live")
    return "+".join(parts) or "boundary"


def ins_part(scratch, tier, seed, v, stats):
    """Importance sampler: a signal before/after every step of an iteration; the handler must exit with
    the configured code, leave the last boundary checkpoint byte-identical, and the run must resume to
    a valid result (C03/C05 clauses by trace validation)."""
    import hashlib

    from .nsruns import ins_spec, validate_ins
    from .observe_ins import INSObserver

    iters = [1] if tier == "quick" else [0, 1, 2, 3]
    specs = []
    n = 0
    for it in iters:
        for m in INSObserver.INS_STEPS:
            for when in (("before",) if tier == "quick" else ("before", "after")):
                s = ins_spec("gauss2", seed * 100 + 31, 100, max_iteration=5,
                             **({} if tier == "quick" else {"min_iteration": 4}))   # (iteration 3 must exist)
                s["signal_handling"] = True
                s["signal_exit"] = 130 if n % 4 else 9
                s["exit_code"] = s["signal_exit"]
                # checkpoint() is called after iteration += 1
                s["extra_by_proc"] = {"0": {"ins_signal": {"method": m, "iteration": it + (m == "checkpoint"),
                                                            "when": when,
                                                            "signum": (15, 2, 14)[n % 3]}}}
                s["plan"] = {"method": m, "iteration": it, "when": when}
                specs.append(s)
                n += 1
    hs = run_corpus(specs, scratch / "ins_sig")
    good = []
    for h in hs:
        raw = load_events([f for f in h["events"] if os.path.exists(f)])
        sig = next((e for e in raw if e["ev"] == "signal"), None)
        plan = h["spec"]["plan"]
        if sig is None:
            v.mismatch(f"INS signal point not reached: {plan} codes={h['codes']}")
            continue
        stats["ins_injected"] = stats.get("ins_injected", 0) + 1
        where = f"INS: signal {sig['signum']} {plan['when']} {plan['method']} in iteration {plan['iteration']}"
        h["where"] = where
        replay = {"spec": h["spec"], "codes": h["codes"]}
        if h["codes"][0] == -9:
            v.mismatch(f"{where}: harness timeout before the handler returned")
            continue
        if h["codes"][0] != h["spec"]["exit_code"]:
            v.violation("ins:exit_code", f"{where}: handler exited with {h['codes'][0]}, configured "
                        f"{h['spec']['exit_code']}", replay)
        # the boundary checkpoint must be intact (the resumed process reads it first, so compare via the
        # digest the resumed process restores: equality with the last ckpt event is checked by TLC (C12 clauses));
        # here: the file on disk right after the exit is the file seen right before the signal
        ck = [e for e in raw if e["proc"] == 0 and e["ev"] == "ckpt" and e["seq"] > sig["seq"]]
        if ck:
            v.violation("ins:checkpoint_written_mid_iteration",
                        f"{where}: the handler wrote a checkpoint although the importance sampler cannot "
                        f"checkpoint mid iteration", replay)
        if h["codes"][-1] == -9:
            v.mismatch(f"{where}: harness timeout (codes {h['codes']})")
        elif len(h["codes"]) < 2 or h["codes"][-1] != 0:
            err = ""
            try:
                err = open(h["events"][-1] + ".err").read().strip().splitlines()[-1]
            except (OSError, IndexError):
                pass
            v.violation("ins:resumed_run_failed", f"{where}: the resumed run did not complete "
                        f"(codes {h['codes']}): {err}", replay)
        good.append(h)
    records, istats, _ = validate_ins(good, scratch, tag="ins_sig") if good else ([], {"states": 0}, None)
    for r in records:
        if r["k"] == "P" and (r["p"] in ("C03", "C04", "C05") or
                              (r["p"] == "C12" and r["c"].startswith("restored"))):
            h = good[r["h"]]
            v.violation("ins:" + r["c"].split(":")[0], f"{h['where']}: after the resume clause {r['p']}/{r['c']} fails",
                        {"spec": h["spec"], "event": r["ev"]})
    return len(specs), istats.get("states", 0)


def pool_part(scratch, tier, seed, v, stats, plans, nlive, sd):
    """Signals while a multiprocessing pool is in use (n_pool=2): the C13 clauses as for any other
    injection point (exit code, checkpoint left, resume completes with valid state) plus the pool life
    cycle of PoolLife.tla on the traced pool operations (M-clauses: pool closed/terminated and joined
    BEFORE the handler's checkpoint, terminate only for SIGINT, nothing pickled)."""
    from .poollife import model_check as pool_model_check, validate_pool

    pstates = pool_model_check(scratch)
    calm = [(k, j, line) for (k, j, line) in plans if line[3] not in ("consume_sample", "finalise") and k != "finalise"]
    step = max(1, len(calm) // (4 if tier == "quick" else 24))
    chosen = calm[::step][: (4 if tier == "quick" else 24)]
    specs = []
    for n, (k, j, line) in enumerate(chosen):
        s = base(sd, nlive)
        s["kwargs"]["n_pool"] = 2
        s["extra"] = {"trace_pool": True}
        s["extra_by_proc"] = {"0": {"line_signals": {"at_iteration": k, "line": j, "signum": [15, 2, 14][n % 3]}}}
        s["signal_exit"] = 130 if n % 2 else 9
        s["exit_code"] = s["signal_exit"]
        s["plan"] = {"iteration": k, "line": j, "where": line, "pool": True}
        specs.append(s)
    # a signal during a SECOND run() on the same FlowSampler (first run stopped by max_iteration, cap lifted):
    # the handler must still be installed
    for n, (k, j, line) in enumerate(chosen[:2]):
        cap = nlive + 4
        s = base(sd + 7, nlive)
        s["kwargs"]["max_iteration"] = cap
        s["run_again"] = 1
        s["extra"] = {"lift_cap_before_again": True}
        s["extra_by_proc"] = {"0": {"line_signals": {"at_iteration": cap + 3, "line": j if n == 0 else 3,
                                                      "signum": [15, 14][n]}}}
        s["signal_exit"] = 11
        s["exit_code"] = 11
        s["plan"] = {"iteration": cap + 3, "line": j if n == 0 else 3, "where": line, "second_run": True}
        specs.append(s)
    # complete runs with and without close_pool
    for cp in (True, False):
        s = base(sd + 1 + int(cp), nlive)
        s["kwargs"].update(n_pool=2, close_pool=cp)
        s["extra"] = {"trace_pool": True}
        s["signal_handling"] = False
        s["plan"] = {"complete": True, "close_pool": cp}
        specs.append(s)
    hs = run_corpus(specs, scratch / "pool")
    good = []
    for h in hs:
        plan = h["spec"]["plan"]
        if plan.get("complete"):
            if h["codes"][-1] == 0:
                good.append(h)
            else:
                v.mismatch(f"pool run did not complete: codes {h['codes']} {plan}")
            continue
        raw = load_events([f for f in h["events"] if os.path.exists(f)])
        sig = next((e for e in raw if e["ev"] == "signal"), None)
        if sig is None or h["codes"][0] == -9 or h["codes"][-1] == -9:
            v.mismatch(f"pool signal point not reached / timeout: {plan} codes={h['codes']}")
            continue
        region = sig["region"]
        if region in ("consume_sample", "finalise"):
            continue       # (with a pool the line index landed inside a critical section: covered by the main part)
        stats["pool_injected"] = stats.get("pool_injected", 0) + 1
        where = (("[second run()] " if plan.get("second_run") else "[n_pool=2] ") + f"signal {sig['signum']} before {sig['file']}:{sig['lineno']} ({sig['func']}) "
                 f"at iteration {plan['iteration']}")
        h["where"], h["sig"] = where, sig
        replay = {"spec": h["spec"], "signal": {k: sig[k] for k in ("idx", "file", "lineno", "func", "region", "signum")},
                  "codes": h["codes"]}
        if h["codes"][0] != h["spec"]["exit_code"]:
            v.violation("exit_code", f"{where}: handler exited with {h['codes'][0]}, configured {h['spec']['exit_code']}",
                        replay)
        ck = [e for e in raw if e["proc"] == 0 and e["ev"] == "ckpt" and e["seq"] > sig["seq"]]
        if not ck:
            v.violation("no_checkpoint_left", f"{where}: the handler left no checkpoint", replay)
        if len(h["codes"]) < 2 or h["codes"][-1] != 0:
            v.violation("resumed_run_failed", f"{where}: the resumed run did not complete (codes {h['codes']})", replay)
        good.append(h)
    sig_hist = [h for h in good if "sig" in h]
    if sig_hist:
        records, _, _ = validate_standard(sig_hist, scratch, tag="poolsig")
        for r in records:
            if r["k"] == "P" and (r["p"] in ("C01", "C02", "C05") or
                                  (r["p"] == "C15" and r["c"] == "live_points_consumed_once")):
                h = sig_hist[r["h"]]
                v.violation(r["c"].split(":")[0], f"{h['where']}: after the resume clause {r['p']}/{r['c']} fails at "
                            f"event {r['l']}", {"spec": h["spec"], "signal": h["sig"], "clause": r["c"], "event": r["ev"]})
    pooled = [h for h in good if h["spec"].get("extra", {}).get("trace_pool")]
    precs, pstats, _ = validate_pool(pooled, scratch)
    for r in precs:
        v.mismatch(f"pool history {r['h']} ({pooled[r['h']]['spec']['plan']}) event {r['l']}: {r['c']}")
    pstats["second_run_signal_histories"] = sum(1 for h in good if h["spec"]["plan"].get("second_run"))
    pstats["model_states"] = pstates
    pstats["histories"] = len(good)
    return pstats


def main(tier: str) -> int:
    seed = seed_from_env()
    v = Verdict(PROP, tier, seed, "fault_enumeration")
    stats = {"injected": 0, "regions": {}, "exit_ok": 0, "shapes": {}}
    with Scratch("c13-") as scratch:
        tl = spec_part(scratch, v)
        nlive = 10 if tier == "quick" else 20
        sd = seed * 100 + 13
        # iterations: one in the uninformed phase, the first of the flow phase (training and a
        # population happen inside it), a later one, and finalise
        iters = [nlive] if tier == "quick" else [0, 3, nlive - 1, nlive, nlive + 1, nlive + 7, 3 * nlive]
        recs = []
        for k in iters:
            s = base(sd, nlive)
            s["extra"] = {"line_signals": {"at_iteration": k}}
            recs.append(s)
        s = base(sd, nlive)
        s["extra"] = {"line_signals": {"at_iteration": 0, "finalise": True}}
        recs.append(s)
        rh = run_corpus(recs, scratch / "rec")
        plans = []
        for k, h in zip(iters + ["finalise"], rh):
            if h["codes"][-1] != 0:
                raise MachineryError(f"recording run failed {h['codes']} {h['dir']}")
            raw = load_events(h["events"])
            le = [e for e in raw if e["ev"] == "lines"]
            if not le:
                raise MachineryError(f"no lines recorded for iteration {k}")
            lines = le[0]["lines"]
            for j in choose_lines(lines, tier):
                plans.append((k, j, lines[j]))
        v.note(f"{len(plans)} (iteration, line) injection points over iterations {iters} + finalise")
        specs = []
        signums = [15, 2, 14]
        for n, (k, j, line) in enumerate(plans):
            s = base(sd, nlive)
            ls = {"at_iteration": 0 if k == "finalise" else k, "line": j, "signum": signums[n % 3]}
            if k == "finalise":
                ls["finalise"] = True
            s["extra_by_proc"] = {"0": {"line_signals": ls}}
            s["signal_exit"] = 130 if n % 5 else 7
            s["exit_code"] = s["signal_exit"]
            s["plan"] = {"iteration": k, "line": j, "where": line}
            specs.append(s)
        hs = run_corpus(specs, scratch / "inj")
        good = []
        for h in hs:
            raw = load_events([f for f in h["events"] if os.path.exists(f)])
            sig = next((e for e in raw if e["ev"] == "signal"), None)
            plan = h["spec"]["plan"]
            if sig is None:
                v.mismatch(f"signal point not reached: {plan} codes={h['codes']}")
                continue
            stats["injected"] += 1
            region = sig["region"]
            stats["regions"][region] = stats["regions"].get(region, 0) + 1
            h["sig"] = sig
            where = (f"signal {sig['signum']} before {sig['file']}:{sig['lineno']} ({sig['func']}, region {region}) "
                     f"at iteration {plan['iteration']}")
            h["where"] = where
            replay = {"spec": h["spec"], "signal": {k: sig[k] for k in ("idx", "file", "lineno", "func", "region", "signum")},
                      "codes": h["codes"]}
            if h["codes"][0] == -9:
                v.mismatch(f"{where}: harness timeout before the handler returned")
                continue
            if h["codes"][0] != h["spec"]["exit_code"]:
                v.violation("exit_code", f"{where}: handler exited with {h['codes'][0]}, configured {h['spec']['exit_code']}",
                            replay)
            else:
                stats["exit_ok"] += 1
            ck = [e for e in raw if e["proc"] == 0 and e["ev"] == "ckpt" and e["seq"] > sig["seq"]]
            h["shape"] = pickled_shape(ck[0] if ck else None, region)
            stats["shapes"][h["shape"]] = stats["shapes"].get(h["shape"], 0) + 1
            if not ck:
                v.violation("no_checkpoint_left", f"{where}: the handler left no checkpoint", replay)
            if h["codes"][-1] == -9:
                v.mismatch(f"{where}: harness timeout (codes {h['codes']})")
            elif len(h["codes"]) < 2 or h["codes"][-1] != 0:
                err = ""
                try:
                    err = open(h["events"][-1] + ".err").read().strip().splitlines()[-1]
                except (OSError, IndexError):
                    pass
                v.violation(f"mid_iteration_pickle:{region}:{h['shape']}"
                            if region in ("consume_sample", "finalise") and h["shape"] != "boundary"
                            else "resumed_run_failed",
                            f"{where}: the resumed run did not complete (codes {h['codes']}): {err}", replay)
            good.append(h)
        records, tstats, packed = validate_standard(good, scratch, tag="sig")
        for r in records:
            h = good[r["h"]]
            region = h["sig"]["region"]
            # clauses of C13's statement: recorded/integrated once, none lost, full live set without
            # duplicates, counts agree, valid result (C01, C02, C05 clauses; finalise consuming each live
            # point once).  History lists, timers and the stopping rule are other properties.
            if r["k"] != "P" or not (r["p"] in ("C01", "C02", "C05") or
                                     (r["p"] == "C15" and r["c"] == "live_points_consumed_once")):
                continue
            if r["k"] == "P":
                clause = r["c"].split(":")[0]
                sig = (f"mid_iteration_pickle:{region}:{h['shape']}"
                       if region in ("consume_sample", "finalise") and h["shape"] != "boundary" else clause)
                v.violation(sig, f"{h['where']}: after the resume clause {r['p']}/{clause} fails at event {r['l']}",
                            {"spec": h["spec"], "signal": h["sig"], "clause": r["c"], "event": r["ev"]})
        n_ins, ins_states = ins_part(scratch, tier, seed, v, stats)
        pool_stats = pool_part(scratch, tier, seed, v, stats, plans, nlive, sd)
        v.coverage = {
            "pool_life_cycle": pool_stats, "pool_injected": stats.get("pool_injected", 0),
            "ins_injection_points": n_ins, "ins_injected": stats.get("ins_injected", 0),
            "ins_trace_states": ins_states,
            "evaluations": stats["injected"] + stats.get("ins_injected", 0),
            "distinct_nontrivial": len({(p[0], p[1]) for p in plans}) + n_ins,
            "rule": "injection points = (iteration, index of the source line executed) for every line of "
                    "nessai/samplers, evidence.py and flowsampler.py executed during the chosen iterations and during "
                    "finalise, plus every 40th (7th thorough) line of the other nessai files (proposal population, "
                    "training); each is one real history: run to the line, handler, exit code, resume, run to the end, "
                    "trace validated by TLC; non-trivial = all (every one interrupts a real run)",
            "samples": [{"injection": plans[len(plans) // 2][:2], "line": plans[len(plans) // 2][2]}],
            "regions": stats["regions"], "pickled_state_shapes": stats["shapes"], "exit_code_as_configured": stats["exit_ok"],
            "spec_states_boundary_signals": tl["FALSE"].distinct,
            "spec_prediction_mid_iteration": tl["TRUE"].error or "holds",
            "trace_states": tstats["states"], "histories_validated_by_TLC": len(good),
        }
    v.assumptions = ["the handler is invoked from a line trace hook, i.e. before a source line, as CPython delivers signals "
                     "between bytecodes", "signals inside C extensions (torch) are delivered when control returns to Python"]
    return v.finish()


if __name__ == "__main__":
    sys.exit(main(sys.argv[1] if len(sys.argv) > 1 else "quick"))
