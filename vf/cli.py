"""./check <id> [--tier quick|thorough] [--replay path]"""

from __future__ import annotations

import argparse
import importlib
import os
import sys
import traceback


def main() -> int:
    ap = argparse.ArgumentParser()
    ap.add_argument("prop")
    ap.add_argument("--tier", default=os.environ.get("VERIF_TIER", "quick"),
                    choices=["quick", "thorough"])
    ap.add_argument("--replay", default=None)
    a = ap.parse_args()
    prop = a.prop.upper()
    try:
        mod = importlib.import_module(f"vf.{prop.lower()}")
    except ModuleNotFoundError as ex:
        if ex.name != f"vf.{prop.lower()}":
            raise
        print(f"no check registered for {prop}", file=sys.stderr)
        return 2
    from .common import MachineryError

    try:
        if a.replay:
            return mod.replay(a.replay)
        return mod.main(a.tier)
    except MachineryError as ex:
        print(f"MACHINERY-FAILURE property={prop} {ex}", file=sys.stderr)
        return 2
    except Exception:
        traceback.print_exc()
        print(f"MACHINERY-FAILURE property={prop} unexpected exception", file=sys.stderr)
        return 2


if __name__ == "__main__":
    sys.exit(main())
