"""Life cycle of the multiprocessing pool (PoolLife.tla / TracePoolLife.tla), beyond the listed
properties: tracer installed in the runner (cfg trace_pool), packer, TLC validation.  Everything it
reports is a MODEL-MISMATCH (M-clause), never a violation."""

from __future__ import annotations

import json
from pathlib import Path

from .common import MachineryError, NCPU
from .pack import load_events
from .tlc import run_tlc, require_ok

MODEL_CFG = """SPECIFICATION Spec
CONSTANTS
  NPool = {np}
  ClosePool = {cp}
  MaxEval = 3
  MaxStops = 2
INVARIANT NeverMisused
INVARIANT NoLeakAtEnd
INVARIANT KeptOpen
INVARIANT HandlerLeavesNoWorker
INVARIANT HandlerCheckpoints
INVARIANT PickleHasNoPool
PROPERTY TerminateOnlyForSigint
PROPERTY CloseBeforeCheckpoint
CHECK_DEADLOCK FALSE
"""

TRACE_CFG = """SPECIFICATION TraceSpec
CONSTANTS
  NPool = 0
  ClosePool = TRUE
  MaxEval = 0
  MaxStops = 0
CHECK_DEADLOCK FALSE
"""


def install_pool_tracer(em):
    """Wrap multiprocessing.pool.Pool (the class nessai instantiates) and the checkpoint writer."""
    import multiprocessing.pool as mpp

    from nessai.samplers import base as sbase

    def wrap(name, ev, after=True, info=None):
        orig = getattr(mpp.Pool, name)

        def wrapper(self, *a, **k):
            r = orig(self, *a, **k)
            em.emit(ev, **(info(self, a, k) if info else {}))
            return r

        setattr(mpp.Pool, name, wrapper)

    wrap("__init__", "pool_new", info=lambda s, a, k: {"n": int(k.get("processes") or (a[0] if a else 0) or 0)})
    wrap("map", "pool_map", info=lambda s, a, k: {"n": len(a[1]) if len(a) > 1 and hasattr(a[1], "__len__") else -1})
    wrap("close", "pool_close")
    wrap("terminate", "pool_terminate")
    wrap("join", "pool_join")

    inner = sbase.safe_file_dump

    def safe_file_dump(obj, filename, *a, **k):
        r = inner(obj, filename, *a, **k)
        try:
            data = open(filename, "rb").read()
            free = b"multiprocessing" not in data
        except OSError:
            free = True
        em.emit("pool_ckpt", pool_none=bool(free))
        return r

    sbase.safe_file_dump = safe_file_dump


def pack_pool(h):
    """Events of one history relevant to the pool life cycle (+ a proc_end per process)."""
    import os

    raw = load_events([f for f in h["events"] if os.path.exists(f)])
    spec = h["spec"]
    out = []
    keep = {"start", "pool_new", "pool_map", "pool_close", "pool_terminate", "pool_join", "signal", "pool_ckpt",
            "done"}
    procs = sorted({e["proc"] for e in raw})
    for p in procs:
        for e in raw:
            if e["proc"] != p or e["ev"] not in keep:
                continue
            b = {"ev": "ckpt" if e["ev"] == "pool_ckpt" else e["ev"]}
            if e["ev"] == "signal":
                b["signum"] = int(e["signum"])
            if e["ev"] == "pool_ckpt":
                b["pool_none"] = bool(e["pool_none"])
            if e["ev"] == "done":
                b["close_pool"] = bool(spec["kwargs"].get("close_pool", True))
                b["n_pool"] = int(spec["kwargs"].get("n_pool") or 0)
            out.append(b)
        code = h["codes"][p] if p < len(h["codes"]) else -1
        out.append({"ev": "proc_end", "code": int(code),
                    "expected_code": int(spec.get("exit_code") if spec.get("exit_code") is not None else 130)})
    return out


def model_check(scratch: Path):
    states = 0
    for i, (np_, cp) in enumerate(((0, "TRUE"), (2, "TRUE"), (2, "FALSE"))):
        cfg = scratch / f"poollife_{i}.cfg"
        cfg.write_text(MODEL_CFG.format(np=np_, cp=cp))
        res = run_tlc("PoolLife", str(cfg), metadir=scratch / f"m_poollife_{i}", workers=2, timeout=600)
        require_ok(res, f"PoolLife.tla n_pool={np_} close_pool={cp}")
        states += res.distinct
    return states


def validate_pool(histories, scratch: Path, tag="pool"):
    """-> (records, stats): records are the M-clause failures printed by TracePoolLife.tla."""
    packed = [pack_pool(h) for h in histories]
    events, windows = [], []
    for p in packed:
        windows.append([len(events) + 1, len(events) + len(p)])
        events.extend(p)
    if not events:
        return [], {"states": 0, "pool_operations": 0}, packed
    tf = scratch / f"trace_{tag}.json"
    tf.write_text(json.dumps({"ev": events, "win": windows}))
    cfg = scratch / f"trace_{tag}.cfg"
    cfg.write_text(TRACE_CFG)
    res = run_tlc("TracePoolLife", str(cfg), workers=min(NCPU, max(1, len(histories))), metadir=scratch / f"mt_{tag}",
                  env={"TRACE_FILE": str(tf)}, collect_prefix="TR", timeout=1200)
    if not res.ok:
        raise MachineryError(f"pool trace validation failed to run: {res.error}\n" + "\n".join(res.stdout.splitlines()[-30:]))
    recs, done = [], set()
    for r in res.printed:
        if r["k"] == "done":
            done.add(r["tid"])
        else:
            idx = r["l"] - windows[r["tid"] - 1][0]
            recs.append({"h": r["tid"] - 1, "l": idx, "c": r["c"], "ev": packed[r["tid"] - 1][idx]
                         if 0 <= idx < len(packed[r["tid"] - 1]) else None})
    if len(done) != len(histories):
        raise MachineryError(f"pool trace validation: {len(done)} of {len(histories)} traces walked to the end")
    n_ops = sum(1 for e in events if e["ev"].startswith("pool_"))
    return recs, {"states": res.distinct, "pool_operations": n_ops,
                  "pools_created": sum(1 for e in events if e["ev"] == "pool_new")}, packed
