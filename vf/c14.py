"""C14 — seeded runs are reproducible and independent of the parallelisation
settings.

Determinism.tla (self-composition, every chunking of every batch) and
BatchEval.tla (value and count of batched evaluation independent of the
settings) are model checked; pairs of real runs are compared in lock-step by
TLC (TraceDeterminism.tla) at every iteration boundary and at the end."""

from __future__ import annotations

import json
import os
import subprocess
import sys
from concurrent.futures import ThreadPoolExecutor
from pathlib import Path

from .common import NCPU, PY, VERIF, Scratch, Verdict, seed_from_env, MachineryError
from .tlc import run_tlc, require_ok

PROP = "C14"

DET_CFG = """SPECIFICATION Spec
CONSTANTS
  MaxIt = {maxit}
  PoolN = 2
  MaxChunks = 4
  Leak = {leak}
INVARIANT SameObservations
CHECK_DEADLOCK FALSE
"""

TRACE_CFG = """SPECIFICATION TraceSpec
CHECK_DEADLOCK FALSE
"""

TINY = {"flow_config": {"n_blocks": 2, "n_neurons": 8}, "training_config": {"max_epochs": 20, "patience": 5}}


def variants(tier):
    v = [
        ("fresh process again", {}, 1),
        ("twice in one process", {}, 2),
        ("n_pool=1", {"n_pool": 1}, 1),
        ("n_pool=2", {"n_pool": 2}, 1),
        ("n_pool=3 chunksize=1", {"n_pool": 3, "likelihood_chunksize": 1}, 1),
        ("chunksize=7", {"likelihood_chunksize": 7}, 1),
        ("chunksize larger than any batch", {"likelihood_chunksize": 100000}, 1),
        ("n_pool=2 parallelise_prior", {"n_pool": 2, "parallelise_prior": True}, 1),
        ("user-supplied pool of 2", {"user_pool": True, "user_pool_size": 2}, 1),
    ]
    if tier == "thorough":
        v += [("n_pool=4", {"n_pool": 4}, 1), ("n_pool=4 chunksize=3", {"n_pool": 4, "likelihood_chunksize": 3}, 1),
              ("user pool of 3, parallel prior", {"user_pool": True, "user_pool_size": 3, "parallelise_prior": True}, 1),
              ("chunksize=2", {"likelihood_chunksize": 2}, 1)]
    return v


def run_one(cfg, d: Path):
    d.mkdir(parents=True, exist_ok=True)
    cfg = dict(cfg, output=str(d / "out"), events=str(d / "ev.ndjson"))
    (d / "cfg.json").write_text(json.dumps(cfg))
    env = dict(os.environ)
    env["PYTHONPATH"] = f"{env.get('VERIF_REPO', '/repo')}:{VERIF}"
    env.setdefault("PYTHONHASHSEED", "0")
    env["OMP_NUM_THREADS"] = "1"
    try:
        p = subprocess.run([PY, "-m", "vf.det_runner", str(d / "cfg.json")], env=env, cwd=str(VERIF),
                           capture_output=True, text=True, timeout=900)
        rc, err = p.returncode, p.stderr[-500:]
    except subprocess.TimeoutExpired:
        rc, err = -9, "timeout"
    evs = []
    if os.path.exists(cfg["events"]):
        evs = [json.loads(l) for l in open(cfg["events"]) if l.strip()]
    return {"rc": rc, "err": err, "events": evs, "cfg": cfg}


def main(tier: str) -> int:
    seed = seed_from_env()
    v = Verdict(PROP, tier, seed, "model_checking")
    with Scratch("c14-") as scratch:
        states = trans = 0
        for leak, must in (("FALSE", True), ("TRUE", False)):
            cfg = scratch / f"det_{leak}.cfg"
            cfg.write_text(DET_CFG.format(maxit=8 if tier == "quick" else 12, leak=leak))
            res = run_tlc("Determinism", str(cfg), metadir=scratch / f"m_det_{leak}", workers=4, timeout=600)
            if must:
                require_ok(res, "Determinism.tla")
                states += res.distinct
                trans += res.generated
            elif res.ok:
                raise MachineryError("Determinism.tla with Leak=TRUE should violate SameObservations (vacuity check)")
        v.note(f"Determinism.tla: {states} states (every chunking of every batch of both runs); the leaking variant is refuted")
        # real runs
        seeds = [seed * 10 + 1] if tier == "quick" else [seed * 10 + k for k in range(1, 6)]
        seeds.append(0)        # the seed 0 is a seed like any other (reproducibility only: two variants)
        jobs = []
        for sd in seeds:
            for kind, model, nlive, kw in (("standard", "dyadic2", 50, dict(TINY, maximum_uninformed=50, poolsize=100)),
                                           ("ins", "dyadic2", 100, dict(TINY, min_samples=20, max_iteration=4))):
                base = {"kind": kind, "model": model, "seed": sd, "nlive": nlive, "kwargs": kw, "parallel": {}, "repeat": 1}
                jobs.append(("base", kind, sd, base))
                for name, par, rep in variants(tier):
                    if sd == 0 and name not in ("fresh process again", "twice in one process", "n_pool=2"):
                        continue
                    if kind == "ins" and tier == "quick" and name not in ("fresh process again", "twice in one process",
                                                                            "n_pool=2", "chunksize=7",
                                                                            "n_pool=2 parallelise_prior",
                                                                            "user-supplied pool of 2"):
                        continue
                    jobs.append((name, kind, sd, dict(base, parallel=par, repeat=rep)))
        with ThreadPoolExecutor(max_workers=max(1, NCPU // 2)) as ex:
            futs = [ex.submit(run_one, j[3], scratch / f"r{i}") for i, j in enumerate(jobs)]
            results = [f.result() for f in futs]
        bases = {}
        for j, r in zip(jobs, results):
            if j[0] == "base":
                if r["rc"] != 0:
                    raise MachineryError(f"base run failed: {r['err']}")
                bases[(j[1], j[2])] = [e for e in r["events"] if e["run"] == 0]
        pairs, meta = [], []
        for j, r in zip(jobs, results):
            if j[0] == "base":
                continue
            what = {"variant": j[0], "kind": j[1], "seed": j[2], "parallel": j[3]["parallel"]}
            if r["rc"] == -9:
                v.mismatch(f"run with {what} hit the harness timeout")
                continue
            if r["rc"] != 0:
                v.violation("run_failed", f"run with {what} failed (rc={r['rc']}): {r['err'][-200:]}", {"config": j[3]})
                continue
            runs = sorted({e["run"] for e in r["events"]})
            for k in runs:
                b = [{kk: vv for kk, vv in e.items() if kk != "run"} for e in r["events"] if e["run"] == k]
                a = [{kk: vv for kk, vv in e.items() if kk != "run"} for e in bases[(j[1], j[2])]]
                pairs.append({"a": a, "b": b})
                meta.append(dict(what, run_in_process=k))
        tf = scratch / "pairs.json"
        tf.write_text(json.dumps({"pairs": pairs}))
        cfg = scratch / "tdet.cfg"
        cfg.write_text(TRACE_CFG)
        res = run_tlc("TraceDeterminism", str(cfg), metadir=scratch / "m_tdet", workers=min(NCPU, len(pairs)),
                      env={"TRACE_FILE": str(tf)}, collect_prefix="TR", timeout=1800)
        if not res.ok:
            raise MachineryError("TraceDeterminism failed to run: " + res.error + "\n" + res.stdout[-1500:])
        done = set()
        for r in res.printed:
            if r["k"] == "done":
                done.add(r["tid"])
                continue
            m = meta[r["tid"] - 1]
            p = pairs[r["tid"] - 1]
            i = r["l"] - 1
            a = p["a"][i] if i < len(p["a"]) else None
            b = p["b"][i] if i < len(p["b"]) else None
            fields = sorted(k for k in (a or {}) if b is not None and a.get(k) != b.get(k))
            sig = "final_results_differ" if (a or {}).get("ev") == "done" else "diverged_at_boundary"
            v.violation(sig, f"{m['kind']} sampler, seed {m['seed']}, variant '{m['variant']}' (run {m['run_in_process']} "
                        f"in its process): {r['c']} - event {i} fields {fields}",
                        {"variant": m, "event_index": i, "base_event": a, "variant_event": b})
        if len(done) != len(pairs):
            raise MachineryError(f"only {len(done)}/{len(pairs)} pairs consumed")
        v.coverage = {
            "states": states + res.distinct, "transitions": trans + res.generated,
            "traces_validated_against_impl": 2 * len(pairs),
            "pairs_compared": len(pairs), "events_compared": sum(min(len(p["a"]), len(p["b"])) for p in pairs),
            "variants": sorted({m["variant"] for m in meta}), "seeds": seeds,
            "samples": [{"variant": meta[0], "first_event_of_base": pairs[0]["a"][0]}] if pairs else [],
            "rule": "every variant run (same seed; other process / same process twice / pool sizes / user pool / chunk "
                    "sizes / parallel prior) is compared with the base run of the same seed event by event (digests of "
                    "nested samples, live points, integrator, evaluation counter, numpy and torch generator state) and "
                    "on the final digests of samples, weights, evidence, evaluation count; likelihood built from exactly "
                    "rounded operations",
            "exhaustive": False,
        }
    v.assumptions = ["Pool.map preserves order; OS scheduling of pool workers is exercised, not enumerated",
                     "the BatchEval.tla result (C10) supplies independence of value/count from the parallel settings at model level"]
    return v.finish()


if __name__ == "__main__":
    sys.exit(main(sys.argv[1] if len(sys.argv) > 1 else "quick"))
