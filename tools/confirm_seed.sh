#!/bin/sh
# tools/confirm_seed.sh <worktree> <property id> <name> [test paths...]
# Confirms a seeded change (left uncommitted in <worktree>): demo fails with it and passes
# on /repo, the related existing tests pass with it, and runs the registered quick check
# against it.  Stores the result under /verif/seeded/<name>/.
WT="$1"; PID="$2"; NAME="$3"; shift 3
OUT=/verif/seeded/$NAME
mkdir -p "$OUT"
git -C "$WT" diff -- nessai > "$OUT/patch.diff"
cp "$WT"/seed_out/demo.py "$OUT/demo.py" 2>/dev/null || cp "$WT"/seed_out/test_demo.py "$OUT/demo.py"
cp "$WT"/seed_out/meta.json "$OUT/agent_meta.json" 2>/dev/null
cd /tmp
PYTHONPATH="$WT" timeout 600 /venv/bin/python "$OUT/demo.py" > "$OUT/demo_with.log" 2>&1; D1=$?
PYTHONPATH=/repo timeout 600 /venv/bin/python "$OUT/demo.py" > "$OUT/demo_without.log" 2>&1; D0=$?
T=skipped
if [ $# -gt 0 ]; then
  (cd "$WT" && PYTHONPATH="$WT" timeout 2400 /venv/bin/python -m pytest -q -p no:cacheprovider --timeout=900 "$@" > "$OUT/tests.log" 2>&1); T=$?
fi
cd /verif
VERIF_EVIDENCE_DIR="$OUT/evidence" VERIF_REPLAYS_DIR="$OUT/replays" VERIF_REPO="$WT" timeout 2400 ./check "$PID" --tier quick > "$OUT/check_quick.log" 2>&1; C=$?
echo "demo_with_change_rc=$D1 demo_on_repo_rc=$D0 related_tests_rc=$T check_rc=$C"
grep -m3 "^VIOLATION" "$OUT/check_quick.log"
tail -n 1 "$OUT/check_quick.log"
cat > "$OUT/confirm.json" <<EOT
{"property": "$PID", "demo_with_change_rc": $D1, "demo_on_unmodified_repo_rc": $D0, "related_tests": "$*", "related_tests_rc": "$T", "check_cmd": "VERIF_REPO=<tree with patch> ./check $PID --tier quick", "check_rc": $C}
EOT
