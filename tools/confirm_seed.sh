#!/bin/sh
# tools/confirm_seed.sh <worktree> <property id> <name> [test paths...]
# Confirms a seeded change (left uncommitted in <worktree>): demo fails with it and passes
# on /repo, the related existing tests pass with it, and runs the registered quick check
# against it.  Stores the result under /verif/seeded/<name>/.
WT="$1"; PID="$2"; NAME="$3"; shift 3
OUT=/verif/seeded/$NAME
mkdir -p "$OUT"
git -C "$WT" diff -- nessai > "$OUT/patch.diff"
cp "$WT"/seed_out/demo.py "$OUT/demo.py" 2>/dev/null || cp "$WT"/seed_out/test_demo.py "$OUT/demo.py"
cp "$WT"/seed_out/meta.json "$OUT/agent_meta.json" 2>/dev/null
cd /tmp
PYTHONPATH="$WT" timeout 600 /venv/bin/python "$OUT/demo.py" > "$OUT/demo_with.log" 2>&1; D1=$?
PYTHONPATH=/repo timeout 600 /venv/bin/python "$OUT/demo.py" > "$OUT/demo_without.log" 2>&1; D0=$?
T=skipped
if [ $# -gt 0 ]; then
  (cd "$WT" && PYTHONPATH="$WT" timeout 2400 /venv/bin/python -m pytest -q -p no:cacheprovider --timeout=900 "$@" > "$OUT/tests.log" 2>&1); T=$?
fi
cd /verif
VERIF_EVIDENCE_DIR="$OUT/evidence" VERIF_REPLAYS_DIR="$OUT/replays" VERIF_REPO="$WT" timeout 2400 ./check "$PID" --tier quick > "$OUT/check_quick.log" 2>&1; C=$?
echo "demo_with_change_rc=$D1 demo_on_repo_rc=$D0 related_tests_rc=$T check_rc=$C"
grep -m3 "^VIOLATION" "$OUT/check_quick.log"
tail -n 1 "$OUT/check_quick.log"
cat > "$OUT/confirm.json" <<EOT
{"property": "$PID", "demo_with_change_rc": $D1, "demo_on_unmodified_repo_rc": $D0, "related_tests": "$*", "related_tests_rc": "$T", "check_cmd": "VERIF_REPO=<tree with patch> ./check $PID --tier quick", "check_rc": $C}
EOT
# meta.json: property, what the change needs to manifest, what was run (merged from agent_meta.json + confirm.json)
python3 - "$OUT" "$PID" "$NAME" <<'EOP'
import json, sys
out, pid, name = sys.argv[1:]
def load(f):
    try: return json.load(open(f"{out}/{f}"))
    except Exception: return {}
am, cf = load("agent_meta.json"), load("confirm.json")
try: viol = [l for l in open(f"{out}/check_quick.log") if l.startswith("VIOLATION")]
except Exception: viol = []
json.dump({"name": name, "property": pid, "summary": am.get("summary"), "needs_to_manifest": am.get("needs"),
           "files_changed": am.get("files"), "author_tests_run": am.get("tests_run"),
           "confirmed": {"demo_with_change_rc": cf.get("demo_with_change_rc"),
                         "demo_on_unmodified_repo_rc": cf.get("demo_on_unmodified_repo_rc"),
                         "related_existing_tests": cf.get("related_tests"),
                         "related_existing_tests_rc_with_change": cf.get("related_tests_rc")},
           "check": {"cmd": cf.get("check_cmd"), "rc_at_confirmation": cf.get("check_rc"),
                     "violation_lines_at_confirmation": len(viol),
                     "first_violation": viol[0][:400].strip() if viol else None}},
          open(f"{out}/meta.json", "w"), indent=1)
EOP
