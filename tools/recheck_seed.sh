#!/bin/sh
# tools/recheck_seed.sh <seed name> [worktree dir]
# Re-applies a stored seeded change to a scratch worktree of /repo's HEAD and re-runs the quick check of its
# property against it (expected: exit 1 with a VIOLATION line).  Nothing is written to /repo or to the evidence.
NAME="$1"; WT="${2:-/tmp/recheck_$$_$NAME}"
D=/verif/seeded/$NAME
PID=$(python3 -c "import json;print(json.load(open('$D/confirm.json'))['property'])")
git -C /repo worktree add --detach "$WT" HEAD >/dev/null 2>&1 || { echo "worktree failed"; exit 2; }
if ! git -C "$WT" apply "$D/patch.diff" 2>/dev/null; then
  git -C "$WT" apply --3way "$D/patch.diff" >/dev/null 2>&1 || { echo "$NAME $PID patch does not apply"; git -C /repo worktree remove --force "$WT"; exit 2; }
fi
cd /verif
VERIF_EVIDENCE_DIR=/tmp/recheck_ev_$$ VERIF_REPLAYS_DIR=/tmp/recheck_rp_$$ VERIF_REPO="$WT" timeout 3000 ./check "$PID" --tier quick > /tmp/recheck_$$.log 2>&1; C=$?
echo "$NAME $PID check_rc=$C $(grep -c '^VIOLATION' /tmp/recheck_$$.log) violation lines; $(tail -n1 /tmp/recheck_$$.log)"
git -C /repo worktree remove --force "$WT"
rm -rf /tmp/recheck_ev_$$ /tmp/recheck_rp_$$ /tmp/recheck_$$.log
[ $C -eq 1 ]
