#!/bin/sh
# Offline setup: syntax-check every specification; nothing is downloaded.
set -e
cd "$(dirname "$0")"
/venv/bin/python -c "import nessai, numpy, torch, mpmath, hypothesis" 
/venv/bin/python -c "import jsonschema" 2>/dev/null || \
  /venv/bin/pip install -q --no-index --find-links /opt/veriftools/wheels jsonschema || true
cd spec
for f in *.tla; do
  java -cp /opt/veriftools/tla/tla2tools.jar:/opt/veriftools/tla/CommunityModules-deps.jar tla2sany.SANY "$f" > /tmp/sany.$$ 2>&1 || { cat /tmp/sany.$$; rm -f /tmp/sany.$$; exit 1; }
  if grep -q "\*\*\* Errors\|Fatal errors\|Could not" /tmp/sany.$$; then cat /tmp/sany.$$; rm -f /tmp/sany.$$; exit 1; fi
done
rm -f /tmp/sany.$$
echo "setup ok"
