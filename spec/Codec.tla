------------------------------- MODULE Codec -------------------------------
(***************************************************************************)
(* Writing a dictionary of results (or of keyword arguments) to a file and *)
(* reading it back:                                                        *)
(*   nessai.utils.io.NessaiJSONEncoder / save_to_json        (JSON)        *)
(*   nessai.utils.io.save_dict_to_hdf5 / add_dict_to_hdf5_file /           *)
(*                   encode_for_hdf5                         (HDF5)        *)
(*   nessai.flowsampler.FlowSampler.save_results  (assembly + extension)   *)
(*   nessai.flowsampler.FlowSampler.save_kwargs   (config.json)            *)
(*                                                                         *)
(* There are no floats here.  A dictionary is a finite tree whose leaves   *)
(* are value KINDS; it is represented flat, as HDF5 does, by the set of    *)
(* its entries [path, parent, kind] (kind "dict" for an inner node, parent *)
(* "" for the top level).  For each kind and format the module states     *)
(*   the stored FORM (JSON token / HDF5 object),                           *)
(*   what a standard reader returns for it: a Python TYPE and the          *)
(*   SEMANTIC CLASS of the value that comes back,                          *)
(* and Equivalent(mem, back) is the property's "same value": the same      *)
(* paths, and on every path the semantic class of the original.  The       *)
(* Python side evaluates equality of the concrete numbers; the rule which  *)
(* (type, container) changes still count as "the same value" lives here.   *)
(***************************************************************************)
EXTENDS Integers, Sequences, FiniteSets, TLC, Json

CONSTANTS MaxDepth,    \* nesting depth of generated dictionaries, 1..3
          MaxLeaves,   \* total number of leaves of a generated dictionary, 0..3
          ExtMode      \* "run": result + {json,hdf5,h5} as FlowSampler.run does
                       \* "all": every (filename extension, extension argument)

-----------------------------------------------------------------------------
(* The grammar of kinds                                                    *)

\* (a sequence: the generator adds the leaves of a level in this order)
KindSeq ==
    <<"none",          \* None
      "float",         \* finite Python float (also timedelta.total_seconds())
      "nan", "pinf", "ninf",
      "bool", "int",
      "npint",         \* numpy integer scalar (any width, signed or not)
      "npfloat",       \* numpy floating scalar of at most 64 bits
      "nplongdouble",  \* numpy extended precision scalar
      "npbool",        \* numpy bool scalar
      "str",
      "arr0",          \* 0-d float array
      "arr1", "arr2",  \* numeric arrays (possibly empty, with NaN / inf)
      "sarr",          \* structured array (live points)
      "numlist",       \* non-empty list of Python / numpy numbers
      "emptylist",
      "arrlist",       \* list of 1-d arrays of equal length
      "raggedlist",    \* list of 1-d arrays of different lengths
      "nonelist",      \* list of numbers containing None
      "strlist",       \* list of strings
      "obj">>          \* class, function, pool, instance: not serialisable

LeafKinds == {KindSeq[i] : i \in DOMAIN KindSeq}

\* The kinds the property speaks about for RESULT files (statement of C19 and
\* what real result dictionaries contain).  The others are only promised to
\* be written readably to config.json.
ResultKinds ==
    LeafKinds \ {"npbool", "raggedlist", "nonelist", "obj"}

Kinds == LeafKinds \cup {"dict"}

\* the abstract value a kind denotes
Sem(k) ==
    CASE k = "none" -> "none"
      [] k \in {"float", "npfloat", "nplongdouble", "arr0"} -> "real"
      [] k = "nan" -> "nan"
      [] k = "pinf" -> "pinf"
      [] k = "ninf" -> "ninf"
      [] k \in {"bool", "npbool"} -> "bool"
      [] k \in {"int", "npint"} -> "integer"
      [] k = "str" -> "str"
      [] k \in {"arr1", "numlist", "emptylist"} -> "vector"
      [] k \in {"arr2", "arrlist"} -> "matrix"
      [] k = "raggedlist" -> "ragged"
      [] k = "sarr" -> "table"
      [] k = "nonelist" -> "vector_with_none"
      [] k = "strlist" -> "strvector"
      [] k = "obj" -> "object"
      [] k = "dict" -> "dict"
      [] OTHER -> "unknown"

\* a table may come back as positional records or as a dict of columns: every
\* value is recoverable
SemEq(orig, backsem) ==
    \/ backsem = orig
    \/ orig = "table" /\ backsem \in {"records", "columns"}

-----------------------------------------------------------------------------
(* JSON: json.dump(cls=NessaiJSONEncoder), read with json.load             *)

\* entry e of the dictionary handed to save_to_json
JsonForm(e) ==
    LET k == e.kind IN
    CASE k = "none" -> "null"
      [] k \in {"float", "npfloat", "nplongdouble", "arr0"} -> "real"
      [] k = "nan" -> "NaN"
      [] k = "pinf" -> "Infinity"
      [] k = "ninf" -> "-Infinity"
      [] k = "bool" -> "boolean"
      [] k \in {"int", "npint"} -> "integer"
      [] k \in {"str", "npbool", "obj"} -> "string"     \* str(obj) fall-back
      [] k \in {"arr1", "numlist", "emptylist", "nonelist", "strlist"} -> "array"
      [] k \in {"arr2", "arrlist", "raggedlist"} -> "array_of_arrays"
      [] k = "sarr" -> IF e.path = "posterior_samples" /\ e.parent = ""
                       THEN "object_of_arrays"            \* live_points_to_dict
                       ELSE "array_of_arrays"             \* ndarray.tolist()
      [] k = "dict" -> "object"
      [] OTHER -> "unknown"

JsonBack(e) ==
    LET k == e.kind
        f == JsonForm(e) IN
    CASE f = "null" -> [t |-> "NoneType", s |-> "none"]
      [] f = "real" -> [t |-> "float", s |-> "real"]       \* nplongdouble: rounded to double
      [] f = "NaN" -> [t |-> "float", s |-> "nan"]
      [] f = "Infinity" -> [t |-> "float", s |-> "pinf"]
      [] f = "-Infinity" -> [t |-> "float", s |-> "ninf"]
      [] f = "boolean" -> [t |-> "bool", s |-> "bool"]
      [] f = "integer" -> [t |-> "int", s |-> "integer"]
      [] f = "string" -> [t |-> "str", s |-> IF k = "str" THEN "str" ELSE "repr"]
      [] f = "array" -> [t |-> "list", s |-> Sem(k)]
      [] f = "array_of_arrays" -> [t |-> "list", s |-> IF k = "sarr" THEN "records" ELSE Sem(k)]
      [] f = "object_of_arrays" -> [t |-> "dict", s |-> "columns"]
      [] f = "object" -> [t |-> "dict", s |-> "dict"]
      [] OTHER -> [t |-> "unknown", s |-> "unknown"]

-----------------------------------------------------------------------------
(* HDF5: hdf5_file[path] = encode_for_hdf5(value), dicts become groups;    *)
(* read with h5py, bytes decoded, "__none__" -> None                       *)

Hdf5LeafForm(k) ==
    CASE k \in {"none", "str"} -> "string_scalar"           \* none: "__none__"
      [] k \in {"float", "nan", "pinf", "ninf", "npfloat", "nplongdouble", "arr0"} -> "float_scalar"
      [] k \in {"bool", "npbool"} -> "bool_scalar"
      [] k \in {"int", "npint"} -> "int_scalar"
      [] k \in {"arr1", "numlist", "emptylist"} -> "dataset1"
      [] k \in {"arr2", "arrlist"} -> "dataset2"
      [] k = "sarr" -> "compound1"
      [] k = "strlist" -> "string_dataset1"
      [] k \in {"raggedlist", "nonelist", "obj"} -> "RAISE"
      [] OTHER -> "unknown"

Hdf5Back(k) ==
    CASE k = "none" -> [t |-> "NoneType", s |-> "none"]
      [] k = "str" -> [t |-> "str", s |-> "str"]
      [] k \in {"float", "nan", "pinf", "ninf", "npfloat", "nplongdouble", "arr0"} -> [t |-> "npfloat", s |-> Sem(k)]
      [] k \in {"bool", "npbool"} -> [t |-> "npbool", s |-> "bool"]
      [] k \in {"int", "npint"} -> [t |-> "npint", s |-> "integer"]
      [] k \in {"arr1", "numlist", "emptylist", "arr2", "arrlist", "strlist"} -> [t |-> "ndarray", s |-> Sem(k)]
      [] k = "sarr" -> [t |-> "sarray", s |-> "table"]
      [] k = "dict" -> [t |-> "dict", s |-> "dict"]
      [] OTHER -> [t |-> "unknown", s |-> "unknown"]

\* entry e lies (transitively) in the dictionary at path p
RECURSIVE Under(_, _, _)
Under(m, e, p) ==
    IF e.parent = p THEN TRUE
    ELSE IF e.parent = "" THEN FALSE
    ELSE Under(m, CHOOSE x \in m : x.path = e.parent, p)

\* add_dict_to_hdf5_file only ever creates a group by writing a leaf below it
HasLeafBelow(m, p) == \E e \in m : e.kind # "dict" /\ Under(m, e, p)

-----------------------------------------------------------------------------
(* The dictionaries TLC generates: a chain of nested dictionaries          *)
(*   top -> "sub" -> "sub/sub", level i holding the set lv[i] of leaf      *)
(* kinds (keys are named after the kinds).  They are BUILT by actions      *)
(* (AddLeaf, Open) with one construction path per dictionary; building the *)
(* set of all of them inside the initial predicate costs TLC many minutes  *)
(* at MaxLeaves = 3 (one thread, sets of sets rebuilt at every level).     *)

DictPath(i) == CASE i = 1 -> "" [] i = 2 -> "sub" [] i = 3 -> "sub/sub"
LeafPath(i, k) == IF i = 1 THEN k ELSE DictPath(i) \o "/" \o k

Entries(lv) ==
    UNION {{[path |-> LeafPath(i, k), parent |-> DictPath(i), kind |-> k] : k \in lv[i]}
           : i \in DOMAIN lv}
    \cup {[path |-> DictPath(i), parent |-> DictPath(i - 1), kind |-> "dict"] : i \in 2..Len(lv)}

RECURSIVE NLeaves(_)
NLeaves(lv) == IF lv = <<>> THEN 0 ELSE Cardinality(Head(lv)) + NLeaves(Tail(lv))

\* membership in the language (used for the kind-trees of real results)
InLanguage(m) ==
    /\ \A e \in m : e.kind \in Kinds
    /\ \A e \in m : e.parent # "" => \E p \in m : p.path = e.parent /\ p.kind = "dict"
    /\ Cardinality({e.path : e \in m}) = Cardinality(m)

-----------------------------------------------------------------------------
(* The calls                                                               *)

Calls == {"save_results", "save_kwargs"}
FileExts == {"", "json", "hdf5", "h5", "txt"}          \* extension in the filename
ExtArgs  == {"None", "json", "hdf5", "h5", "txt"}      \* the extension argument

ExtCombos(c) ==
    IF c = "save_kwargs" THEN {<<"-", "-">>}
    ELSE IF ExtMode = "run" THEN {<<"", "json">>, <<"", "hdf5">>, <<"", "h5">>}
    ELSE FileExts \X ExtArgs

Top(p, k) == [path |-> p, parent |-> "", kind |-> k]

\* what the caller hands to the writer
\* (save_results adds the posterior samples, and the initial posterior samples
\* when the importance sampler produced them; save_kwargs adds three settings)
AssembleF(c, dd, ini) ==
    IF c = "save_results"
    THEN dd \cup {Top("posterior_samples", "sarr")}
            \cup (IF ini THEN {Top("initial_posterior_samples", "sarr")} ELSE {})
    ELSE dd \cup {Top("eps", "none"), Top("torch_dtype", "obj"), Top("importance_sampler", "bool")}

\* FlowSampler.save_results: filename "result[.fe]", argument ea
ResolveF(c, fe, ea) ==
    IF c = "save_kwargs" THEN [fmt |-> "json", fname |-> "config.json", err |-> FALSE]
    ELSE
    LET ext  == IF ea = "None" THEN fe ELSE ea
        base == IF fe = "" THEN "result" ELSE "result." \o fe
        name == IF ea # "None" /\ fe = "" THEN base \o "." \o ea ELSE base
    IN  IF ea = "None" /\ fe = "" THEN [fmt |-> "-", fname |-> "-", err |-> TRUE]
        ELSE IF ext = "json" THEN [fmt |-> "json", fname |-> name, err |-> FALSE]
        ELSE IF ext \in {"hdf5", "h5"} THEN [fmt |-> "hdf5", fname |-> name, err |-> FALSE]
        ELSE [fmt |-> "-", fname |-> "-", err |-> TRUE]

Raising(f, m) ==
    IF f = "hdf5" THEN {e.path : e \in {x \in m : x.kind # "dict" /\ Hdf5LeafForm(x.kind) = "RAISE"}}
    ELSE {}

StoredF(f, m) ==
    IF f = "json"
    THEN {[path |-> e.path, form |-> JsonForm(e)] : e \in m}
    ELSE {[path |-> e.path, form |-> Hdf5LeafForm(e.kind)] : e \in {x \in m : x.kind # "dict"}}
         \cup {[path |-> e.path, form |-> "group"] : e \in {x \in m : x.kind = "dict" /\ HasLeafBelow(m, x.path)}}

BackF(f, m) ==
    IF f = "json"
    THEN {[path |-> e.path, t |-> JsonBack(e).t, s |-> JsonBack(e).s] : e \in m}
    ELSE {[path |-> e.path, t |-> Hdf5Back(e.kind).t, s |-> Hdf5Back(e.kind).s]
          : e \in {x \in m : x.kind # "dict" \/ HasLeafBelow(m, x.path)}}

Equivalent(m, b) ==
    /\ {e.path : e \in m} = {x.path : x \in b}
    /\ \A e \in m : \A x \in b : x.path = e.path => SemEq(Sem(e.kind), x.s)

\* the paths that do not come back as the same value
Lost(m, b) ==
    {e.path : e \in {y \in m : ~ \E x \in b : x.path = y.path /\ SemEq(Sem(y.kind), x.s)}}

\* the round trip is REQUIRED to be exact for such a dictionary
Required(m) ==
    /\ \A e \in m : e.kind \in ResultKinds \cup {"dict"}
    /\ \A e \in m : e.kind = "dict" => HasLeafBelow(m, e.path)

-----------------------------------------------------------------------------
VARIABLES call, fext, earg,   \* the case (fixed by Choose)
          initial,            \* the sampler object has initial_posterior_samples
          d,                  \* the dictionary of the case
          pc,                 \* "build" -> "assemble" -> "resolve" -> "encode" -> "decode" -> "done"
          mem,                \* what is handed to the writer
          fmt, fname,         \* resolved format and file name
          stored,             \* the stored forms
          back,               \* what the reader returns
          status,             \* "-", "ok", "raised", "ext_error"
          lv, last            \* generator: the levels so far, index of the last kind added

vars == <<call, fext, earg, initial, d, pc, mem, fmt, fname, stored, back, status, lv, last>>
casev == <<call, fext, earg, initial, d>>

InitWith(c, fe, ea, ini, dd) ==
    /\ call = c /\ fext = fe /\ earg = ea /\ initial = ini /\ d = dd
    /\ pc = "assemble" /\ mem = {} /\ fmt = "-" /\ fname = "-"
    /\ stored = {} /\ back = {} /\ status = "-"
    /\ lv = <<>> /\ last = 0

Init ==
    /\ call = "-" /\ fext = "-" /\ earg = "-" /\ initial = FALSE /\ d = {}
    /\ pc = "build" /\ mem = {} /\ fmt = "-" /\ fname = "-"
    /\ stored = {} /\ back = {} /\ status = "-"
    /\ lv = <<{}>> /\ last = 0

rest == <<call, fext, earg, initial, d, mem, fmt, fname, stored, back, status>>

\* one more leaf in the innermost dictionary (kinds in the order of KindSeq)
AddLeaf(i) ==
    /\ pc = "build" /\ i > last /\ NLeaves(lv) < MaxLeaves
    /\ lv' = [lv EXCEPT ![Len(lv)] = @ \cup {KindSeq[i]}]
    /\ last' = i
    /\ UNCHANGED <<rest, pc>>

\* a nested dictionary inside the innermost one
Open ==
    /\ pc = "build" /\ Len(lv) < MaxDepth
    /\ lv' = Append(lv, {})
    /\ last' = 0
    /\ UNCHANGED <<rest, pc>>

\* the dictionary is complete: choose the call
Choose ==
    /\ pc = "build"
    /\ \E c \in Calls : \E x \in ExtCombos(c) :
       \E ini \in (IF c = "save_results" /\ ExtMode = "all" THEN BOOLEAN ELSE {FALSE}) :
          /\ call' = c /\ fext' = x[1] /\ earg' = x[2] /\ initial' = ini
    /\ d' = Entries(lv)
    /\ pc' = "assemble"
    /\ lv' = <<>> /\ last' = 0
    /\ UNCHANGED <<mem, fmt, fname, stored, back, status>>

Assemble ==
    /\ pc = "assemble"
    /\ mem' = AssembleF(call, d, initial)
    /\ pc' = "resolve"
    /\ UNCHANGED <<casev, fmt, fname, stored, back, status, lv, last>>

Resolve ==
    /\ pc = "resolve"
    /\ \E r \in {ResolveF(call, fext, earg)} :
          /\ fmt' = r.fmt /\ fname' = r.fname
          /\ IF r.err THEN pc' = "done" /\ status' = "ext_error"
                      ELSE pc' = "encode" /\ status' = status
    /\ UNCHANGED <<casev, mem, stored, back, lv, last>>

Encode ==
    /\ pc = "encode"
    /\ IF Raising(fmt, mem) # {}
       THEN pc' = "done" /\ status' = "raised" /\ stored' = stored
       ELSE pc' = "decode" /\ status' = status /\ stored' = StoredF(fmt, mem)
    /\ UNCHANGED <<casev, mem, fmt, fname, back, lv, last>>

Decode ==
    /\ pc = "decode"
    /\ back' = BackF(fmt, mem)
    /\ status' = "ok"
    /\ pc' = "done"
    /\ UNCHANGED <<casev, mem, fmt, fname, stored, lv, last>>

Next == (\E i \in DOMAIN KindSeq : AddLeaf(i)) \/ Open \/ Choose
        \/ Assemble \/ Resolve \/ Encode \/ Decode

Spec == Init /\ [][Next]_vars /\ WF_vars(Next)

-----------------------------------------------------------------------------
(* The property (C19) on the model                                         *)

TypeOK ==
    /\ pc = "build" \/ call \in Calls
    /\ pc \in {"build", "assemble", "resolve", "encode", "decode", "done"}
    /\ status \in {"-", "ok", "raised", "ext_error"}
    /\ fmt \in {"-", "json", "hdf5"}
    /\ InLanguage(d)

\* result files: every dictionary made of result kinds reads back equivalent,
\* in both formats and with all three spellings
ResultRoundTrip ==
    (pc = "done" /\ call = "save_results" /\ Required(mem) /\ status # "ext_error")
        => (status = "ok" /\ Equivalent(mem, back))

\* the three spellings a run uses are accepted and name the file accordingly
Spellings ==
    (pc = "done" /\ call = "save_results" /\ fext = "" /\ earg \in {"json", "hdf5", "h5"})
        => /\ status # "ext_error"
           /\ fname = "result." \o earg
           /\ fmt = (IF earg = "json" THEN "json" ELSE "hdf5")

\* config.json: written and readable whatever the keyword arguments hold
ConfigReadable ==
    (pc = "done" /\ call = "save_kwargs")
        => (status = "ok" /\ fmt = "json" /\ {e.path : e \in mem} = {x.path : x \in back})

\* a write only fails on kinds outside the result language, and only in HDF5
RaisesOnlyOutside ==
    status = "raised" => (fmt = "hdf5" /\ ~ Required(mem))

\* JSON never loses a path; what it loses in value is exactly the str() image
JsonLoss ==
    (pc = "done" /\ fmt = "json" /\ status = "ok")
        => \A e \in mem : e.path \in Lost(mem, back) <=> e.kind \in {"npbool", "obj"}

Terminates == <>(pc = "done")

-----------------------------------------------------------------------------
(* Export: one line per case with everything the replay compares.          *)
Short(m) == {[p |-> e.path, q |-> e.parent, k |-> e.kind] : e \in m}

CaseRecord ==
    [call |-> call, fe |-> fext, ea |-> earg, ini |-> initial, mem |-> Short(mem),
     fmt |-> fmt', fname |-> fname', status |-> status',
     stored |-> stored', back |-> back',
     raising |-> IF status' = "raised" THEN Raising(fmt, mem) ELSE {},
     req |-> Required(mem),
     lost |-> IF status' = "ok" THEN Lost(mem, back') ELSE {}]

Export ==
    (pc' = "done" /\ pc # "done") => PrintT("CASE " \o ToJson(CaseRecord))
=============================================================================
