-------------------------------- MODULE Pool --------------------------------
(***************************************************************************)
(* Population of a proposal pool by rejection sampling                     *)
(* (FlowProposal.populate, RejectionProposal.populate).                    *)
(*                                                                         *)
(* A candidate is <<id, aboveU, valid>>: aboveU is the outcome of          *)
(* comparing its normalised weight with its uniform draw                   *)
(* (log w - max log w > log u), valid says it survived the earlier filters *)
(* (inside the bounds, finite densities, above min log q).  The            *)
(* environment supplies batches of candidates.                             *)
(*   mode "batch":      each batch is normalised by its own maximum and    *)
(*                      its accepted candidates are appended, in order,    *)
(*                      until N are held (the code's default)              *)
(*   mode "accumulate": weights are accumulated over batches; acceptance   *)
(*                      is decided once over all candidates; the loop ends  *)
(*                      when enough are accepted or max_samples is passed  *)
(*   mode "single":     one batch, keep whatever is accepted (the prior    *)
(*                      rejection proposal): at most N                     *)
(***************************************************************************)
EXTENDS Integers, Sequences, FiniteSets, TLC

CONSTANTS N,          \* requested pool size
          BatchSize,  \* candidates per batch
          MaxBatches, \* exploration bound (= max_samples / BatchSize for "accumulate")
          Mode

VARIABLES cands,   \* all valid candidates proposed so far, in order: Seq(<<id, aboveU>>)
          pool,    \* the pool (sequence of ids)
          nb,      \* batches proposed
          pc       \* "loop" | "done"

vars == <<cands, pool, nb, pc>>

Accepted(cs) == SelectSeq(cs, LAMBDA c : c[2])
IdsOf(cs) == [i \in DOMAIN cs |-> cs[i][1]]
Take(q, k) == SubSeq(q, 1, IF Len(q) < k THEN Len(q) ELSE k)

Init == cands = <<>> /\ pool = <<>> /\ nb = 0 /\ pc = "loop"

\* the flags of one batch (any combination); ids are consecutive
Batches(first) ==
    {[i \in 1..BatchSize |-> <<first + i - 1, f[i]>>] : f \in [1..BatchSize -> BOOLEAN]}

Propose ==
    /\ pc = "loop" /\ nb < MaxBatches
    /\ \E b \in Batches(Len(cands) + 1) :
          /\ cands' = cands \o b
          /\ nb' = nb + 1
          /\ IF Mode = "batch"
             THEN /\ pool' = Take(pool \o IdsOf(Accepted(b)), N)
                  /\ pc' = IF Len(pool \o IdsOf(Accepted(b))) >= N THEN "done" ELSE "loop"
             ELSE IF Mode = "single"
             THEN /\ pool' = IdsOf(Accepted(b)) /\ pc' = "done"
             ELSE \* accumulate: acceptance over everything proposed so far
                  /\ pool' = Take(IdsOf(Accepted(cands \o b)), N)
                  /\ pc' = IF Len(Accepted(cands \o b)) >= N \/ nb + 1 >= MaxBatches THEN "done" ELSE "loop"

Next == Propose
Spec == Init /\ [][Next]_vars /\ WF_vars(Propose)

\* ---- C09 (structure of a population)
\* the pool is the first N accepted candidates, in proposal order, each once
PoolIsPrefix == pool = Take(IdsOf(Accepted(cands)), N)
NoDuplicates == \A i, j \in DOMAIN pool : i # j => pool[i] # pool[j]
OnlyAccepted == \A i \in DOMAIN pool : \E k \in DOMAIN cands : cands[k][1] = pool[i] /\ cands[k][2]
SizeWhenDone ==
    pc = "done" =>
        IF Mode = "batch" THEN Len(pool) = N
        ELSE IF Mode = "single" THEN Len(pool) <= BatchSize
        ELSE Len(pool) <= N /\ (Len(pool) < N => nb = MaxBatches)
\* a population is never larger than requested
NeverMore == Len(pool) <= (IF Mode = "single" THEN BatchSize ELSE N)
=============================================================================
