-------------------------- MODULE ImportanceSampler --------------------------
(***************************************************************************)
(* The importance nested sampler                                           *)
(* (nessai.samplers.importancesampler.ImportanceNestedSampler with         *)
(*  nessai.proposal.importance.ImportanceFlowProposal): the bookkeeping    *)
(* that makes the stored densities and weights of C03 meaningful - which   *)
(* proposals exist, how many samples each one contributed, how many        *)
(* density columns every stored row has - together with the stopping rule  *)
(* (C15), checkpoints, kills, signals and resumes (C12, C13).              *)
(*                                                                         *)
(* A store (training set / independent set) is abstracted to its sizes:    *)
(* n stored samples, nl of them live, nc density columns per row.  The     *)
(* order structure of a store is the subject of OrderedSamples.tla.        *)
(* counts[k] is the number of samples drawn from proposal k-2 (k = 1 is    *)
(* the prior, iteration -1); the weight of a proposal is counts/total.     *)
(* One action per statement of the loop body, in code order.               *)
(***************************************************************************)
EXTENDS Integers, Sequences, FiniteSets, TLC

CONSTANTS NInit,      \* n_initial
          NLive,      \* nlive (draws per level with constant draws)
          DrawConstant,
          Iid,        \* draw_iid_live
          MinIt, MaxIt,   \* min_iteration (-1 = none modelled as 0), max_iteration
          NCrit,      \* number of stopping criteria
          StopAny,    \* check_criteria = "any"
          MaxStops

VARIABLES s,     \* the sampler object (what a checkpoint saves)
          pc,    \* program counter of the running frame
          loc,   \* locals: nrem, nadd
          disk,  \* <<>> or <<snapshot>>
          levels,\* number of level directories with saved weights on disk
          proc

vars == <<s, pc, loc, disk, levels, proc>>

Sum(q) == LET F[i \in 0..Len(q)] == IF i = 0 THEN 0 ELSE F[i - 1] + q[i] IN F[Len(q)]

Store(n) == [n |-> n, nl |-> n, nc |-> 1]

InitS ==
    [it |-> 0, nprop |-> 1, wset |-> TRUE, counts |-> <<NInit>>,
     tr |-> Store(NInit), iid |-> Store(NInit),
     met |-> [c \in 1..NCrit |-> FALSE],    \* criterion <= tolerance (initially inf)
     fin |-> FALSE, evals |-> IF Iid THEN 2 * NInit ELSE NInit, nhist |-> 0]

Init ==
    /\ s = InitS /\ pc = "top" /\ loc = [nrem |-> 0, nadd |-> 0]
    /\ disk = <<>> /\ levels = 0
    /\ proc = [st |-> "run", stops |-> 0]

Running == proc.st = "run"
At(p) == Running /\ pc = p
Same == UNCHANGED <<disk, levels, proc>>

Reached(st) ==
    IF StopAny THEN \E c \in 1..NCrit : st.met[c] ELSE \A c \in 1..NCrit : st.met[c]

\* if self.finalised: return        (nested_sampling_loop entry, also run-again / resume)
Entry ==
    /\ At("entry")
    /\ pc' = IF s.fin THEN "done" ELSE "top"
    /\ UNCHANGED <<s, loc>> /\ Same

\* while True: if reached_tolerance and iteration >= min_iteration: break
Top ==
    /\ At("top")
    /\ pc' = IF Reached(s) /\ s.it >= MinIt THEN "finalise" ELSE "threshold"
    /\ UNCHANGED <<s, loc>> /\ Same

\* threshold = determine_log_likelihood_threshold(...); remove_samples()
\* at least one and fewer than all live samples are removed (C17)
Remove ==
    /\ At("threshold")
    /\ \E k \in 1..(s.tr.nl - 1) :
          /\ s' = [s EXCEPT !.tr.nl = @ - k, !.iid.nl = IF Iid THEN @ - k ELSE @]
          /\ loc' = [loc EXCEPT !.nrem = k]
    /\ pc' = "train" /\ Same

\* add_new_proposal(): a new flow is trained, its weights are saved in
\* levels/level_<it>/model.pt; the proposal has no weight yet
Train ==
    /\ At("train")
    /\ s' = [s EXCEPT !.nprop = @ + 1, !.wset = FALSE]
    /\ levels' = s.it + 1
    /\ pc' = "weight" /\ UNCHANGED <<loc, disk, proc>>

\* add_new_proposal_weight(iteration, n_add)
SetWeight ==
    /\ At("weight")
    /\ LET k == IF DrawConstant THEN NLive ELSE loc.nrem
       IN  /\ s' = [s EXCEPT !.counts = Append(@, k), !.wset = TRUE]
           /\ loc' = [loc EXCEPT !.nadd = k]
    /\ pc' = "draw" /\ Same

\* draw_n_samples(n): exactly n samples with one density per known proposal
Draw ==
    /\ At("draw")
    /\ s' = [s EXCEPT !.evals = @ + loc.nadd]
    /\ pc' = "cols" /\ UNCHANGED loc /\ Same

\* update_log_q: the OLD samples get the column of the new proposal; logQ, logW
UpdateColumns ==
    /\ At("cols")
    /\ s' = [s EXCEPT !.tr.nc = @ + 1]
    /\ pc' = "insert" /\ UNCHANGED loc /\ Same

\* training_samples.add_samples(new, log_q)
Insert ==
    /\ At("insert")
    /\ s' = [s EXCEPT !.tr.n = @ + loc.nadd, !.tr.nl = @ + loc.nadd]
    /\ pc' = (IF Iid THEN "iid_draw" ELSE "evidence") /\ UNCHANGED loc /\ Same

IidDraw ==
    /\ At("iid_draw")
    /\ s' = [s EXCEPT !.evals = @ + loc.nadd, !.iid.nc = @ + 1,
                      !.iid.n = @ + loc.nadd, !.iid.nl = @ + loc.nadd]
    /\ pc' = "evidence" /\ UNCHANGED loc /\ Same

\* update_evidence(); compute_stopping_criterion(): the environment decides
\* which criteria are met
Criteria ==
    /\ At("evidence")
    /\ \E m \in [1..NCrit -> BOOLEAN] : s' = [s EXCEPT !.met = m]
    /\ pc' = "history" /\ UNCHANGED loc /\ Same

\* update_history(); iteration += 1
History ==
    /\ At("history")
    /\ s' = [s EXCEPT !.nhist = @ + 1, !.it = @ + 1]
    /\ pc' = "ckpt" /\ UNCHANGED loc /\ Same

\* if checkpointing: checkpoint(periodic=True)   (due or not: environment)
Checkpoint ==
    /\ At("ckpt")
    /\ \/ disk' = <<s>>
       \/ UNCHANGED disk
    /\ pc' = IF s.it >= MaxIt THEN "finalise" ELSE "top"
    /\ UNCHANGED <<s, loc, levels, proc>>

\* finalise(): both stores consume their live samples; forced checkpoint
Finalise ==
    /\ At("finalise")
    /\ s' = [s EXCEPT !.tr.nl = 0, !.iid.nl = 0, !.fin = TRUE]
    /\ disk' = <<s'>>
    /\ pc' = "done" /\ UNCHANGED <<loc, levels, proc>>

RunAgain ==
    /\ At("done")
    /\ pc' = "entry" /\ UNCHANGED <<s, loc>> /\ Same

\* a signal: the importance sampler refuses to checkpoint mid iteration, the
\* last boundary checkpoint stays
Signal ==
    /\ Running /\ proc.stops < MaxStops
    /\ proc' = [st |-> "exited", stops |-> proc.stops + 1]
    /\ UNCHANGED <<s, pc, loc, disk, levels>>

Kill ==
    /\ Running /\ proc.stops < MaxStops
    /\ proc' = [st |-> "dead", stops |-> proc.stops + 1]
    /\ UNCHANGED <<s, pc, loc, disk, levels>>

\* FlowSampler(resume=True): the pickled sampler; the first nprop-1 level
\* directories are loaded; the density tables are recomputed if not saved
Resume ==
    /\ proc.st \in {"exited", "dead"}
    /\ s' = IF disk = <<>> THEN InitS ELSE disk[1]
    /\ pc' = "entry" /\ loc' = [nrem |-> 0, nadd |-> 0]
    /\ proc' = [proc EXCEPT !.st = "run"]
    /\ UNCHANGED <<disk, levels>>

Next ==
    \/ Entry \/ Top \/ Remove \/ Train \/ SetWeight \/ Draw \/ UpdateColumns \/ Insert
    \/ IidDraw \/ Criteria \/ History \/ Checkpoint \/ Finalise \/ RunAgain
    \/ Signal \/ Kill \/ Resume

Spec == Init /\ [][Next]_vars

-----------------------------------------------------------------------------
(* Predicates on sampler records (used on logged states by the trace spec) *)

Main(st) == IF Iid THEN st.iid ELSE st.tr

\* every row has one density per proposal of the meta-proposal
ColumnsS(st) == st.tr.nc = st.nprop /\ (Iid => st.iid.nc = st.nprop)

\* counts are the draws of every level, they add up to the stored samples,
\* so the weights counts/total sum to one
CountsS(st) ==
    /\ Len(st.counts) = st.nprop
    /\ st.counts[1] = NInit
    /\ Sum(st.counts) = Main(st).n
    /\ st.wset

LevelsS(st) == st.nprop = st.it + 1

Boundary == Running /\ pc \in {"top", "done", "entry"}

Columns   == Boundary => ColumnsS(s)
Counts    == Boundary => CountsS(s)
Levels    == Boundary => LevelsS(s)
\* every proposal the restored sampler knows has its weights on disk
DiskLevels == disk # <<>> => levels >= disk[1].nprop - 1
Finalised == (Running /\ pc = "done") => (s.fin /\ s.tr.nl = 0 /\ Main(s).n = Sum(s.counts))

\* C15: the loop stops at the first boundary at or beyond the minimum where
\* the criteria are met, or at the cap, never earlier
StopRule ==
    [][ (pc = "top" /\ pc' = "finalise") => (Reached(s) /\ s.it >= MinIt) ]_vars
NoEarlyFinalise ==
    [][ (pc = "ckpt" /\ pc' = "finalise") => s.it >= MaxIt ]_vars
KeepsGoing ==
    [][ (pc = "top" /\ pc' = "threshold") => ~(Reached(s) /\ s.it >= MinIt) ]_vars
Idempotent ==
    [][ (pc = "done" /\ Running /\ proc'.st = "run" /\ pc' # "done") => UNCHANGED <<s, disk>> ]_vars

Bounded == s.it <= MaxIt /\ s.tr.n <= NInit + (MaxIt + 1) * NLive
=============================================================================
