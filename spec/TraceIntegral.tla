--------------------------- MODULE TraceIntegral ---------------------------
(***************************************************************************)
(* Trace validation for the integrator: the calls                          *)
(*    _NSIntegralState.increment(logL, nlive=None | n)   /   finalise()    *)
(* recorded from real NestedSampler runs must be a behaviour of            *)
(* Integral.tla of kind "const":                                           *)
(*    Sample* (n = nlive), StartFinal (silent), Final^nlive (n = nlive-i), *)
(*    Close.                                                               *)
(* Hence what TLC proved about that protocol (ScheduleOnePass: the         *)
(* schedule is the one compute_weights(samples, nlive:int) rebuilds from   *)
(* the stored samples) transfers to the real sampler.                      *)
(*                                                                         *)
(* All traces are packed in one JSON document                              *)
(*   { "ev":  [ {op: "inc"|"fin", l: rank, n: count or 0 for the default} ],*)
(*     "win": [[first, last] ...],  "meta": [ {mode, nlive} ... ] }        *)
(* read once; trace tid is the window win[tid] into ev.  Log-likelihoods   *)
(* are projected to dense ranks (ties kept, -inf -> 0).  Integral is used  *)
(* with Exact = FALSE (volumes as ordinals): the numbers of these runs are *)
(* compared by the harness, the specification decides the protocol.        *)
(* A trace is accepted when TLC reaches its end in phase "closed".         *)
(***************************************************************************)
EXTENDS Integral, IOUtils

J    == JsonDeserialize(IOEnv.TRACE_FILE)
Ev   == J.ev
Win  == J.win
Meta == J.meta

VARIABLES tid, i

tvars == <<vars, tid, i>>

Say(k) == PrintT("TR " \o ToJson([k |-> k, tid |-> tid, i |-> i]))

TraceInit ==
    /\ Init
    /\ tid \in 1..Len(Win)
    /\ i = Win[tid][1]
    /\ kind = "const"
    /\ mode = Meta[tid].mode
    /\ nlive = Meta[tid].nlive

\* finalise() starts consuming live points: not a logged call
Silent ==
    /\ i <= Win[tid][2]
    /\ Ev[i].op = "inc" /\ Ev[i].n > 0
    /\ StartFinal
    /\ UNCHANGED <<tid, i>>

Consume ==
    /\ i <= Win[tid][2]
    /\ LET e == Ev[i] IN
          \/ e.op = "inc" /\ e.n \in {0, nlive} /\ Sample(e.l)
          \/ e.op = "inc" /\ e.n > 0 /\ phase = "final" /\ e.n = nlive - fi /\ Final(e.l)
          \/ e.op = "fin" /\ Close
    /\ i' = i + 1
    /\ tid' = tid

TraceDone ==
    /\ i = Win[tid][2] + 1
    /\ phase = "closed"
    /\ Say("done")
    /\ i' = i + 1
    /\ UNCHANGED <<vars, tid>>

TraceNext == Silent \/ Consume \/ TraceDone

TraceSpec == TraceInit /\ [][TraceNext]_tvars
=============================================================================
