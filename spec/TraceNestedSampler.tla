------------------------ MODULE TraceNestedSampler ------------------------
(***************************************************************************)
(* Trace validation of real runs of the standard nested sampler against    *)
(* NestedSampler.tla.  A history is the concatenation of the events of all *)
(* the OS processes that worked on one output directory (kills / signals   *)
(* and resumes in between); many histories are packed in one JSON document *)
(*   { "ev": [event...], "win": [[first, last]...] }                       *)
(* and history tid is the window win[tid].                                 *)
(*                                                                         *)
(* Events (vf/observe.py, projected by vf/pack.py):                        *)
(*   start    a process starts (fresh or resume)                           *)
(*   init     populate_live_points returned                                *)
(*   iter     consume_sample returned (the iteration boundary)             *)
(*   populate a proposal pool was filled                                   *)
(*   ckpt     a checkpoint file was written                                *)
(*   resume   FlowSampler(resume=True) rebuilt the sampler                 *)
(*   finalise finalise returned                                            *)
(*   done / done_again   run() returned (again)                            *)
(*   kill     the harness killed the process (os._exit)                    *)
(*   ll_outside  the likelihood was called outside the prior support       *)
(*   ckpt_call   checkpoint(periodic, force) returned (ScheduleOps.tla)     *)
(*                                                                         *)
(* The variables FOLLOW THE LOGGED STATE; P-clauses (clauses of the         *)
(* properties) are evaluated on it, M-clauses compare it with what the     *)
(* specification's operations compute.  Failures are printed and the walk  *)
(* continues: Say(kind, property, clause).                                 *)
(***************************************************************************)
EXTENDS NestedSampler, IOUtils, ScheduleOps, TrainPolicyOps

J   == JsonDeserialize(IOEnv.TRACE_FILE)
Ev  == J.ev
Win == J.win

VARIABLES tid, l,
          aux     \* trace-only bookkeeping: [running, base, last, doneSeen]

tvars == <<vars, tid, l, aux>>

Say(k, p, c) == PrintT("TR " \o ToJson([k |-> k, p |-> p, tid |-> tid, l |-> l, c |-> c]))
P(p, c, cond) == IF cond THEN TRUE ELSE Say("P", p, c)
M(c, cond)    == IF cond THEN TRUE ELSE Say("M", "", c)

\* ranks / ok flags of ids first seen in this event are appended (ids are dense)
RankWith(e) ==
    rank \o [k \in 1..Len(e.fresh) |-> e.fresh[k][2]]
OkWith(e, flag) ==
    ok \o [k \in 1..Len(e.fresh) |-> flag]
FreshDense(e) ==
    \A k \in 1..Len(e.fresh) : e.fresh[k][1] = Len(rank) + k

TraceInit ==
    /\ tid \in 1..Len(Win)
    /\ l = Win[tid][1]
    /\ s = FreshS(<<>>) /\ loc = NewLoc("trace")
    /\ rank = <<>> /\ ok = <<>> /\ disk = Null
    /\ proc = [st |-> "run", stops |-> 0, code |-> 0]
    /\ aux = [running |-> FALSE, last |-> "none", doneSeen |-> FALSE, itsum |-> 0, pacc |-> 0,
              obs |-> [it |-> -1, phase |-> "none", train |-> 0, lastTrain |-> 0, nhist |-> 0, pool |-> 0,
                       poolsize |-> 0]]

Keep == UNCHANGED <<loc, proc>>
Mark(name) == aux' = [aux EXCEPT !.last = name]

\* ---------------------------------------------------------------- start
EvStart(e) ==
    /\ aux' = [aux EXCEPT !.running = TRUE, !.last = "start"]
    /\ UNCHANGED <<s, rank, ok, disk>>

\* ---------------------------------------------------------------- init
EvInit(e) ==
    /\ rank' = RankWith(e) /\ ok' = OkWith(e, e.all_ok)
    /\ s' = [FreshS(e.live) EXCEPT !.evals = e.evals]
    /\ P("C01", "init_size", Len(e.live) = NLive /\ e.nlive = NLive)
    /\ P("C01", "init_sorted", NonDecreasing(e.live_ranks))
    /\ P("C01", "init_distinct", NoDup(e.live))
    /\ P("C09", "init_points_valid", e.all_ok)
    /\ P("C01", "init_counts", e.it = 0 /\ e.n_dead = 0 /\ e.n_integ = 0 /\ e.n_ins = 0)
    /\ M("init: ids dense", FreshDense(e))
    /\ P("C01", "init_iteration_field_zero", e.it_zero)
    \* a later process of the history drew a new live set although a checkpoint had been written
    /\ P("C12", "started_afresh_although_a_checkpoint_exists", disk = Null)
    /\ aux' = [aux EXCEPT !.last = "init", !.itsum = 0] /\ UNCHANGED disk

\* ---------------------------------------------------------------- iter
EvIter(e) ==
    \E rk \in {RankWith(e)} : \E okf \in {OkWith(e, e.new_ok)} :
    \E post \in {[s EXCEPT !.live = e.live,
                           !.dead = Append(s.dead, e.worst),
                           !.integ = Append(s.integ, <<e.integ_last[1], e.integ_last[2]>>),
                           !.ins = Append(s.ins, e.ins_last),
                           !.it = e.it, !.lmin = e.lmin, !.above = e.above,
                           !.evals = e.evals]} :
        /\ rank' = rk /\ ok' = okf /\ s' = post
        \* ---- C01
        /\ P("C01", "live_size", Len(e.live) = NLive)
        /\ P("C01", "live_sorted", NonDecreasing(e.live_ranks))
        /\ P("C01", "live_distinct", NoDup(e.live))
        /\ P("C01", "removed_is_minimum", Len(s.live) > 0 => e.worst = Head(s.live))
        /\ P("C01", "replace", Len(s.live) = NLive /\ e.ins_last \in 0..(NLive - 1)
                                  /\ e.new = e.live[e.ins_last + 1] /\ e.new # 0
                                  /\ ReplaceS(s, post, rk, okf))
        /\ P("C01", "new_strictly_above", e.new_rank > e.worst_rank)
        /\ P("C01", "new_prior_and_bounds", e.new_ok)
        /\ P("C01", "dead_monotone",
                Len(s.dead) > 0 => (Last(s.dead) \in DOMAIN rank /\ rank[Last(s.dead)] <= e.worst_rank))
        /\ P("C01", "dead_once", e.worst \notin Range(s.dead) /\ e.n_dead = Len(s.dead) + 1)
        /\ P("C01", "dead_not_live", e.worst \notin Range(e.live) /\ e.new \notin Range(post.dead))
        /\ P("C01", "index_is_position", e.n_ins = Len(s.ins) + 1
                                           /\ e.ins_last \in 0..(NLive - 1)
                                           /\ e.live[e.ins_last + 1] = e.new)
        /\ P("C01", "others_untouched_it", e.it_sum = aux.itsum - e.worst_it + e.new_it)
        \* ---- C02 (schedule) / C05 (counts)
        /\ P("C02", "increment_once", e.n_integ = Len(s.integ) + 1 /\ e.n_vols = e.n_integ
                                        /\ e.n_nlive = e.n_integ)
        /\ P("C02", "increment_entry", e.integ_last = <<e.worst_rank, NLive>>)
        /\ P("C05", "counts_agree", e.n_dead = e.it /\ e.n_integ = e.it /\ e.n_ins = e.it)
        /\ P("C05", "stored_values_match_model", e.new_vals_ok)
        /\ P("C05", "birth_iteration", e.new_it = e.it)
        /\ P("C12", "evaluations_cumulative", e.evals_ok)
        \* ---- C09
        /\ P("C09", "rejected_draws_unacceptable", e.draws_ok)
        \* ---- C15: the body ran, so the condition exceeded the tolerance
        /\ P("C15", "iterated_only_while_above", s.above /\ ~s.fin)
        /\ P("C15", "iteration_counter", e.it = s.it + 1 /\ e.it0 = s.it)
        \* ---- M: the step is exactly the specification's composed iteration
        \* (after a resume the restored pool hands out points already seen before the kill)
        /\ M("iter: more than the new point appeared in the live set",
             FreshDense(e) /\ Len(e.fresh) <= 1 /\ (Len(e.fresh) = 1 => e.fresh[1][1] = e.new))
        /\ M("iter: post-state differs from ConsumeF",
             (Len(s.live) = NLive /\ e.new \in 1..Len(rk))
                => [ConsumeF(s, e.new, rk, e.above) EXCEPT !.evals = e.evals] = post)
        \* ---- M: training / proposal policy of NestedSampler.tla between two boundaries
        /\ LET o == [it |-> e.it, phase |-> e.phase, train |-> e.train, lastTrain |-> e.last_train,
                     nhist |-> e.n_hist, pool |-> e.pool_left, poolsize |-> e.poolsize]
           IN  /\ (aux.obs.it >= 0 =>
                     /\ M("policy: proposal switched back to the uninformed one", PhaseMonotone(aux.obs, o))
                     /\ M("policy: flow trained while the uninformed proposal is in use", TrainOnlyInFlow(aux.obs, o))
                     /\ M("policy: more than two trainings in one iteration", TrainStep(aux.obs, o))
                     /\ M("policy: cooldown not respected",
                          CooldownRespected(aux.obs, o, e.cooldown, e.train_on_empty)))
               /\ M("policy: still uninformed after maximum_uninformed", SwitchByMaximum(o, e.max_uninformed))
               /\ M("policy: pool larger than the pool size", e.phase = "flow" => e.pool_left <= 10 * e.poolsize)
               /\ aux' = [aux EXCEPT !.last = "iter", !.itsum = e.it_sum, !.obs = o]
        /\ UNCHANGED disk

\* ---------------------------------------------------------------- populate
EvPopulate(e) ==
    /\ P("C09", "pool_in_bounds", e.in_bounds)
    /\ P("C09", "pool_prior_finite", e.prior_finite)
    /\ P("C09", "pool_prior_matches_model", e.logP_ok)
    /\ P("C09", "pool_likelihood_matches_model", e.logL_ok)
    /\ P("C09", "pool_size",
            IF e.cls \in {"RejectionProposal"} \/ e.accumulate THEN e.n <= e.N
            ELSE IF e.cls = "AnalyticProposal" THEN e.n = e.N
            ELSE e.n = e.N)
    \* with accumulate_weights the population gives up after max_samples candidates (Pool.tla, mode accumulate)
    /\ P("C09", "accumulated_pool_short_after_max_samples", e.accumulate => e.n = e.N)
    /\ P("C09", "pool_indices_each_once", e.perm)
    /\ P("C09", "pool_inside_latent_contour", e.in_contour)
    /\ Mark("populate") /\ UNCHANGED <<s, rank, ok, disk>>

\* ---- the rejection-sampling batches of a population (guarded hooks; Pool.tla)
\* acceptance IS rejection sampling with weights prior/proposal normalised by their maximum:
\* a candidate is kept iff  log w - max log w > log u
EvPBatch(e) ==
    /\ P("C09", "acceptance_is_the_rejection_rule", e.mask_ok)
    /\ P("C09", "weights_normalised_by_their_maximum", e.norm_ok)
    /\ M("pbatch: accepted count does not continue the population (Pool.tla, mode batch)",
         (e.mode = "batch" /\ e.n_before > 0) => e.n_before = aux.pacc)
    /\ aux' = [aux EXCEPT !.pacc = IF e.mode = "batch"
                                   THEN (IF e.n_before <= 0 THEN 0 ELSE aux.pacc) + e.n_acc
                                   ELSE e.n_acc]
    /\ UNCHANGED <<s, rank, ok, disk>>

\* the pool is the first N accepted candidates, in proposal order (Pool.tla: PoolIsPrefix, SizeWhenDone)
EvPPool(e) ==
    /\ P("C09", "pool_is_the_first_N_accepted_in_order", e.prefix_ok)
    /\ P("C09", "flow_pool_has_exactly_the_requested_size", e.accumulate \/ e.n = e.n_target)
    /\ P("C09", "pool_never_larger_than_requested", e.n <= e.n_target)
    /\ M("ppool: size is not min(N, accepted)", e.n = (IF aux.pacc < e.n_target THEN aux.pacc ELSE e.n_target))
    /\ UNCHANGED <<s, rank, ok, disk, aux>>

EvOutside(e) ==
    /\ P("C09", "likelihood_called_outside_support", FALSE)
    /\ UNCHANGED <<s, rank, ok, disk, aux>>

\* ---------------------------------------------------------------- ckpt
\* The pickled object is the CURRENT object.  At an iteration boundary that is
\* s; a checkpoint taken inside an iteration (signal handler, training inside
\* the critical section) may have one more dead point / integrator entry /
\* insertion index than the last boundary: rebuild it from the logged tails.
Pickled(e) ==
    [s EXCEPT !.evals = e.evals, !.nckpt = e.nckpt, !.it = e.it, !.fin = e.fin,
              !.live = IF e.live_none THEN <<>> ELSE e.live,
              !.dead = IF e.n_dead = Len(s.dead) + 1 THEN Append(s.dead, e.dead_last) ELSE s.dead,
              !.integ = IF e.n_integ = Len(s.integ) + 1
                        THEN Append(s.integ, <<e.integ_last[1], e.integ_last[2]>>) ELSE s.integ,
              !.ins = IF e.n_ins = Len(s.ins) + 1 THEN Append(s.ins, e.ins_last) ELSE s.ins]

\* the last three snapshots are kept: a resume may fall back to an older file (<file>.old)
KeepLast(q, k) == IF Len(q) <= k THEN q ELSE SubSeq(q, Len(q) - k + 1, Len(q))

EvCkpt(e) ==
    /\ disk' = KeepLast(Append(disk, Pickled(e)), 3)
    /\ rank' = RankWith(e) /\ ok' = OkWith(e, TRUE)
    /\ M("ckpt: pickled state is not the last iteration boundary (mid-iteration checkpoint)",
         e.it = s.it /\ e.n_dead = Len(s.dead) /\ e.n_integ = Len(s.integ) /\ e.n_ins = Len(s.ins)
         /\ (e.live_none \/ e.live = s.live))
    /\ M("ckpt: pickled state is more than one sub-step sequence away from the last boundary",
         e.n_dead \in {Len(s.dead), Len(s.dead) + 1} /\ e.n_integ \in {Len(s.integ), Len(s.integ) + 1}
         /\ e.n_ins \in {Len(s.ins), Len(s.ins) + 1})
    /\ P("C12", "sampling_time_cumulative", e.time_ok)
    /\ Mark("ckpt") /\ UNCHANGED <<s>>

\* ------------------------------------------------------------- ckpt_call
\* every call of checkpoint(periodic, force): the schedule of Schedule.tla
\* (cur/last in iterations, or in milliseconds of this process's clock;
\* near = the time comparison is within the observer's clock skew)
CkptCallClauses(e) ==
    LET due == Due(e.cur, e.last0, e.interval) IN
    /\ M("schedule: a file is written iff the call is a signal's, forced, or due (ScheduleOps.Writes)",
         e.near \/ e.wrote = Writes(e.periodic, e.force, due))
    /\ M("schedule: _last_checkpoint after the call is not ScheduleOps.LastAfter",
         e.near \/ e.last1 = LastAfter(e.periodic, e.force, due, e.cur, e.last0))
    /\ M("schedule: _last_checkpoint lies in the future", e.last0 <= e.cur)

EvCkptCall(e) ==
    /\ CkptCallClauses(e)
    /\ UNCHANGED <<s, rank, ok, disk, aux>>

\* ---------------------------------------------------------------- resume
EvResume(e) ==
    /\ P("C12", "resumed_from_a_checkpoint", disk # Null)
    /\ IF disk # Null
       THEN LET cands == {k \in DOMAIN disk : disk[k].it = e.it /\ Len(disk[k].dead) = e.n_dead}
                k == IF cands = {} THEN Len(disk) ELSE CHOOSE x \in cands : \A y \in cands : y <= x
                d == disk[k]
            IN  /\ s' = d
                /\ P("C12", "restored_the_latest_checkpoint", k = Len(disk))
                /\ P("C12", "restored_iteration", e.it = d.it)
                /\ P("C12", "restored_live", (e.live_none /\ d.live = <<>>) \/ e.live = d.live)
                /\ P("C12", "restored_counts", e.n_dead = Len(d.dead) /\ e.n_integ = Len(d.integ)
                                                 /\ e.n_ins = Len(d.ins) /\ e.fin = d.fin)
                /\ P("C12", "restored_evaluations", e.evals = d.evals)
                /\ P("C12", "restored_digest:" \o e.digest_diff, e.digest_ok \/ k # Len(disk))
                /\ M("schedule: restored _last_checkpoint is not the pickled one", e.sched_ok \/ k # Len(disk))
       ELSE s' = s
    /\ rank' = RankWith(e) /\ ok' = OkWith(e, TRUE)
    /\ aux' = [aux EXCEPT !.last = "resume", !.itsum = e.it_sum, !.obs.it = -1] /\ UNCHANGED disk

\* ---------------------------------------------------------- train policy
\* check_training() and train_proposal() against the decision functions of TrainPolicy.tla
EvTrainCheck(e) ==
    /\ M("train policy: check_training() is not TrainPolicy.Decision",
         <<e.train, e.force>> = Decision(e.completed, e.populated, e.train_on_empty, e.populating, e.acc_low,
                                         e.retrain_acc, e.it, e.last, e.freq))
    /\ UNCHANGED <<s, rank, ok, disk, aux>>

EvTrainCall(e) ==
    /\ M("train policy: train_proposal trains iff forced or cooled down (TrainPolicy.Trains)",
         e.trained = Trains(e.force, e.it, e.last, e.cooldown))
    /\ M("train policy: reset of weights / permutations is not TrainPolicy.ResetFlags",
         e.trained => <<e.reset_w, e.reset_p>> = ResetFlags(e.tc, e.reset_acc, e.acc_low, e.rw, e.rp))
    /\ M("train policy: size of the training data is not TrainPolicy.DataSize",
         e.trained => e.data_n = DataSize(e.n_live, e.n_dead, e.memory))
    /\ UNCHANGED <<s, rank, ok, disk, aux>>

\* -------------------------------------------------------- resume_checked
\* check_resume() ran in the resumed process: the restored proposal pool is usable (flagged populated
\* with indices left) exactly if it was when the checkpoint was written - a pool invalidated by a
\* training (left-over indices) must not be resurrected
EvResumeChecked(e) ==
    /\ P("C12", "restored_pool_usable_as_when_checkpointed", e.pool_eff_ok)
    /\ UNCHANGED <<s, rank, ok, disk, aux>>

\* ---------------------------------------------------------------- finalise
EvFinalise(e) ==
    \E post \in {[s EXCEPT !.dead = s.dead \o e.dead_tail,
                           !.integ = s.integ \o [k \in 1..Len(e.integ_tail) |->
                                                   <<e.integ_tail[k][1], e.integ_tail[k][2]>>],
                           !.live = <<>>, !.fin = TRUE, !.evals = e.evals]} :
        /\ s' = post
        \* (prior_sampling=True: the run is the initial live set, finalised at once by design)
        /\ P("C15", "finalised_only_when_converged", e.prior_sampling \/ (~s.above /\ ~s.fin))
        /\ P("C15", "live_points_consumed_once", e.dead_tail = s.live /\ e.pre_live = s.live
                                                   /\ e.n_dead = Len(s.dead) + NLive /\ e.live_none)
        /\ P("C02", "finalise_schedule",
                Len(e.integ_tail) = Len(s.live) /\
                \A k \in 1..Len(e.integ_tail) :
                    e.integ_tail[k] = <<rank[s.live[k]], NLive - (k - 1)>>)
        /\ P("C05", "final_counts", e.n_integ = e.n_dead /\ e.n_dead = s.it + NLive)
        /\ M("finalise: not the composition of FinaliseOneF",
             Len(s.live) = NLive =>
                \A k \in 1..NLive : post.dead[Len(s.dead) + k] = s.live[k])
        /\ Mark("finalise") /\ UNCHANGED <<rank, ok, disk>>

\* ---------------------------------------------------------------- done
Facts(e) ==
    /\ P("C05", "ascending", e.ascending)
    /\ P("C05", "number_of_samples", e.count_ok /\ e.n_returned = (IF e.fin THEN e.it + NLive ELSE e.it))
    /\ P("C05", "evidence_recomputed", e.logZ_ok)
    /\ P("C05", "uncertainty_recomputed", e.logZ_err_ok)
    /\ P("C05", "weights_recomputed", e.weights_ok)
    /\ P("C02", "volumes_recomputed", e.vols_ok)
    /\ P("C05", "likelihoods_match_model", e.logL_model_ok)
    /\ P("C05", "priors_match_model", e.logP_model_ok /\ e.in_bounds_ok)
    /\ P("C05", "birth_strictly_below", e.birth_ok)
    /\ P("C05", "result_dictionary", e.dict_ok)
    /\ P("C16", "posterior_subset", e.posterior_subset)
    /\ P("C15", "history_reports_compared_values", e.history_ok)
    /\ M("done: oracle failed", ~e.oracle_error)

EvDone(e) ==
    /\ Facts(e)
    \* a later process resumed from the final checkpoint: same results, no new evaluations
    /\ P("C15", "resume_after_finish_same_result", e.same_as_done)
    /\ P("C05", "state_counts", e.n_dead = Len(s.dead) /\ e.n_integ = Len(s.integ) /\ e.it = s.it
                                  /\ e.n_ins = Len(s.ins))
    /\ P("C12", "sampling_time_cumulative", e.time_ok)
    /\ P("C12", "evaluations_cumulative", e.evals_ok)
    /\ P("C15", "stopped_by_rule", e.fin \/ s.above)   \* not finalised => stopped by the cap only
    /\ aux' = [aux EXCEPT !.last = "done", !.doneSeen = TRUE]
    /\ UNCHANGED <<s, rank, ok, disk>>

EvDoneAgain(e) ==
    /\ Facts(e)
    /\ P("C15", "run_again_same_result", e.same_as_done)
    /\ P("C15", "run_again_no_new_iteration", e.it = s.it /\ e.n_dead = Len(s.dead))
    /\ Mark("done_again")
    /\ UNCHANGED <<s, rank, ok, disk>>

EvOther(e) == UNCHANGED <<s, rank, ok, disk, aux>>

TraceStep ==
    /\ l <= Win[tid][2]
    /\ LET e == Ev[l] IN
         CASE e.ev = "start"      -> EvStart(e)
           [] e.ev = "init"       -> EvInit(e)
           [] e.ev = "iter"       -> EvIter(e)
           [] e.ev = "populate"   -> EvPopulate(e)
           [] e.ev = "ll_outside" -> EvOutside(e)
           [] e.ev = "pbatch"     -> EvPBatch(e)
           [] e.ev = "ppool"      -> EvPPool(e)
           [] e.ev = "ckpt"       -> EvCkpt(e)
           [] e.ev = "ckpt_call"  -> EvCkptCall(e)
           [] e.ev = "resume"     -> EvResume(e)
           [] e.ev = "resume_checked" -> EvResumeChecked(e)
           [] e.ev = "train_check" -> EvTrainCheck(e)
           [] e.ev = "train_call"  -> EvTrainCall(e)
           [] e.ev = "finalise"   -> EvFinalise(e)
           [] e.ev = "done"       -> EvDone(e)
           [] e.ev = "done_again" -> EvDoneAgain(e)
           [] OTHER               -> EvOther(e)
    /\ l' = l + 1 /\ tid' = tid /\ Keep

TraceDone ==
    /\ l = Win[tid][2] + 1
    /\ Say("done", "", "")
    /\ l' = l + 1
    /\ UNCHANGED <<vars, tid, aux>>

TraceNext == TraceStep \/ TraceDone
TraceSpec == TraceInit /\ [][TraceNext]_tvars
=============================================================================
