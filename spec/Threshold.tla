------------------------------ MODULE Threshold ------------------------------
(***************************************************************************)
(* The next likelihood level of the importance nested sampler              *)
(* (nessai.samplers.importancesampler.ImportanceNestedSampler):            *)
(*                                                                         *)
(*   determine_log_likelihood_threshold   -- machine 1 ("clamp")           *)
(*   determine_threshold_entropy          -- machine 2 ("cut")             *)
(*                                                                         *)
(* Machine 1.  The live samples are sorted by likelihood; the method       *)
(* (entropy or quantile) proposes a 0-based index n0 = "number of live     *)
(* samples to discard"; the code then clamps it with min_samples,          *)
(* min_remove and (constant draws + cap) max_samples and returns           *)
(* samples[n]["logL"].  Everything is integer arithmetic on                *)
(*   n0, size, minS, minR, maxS (0 = None), nlive, const.                  *)
(* One action per branch of the code, so that TLC's coverage shows that    *)
(* every branch is exercised, plus the pure operator Clamp that the        *)
(* theorems are stated on (and that Apalache checks for unbounded          *)
(* integers: the section between the PURE markers uses Integers only;      *)
(* vf/c17.py wraps it into a typed module).  Three TLC runs: SpecClamp      *)
(* (every finished call exported for replay), SpecClamp on small constants *)
(* with termination and per-action coverage, InitFn/NextFn (the function   *)
(* alone on larger constants).                                             *)
(*                                                                         *)
(* Machine 2.  determine_threshold_entropy on integer-valued weights: the  *)
(* cumulative sums, the "cdf.sum() == 0 -> arange" rule, the division by   *)
(* the last cumulative sum (sign, zero) and argmax of the mask (all false  *)
(* -> 0) are exact integer arithmetic; -inf log-weights are the sentinel   *)
(* NI.  The weight vectors are the shapes named in the property: all       *)
(* equal, one dominant, some -inf, increasing, decreasing (lengths          *)
(* 1..MaxLen) and every vector over a small alphabet (lengths 1..MaxAny).  *)
(* The quantile cut needs the incomplete beta function; the specification  *)
(* only carries its index rule (ArgmaxGE) and the Python side supplies     *)
(* the real-number oracle (mpmath).                                        *)
(***************************************************************************)
EXTENDS Integers, Sequences, FiniteSets, Functions, TLC, Json

CONSTANTS MaxSize,    \* live-set sizes 1..MaxSize
          MaxMin,     \* min_samples 1..MaxMin, min_remove 0..MaxMin
          MaxLive,    \* nlive 1..MaxLive
          MaxCap,     \* max_samples 0..MaxCap (0 = None)
          MaxLen,     \* named weight shapes of lengths 1..MaxLen
          MaxAny      \* all vectors over the alphabet for lengths 1..MaxAny

VARIABLES size, minS, minR, maxS, nlive, const,  \* configuration (self.* and samples.size)
          n0,      \* what determine_threshold_<method> returned (-1: not yet)
          n,       \* the local variable n of the code
          pc,
          res,     \* [kind |-> "logL" | "zero" | "IndexError" | "none", idx]
          \* ---- machine 2
          kind, v, lin, qn, qd, cut

cvars == <<size, minS, minR, maxS, nlive, const>>
svars == <<kind, v, lin, qn, qd, cut>>
vars  == <<size, minS, minR, maxS, nlive, const, n0, n, pc, res, kind, v, lin, qn, qd, cut>>

\* ---- BEGIN PURE ----
(***************************************************************************)
(* determine_log_likelihood_threshold as a function.  Arguments in the     *)
(* order (k0, sz, ms, mr, cap, nl, cd) = (n0, samples.size, min_samples,   *)
(* min_remove, max_samples or 0, nlive, draw_constant).                    *)
(***************************************************************************)
Max0(x) == IF x > 0 THEN x ELSE 0

\* "if n == 0: if self.min_remove < 1: return 0  else: n = 1"
ZeroReturns(k0, mr) == k0 = 0 /\ mr < 1
Eff(k0, mr) == IF k0 = 0 /\ mr >= 1 THEN 1 ELSE k0

\* "if (size - n) < min_samples: n = max(0, size - min_samples)
\*  elif n < min_remove: n = min_remove"
AfterMin(k1, sz, ms, mr) ==
    IF sz - k1 < ms THEN Max0(sz - ms)
    ELSE IF k1 < mr THEN mr
    ELSE k1

\* "if draw_constant and max_samples and (size - n) + nlive > max_samples:
\*      n = size - max_samples + nlive"
Capped(k2, sz, cap, nl, cd) == cd /\ cap # 0 /\ (sz - k2) + nl > cap
AfterMax(k2, sz, cap, nl, cd) ==
    IF Capped(k2, sz, cap, nl, cd) THEN sz - cap + nl ELSE k2

Clamp(k0, sz, ms, mr, cap, nl, cd) ==
    AfterMax(AfterMin(Eff(k0, mr), sz, ms, mr), sz, cap, nl, cd)

(***************************************************************************)
(* The clauses of the property for a candidate index k.  "The method's own *)
(* choice" is the choice after the code's n0 = 0 rule (e = Eff(n0)): with   *)
(* min_remove >= 1 a proposal to remove nothing is read as "remove one".    *)
(***************************************************************************)
ClLive(k, sz) == 0 <= k /\ k < sz
ClMinSamples(k, e, sz, ms) == (sz >= ms /\ sz - e < ms) => sz - k = ms
ClMinRemove(k, e, sz, ms, mr) == (sz - e >= ms) => k >= mr
ClMaxSamples(k, sz, cap, nl, cd) == (cd /\ cap # 0) => (sz - k) + nl <= cap

Clauses(k, k0, sz, ms, mr, cap, nl, cd) ==
    /\ ClLive(k, sz)
    /\ ClMinSamples(k, Eff(k0, mr), sz, ms)
    /\ ClMinRemove(k, Eff(k0, mr), sz, ms, mr)
    /\ ClMaxSamples(k, sz, cap, nl, cd)

\* the same with the un-promoted n0 (the most literal reading of the statement)
LiteralClauses(k, k0, sz, ms, mr, cap, nl, cd) ==
    /\ ClLive(k, sz)
    /\ ClMinSamples(k, k0, sz, ms)
    /\ ClMinRemove(k, k0, sz, ms, mr)
    /\ ClMaxSamples(k, sz, cap, nl, cd)

\* inputs the property quantifies over
Pre(k0, sz, ms, mr, cap, nl) ==
    sz >= 1 /\ 0 <= k0 /\ k0 < sz /\ ms >= 1 /\ mr >= 1 /\ cap >= 0 /\ nl >= 1

(***************************************************************************)
(* The precise domain (found by model checking, see ThTight): the clauses  *)
(* are jointly satisfiable by SOME index, i.e.                             *)
(*  - the choice leaves >= min_samples: min_remove <= size - 1;            *)
(*  - constant draws with a cap: max_samples >= nlive + 1, and              *)
(*    max_samples >= min_samples + nlive when the min_samples branch        *)
(*    applies.                                                              *)
(***************************************************************************)
Dom(k0, sz, ms, mr, cap, nl, cd) ==
    /\ Pre(k0, sz, ms, mr, cap, nl)
    /\ (sz - Eff(k0, mr) >= ms) => mr <= sz - 1
    /\ (cd /\ cap # 0) => cap >= nl + 1
    /\ (cd /\ cap # 0 /\ sz >= ms /\ sz - Eff(k0, mr) < ms) => cap >= ms + nl

\* the four theorems of C17 on the function
TheoremClamp(k0, sz, ms, mr, cap, nl, cd) ==
    Dom(k0, sz, ms, mr, cap, nl, cd) =>
        Clauses(Clamp(k0, sz, ms, mr, cap, nl, cd), k0, sz, ms, mr, cap, nl, cd)

\* when does samples[n] raise IndexError (n is never negative)
Raises(k0, sz, ms, mr, cap, nl, cd) ==
    LET k1 == Eff(k0, mr)
        k2 == AfterMin(k1, sz, ms, mr)
    IN  \/ Capped(k2, sz, cap, nl, cd) /\ cap <= nl
        \/ ~Capped(k2, sz, cap, nl, cd) /\ sz - k1 >= ms /\ k1 < mr /\ mr >= sz

TheoremRaises(k0, sz, ms, mr, cap, nl, cd) ==
    Pre(k0, sz, ms, mr, cap, nl) =>
        LET k == Clamp(k0, sz, ms, mr, cap, nl, cd)
        IN  /\ k >= 0
            /\ (k >= sz) <=> Raises(k0, sz, ms, mr, cap, nl, cd)

\* the literal reading differs in exactly one family: n0 = 0 and size = min_samples,
\* where the code keeps exactly min_samples (removes nothing)
TheoremLiteral(k0, sz, ms, mr, cap, nl, cd) ==
    Dom(k0, sz, ms, mr, cap, nl, cd) =>
        LET k == Clamp(k0, sz, ms, mr, cap, nl, cd)
        IN  IF k0 = 0 /\ sz = ms
            THEN k = 0 /\ sz - k = ms
            ELSE LiteralClauses(k, k0, sz, ms, mr, cap, nl, cd)
\* ---- END PURE ----

\* tightness of Dom (bounded quantifier: TLC only)
Satisfiable(k0, sz, ms, mr, cap, nl, cd) ==
    \E k \in 0..(sz - 1) : Clauses(k, k0, sz, ms, mr, cap, nl, cd)

-----------------------------------------------------------------------------
(* Machine 1: determine_log_likelihood_threshold, one action per branch    *)

NoRes == [kind |-> "none", idx |-> -1]
NoShape == <<>>

InitClamp ==
    /\ size \in 1..MaxSize
    /\ minS \in 1..MaxMin
    /\ minR \in 0..MaxMin
    /\ maxS \in 0..MaxCap
    /\ nlive \in 1..MaxLive
    /\ const \in BOOLEAN
    \* nlive and the cap are only read under draw_constant and max_samples
    /\ (~const \/ maxS = 0) => nlive = 1
    /\ ~const => maxS <= 2
    /\ n0 = -1 /\ n = -1 /\ pc = "method" /\ res = NoRes
    /\ kind = "clamp" /\ v = NoShape /\ lin = FALSE /\ qn = 0 /\ qd = 1 /\ cut = -1

\* the entropy / quantile method returns some index of the live set
\* (argmax of a mask over the samples: 0..size-1, 0 when the mask is all false)
Method ==
    /\ pc = "method"
    /\ \E k \in 0..(size - 1) : n0' = k /\ n' = k
    /\ pc' = "zero"
    /\ UNCHANGED <<cvars, res, svars>>

ZeroReturn ==
    /\ pc = "zero" /\ n = 0 /\ minR < 1
    /\ res' = [kind |-> "zero", idx |-> 0] /\ pc' = "done"
    /\ UNCHANGED <<cvars, n0, n, svars>>

ZeroRule ==
    /\ pc = "zero" /\ n = 0 /\ ~(minR < 1)
    /\ n' = 1 /\ pc' = "min"
    /\ UNCHANGED <<cvars, n0, res, svars>>

NonZero ==
    /\ pc = "zero" /\ n # 0
    /\ pc' = "min"
    /\ UNCHANGED <<cvars, n0, n, res, svars>>

MinSamples ==
    /\ pc = "min" /\ size - n < minS
    /\ n' = Max0(size - minS) /\ pc' = "cap"
    /\ UNCHANGED <<cvars, n0, res, svars>>

MinRemove ==
    /\ pc = "min" /\ ~(size - n < minS) /\ n < minR
    /\ n' = minR /\ pc' = "cap"
    /\ UNCHANGED <<cvars, n0, res, svars>>

KeepChoice ==
    /\ pc = "min" /\ ~(size - n < minS) /\ ~(n < minR)
    /\ pc' = "cap"
    /\ UNCHANGED <<cvars, n0, n, res, svars>>

Override ==
    /\ pc = "cap" /\ const /\ maxS # 0 /\ (size - n) + nlive > maxS
    /\ n' = size - maxS + nlive /\ pc' = "index"
    /\ UNCHANGED <<cvars, n0, res, svars>>

NoOverride ==
    /\ pc = "cap" /\ ~(const /\ maxS # 0 /\ (size - n) + nlive > maxS)
    /\ pc' = "index"
    /\ UNCHANGED <<cvars, n0, n, res, svars>>

\* samples[n]["logL"]: numpy indexing (a negative n would wrap around)
Index ==
    /\ pc = "index" /\ 0 <= n /\ n < size
    /\ res' = [kind |-> "logL", idx |-> n] /\ pc' = "done"
    /\ UNCHANGED <<cvars, n0, n, svars>>

IndexWrap ==
    /\ pc = "index" /\ n < 0 /\ n >= -size
    /\ res' = [kind |-> "logL", idx |-> size + n] /\ pc' = "done"
    /\ UNCHANGED <<cvars, n0, n, svars>>

IndexRaise ==
    /\ pc = "index" /\ (n >= size \/ n < -size)
    /\ res' = [kind |-> "IndexError", idx |-> n] /\ pc' = "done"
    /\ UNCHANGED <<cvars, n0, n, svars>>

NextClamp ==
    \/ Method
    \/ ZeroReturn \/ ZeroRule \/ NonZero
    \/ MinSamples \/ MinRemove \/ KeepChoice
    \/ Override \/ NoOverride
    \/ Index \/ IndexWrap \/ IndexRaise

SpecClamp == InitClamp /\ [][NextClamp]_vars /\ WF_vars(NextClamp)

\* The function alone (larger constants): every input is an initial state just
\* after the method's choice, nothing moves; ThFunction, ThTight and ThSolved
\* are evaluated on each of them.
InitFn ==
    /\ size \in 1..MaxSize
    /\ minS \in 1..MaxMin
    /\ minR \in 0..MaxMin
    /\ maxS \in 0..MaxCap
    /\ nlive \in 1..MaxLive
    /\ const \in BOOLEAN
    /\ (~const \/ maxS = 0) => nlive = 1
    /\ ~const => maxS <= 2
    /\ n0 \in 0..(size - 1) /\ n = n0 /\ pc = "zero" /\ res = NoRes
    /\ kind = "clamp" /\ v = NoShape /\ lin = FALSE /\ qn = 0 /\ qd = 1 /\ cut = -1
NextFn == UNCHANGED vars

Done == pc = "done"
TerminatesClamp == <>Done

\* ---- invariants of machine 1 (evaluated where the call has returned)
InDom == Dom(n0, size, minS, minR, maxS, nlive, const)
Eff0 == Eff(n0, minR)

TypeOK ==
    /\ pc \in {"method", "zero", "min", "cap", "index", "done"}
    /\ (pc # "method") => n0 \in 0..(size - 1)
    /\ (pc \in {"min", "cap", "index"}) => n >= 0        \* IndexWrap is dead code

\* the step machine and the function agree
MachineIsClamp ==
    Done =>
        IF ZeroReturns(n0, minR) THEN res.kind = "zero"
        ELSE /\ n = Clamp(n0, size, minS, minR, maxS, nlive, const)
             /\ res.kind = (IF n < size THEN "logL" ELSE "IndexError")
             /\ res.idx = n

\* C17, clause 1: the threshold is the likelihood of a live sample
ThLive == (Done /\ InDom) => (res.kind = "logL" /\ res.idx = n /\ ClLive(n, size))
\* C17, clause 2: the choice would leave fewer than min_samples -> exactly min_samples kept
ThMinSamples == (Done /\ InDom) => ClMinSamples(n, Eff0, size, minS)
\* C17, clause 3: otherwise at least min_remove removed
ThMinRemove == (Done /\ InDom) => ClMinRemove(n, Eff0, size, minS, minR)
\* C17, clause 4: constant draws and a cap: next level <= max_samples
ThMaxSamples == (Done /\ InDom) => ClMaxSamples(n, size, maxS, nlive, const)

\* the same on the function (this is what Apalache checks without bounds)
ThFunction == (pc # "method") =>
    /\ TheoremClamp(n0, size, minS, minR, maxS, nlive, const)
    /\ TheoremRaises(n0, size, minS, minR, maxS, nlive, const)
    /\ TheoremLiteral(n0, size, minS, minR, maxS, nlive, const)

\* Dom is exactly "some index satisfies all clauses": outside it no
\* implementation can meet the statement, inside it the code does
ThTight == (pc # "method" /\ minR >= 1) =>
    (InDom <=> Satisfiable(n0, size, minS, minR, maxS, nlive, const))

\* exceptions happen only outside the domain
ThRaiseOutside == (Done /\ res.kind = "IndexError") => ~InDom

\* Remark: what check_configuration admits (min_samples, min_remove <= nlive)
\* does NOT imply the domain: min_remove = nlive = size (the first iteration
\* with n_initial = nlive) ends in IndexRaise; the clauses are unsatisfiable there.

\* The rule lives here: the harness evaluates the clauses on the index k of
\* the REAL return value as  0 <= k < size,  EqK < 0 \/ k = EqK,  k >= LoR,
\* k >= LoCap  (the clauses solved for k; ThSolved ties them to Clauses).
CaseB == size >= minS /\ size - Eff0 < minS
CaseC == size - Eff0 >= minS
CapOn == const /\ maxS # 0
EqK   == IF CaseB THEN size - minS ELSE -1
LoR   == IF CaseC THEN minR ELSE 0
LoCap == IF CapOn THEN Max0(size + nlive - maxS) ELSE 0

ThSolved == (pc # "method") =>
    \A k \in 0..(size - 1) :
        Clauses(k, n0, size, minS, minR, maxS, nlive, const)
            <=> ((EqK < 0 \/ k = EqK) /\ k >= LoR /\ k >= LoCap)

ExportClamp ==
    (pc' = "done" /\ pc # "done" /\ kind = "clamp") =>
        PrintT("CLAMP " \o ToJson(
            [size |-> size, minS |-> minS, minR |-> minR, maxS |-> maxS, nlive |-> nlive,
             const |-> const, n0 |-> n0, n |-> res'.idx, kind |-> res'.kind,
             dom |-> InDom, caseB |-> CaseB, caseC |-> CaseC, capped |-> CapOn,
             eq |-> EqK, loR |-> LoR, loCap |-> LoCap,
             lit |-> (n0 = 0 /\ size = minS)]))

-----------------------------------------------------------------------------
(* Machine 2: determine_threshold_entropy on integer weights               *)

NI == -100000          \* the log-weight -inf

\* q as a fraction
Quantiles == {<<0, 1>>, <<1, 10>>, <<1, 3>>, <<1, 2>>, <<4, 5>>, <<9, 10>>, <<1, 1>>}

SeqsOver(S, l) == [1..l -> S]

\* log mode (use_log_weights=True): entries ARE the log-weights, p = log_weights
\* linear mode (use_log_weights=False): entries are the weights, p = exp(log_weights);
\* weight 0 is log-weight -inf
Shapes(linear) ==
    LET c0   == IF linear THEN {1, 3} ELSE {-3, 0, 2}
        hi   == IF linear THEN 1000 ELSE 0
        lo   == IF linear THEN 1 ELSE -800
        ninf == IF linear THEN 0 ELSE NI
        fin  == IF linear THEN 2 ELSE -1
        offs(l) == IF linear THEN {0} ELSE {0 - l - 1, 0 - (l \div 2) - 1, 0}
        alph == IF linear THEN {0, 1, 2, 3} ELSE {NI, -2, -1, 0, 1, 2}
    IN  UNION {
          {[kind |-> "equal", v |-> [i \in 1..l |-> c]] : c \in c0}
          \cup {[kind |-> "dominant", v |-> [i \in 1..l |-> IF i = k THEN hi ELSE lo]] : k \in 1..l}
          \cup {[kind |-> "neginf", v |-> [i \in 1..l |-> IF i \in m THEN ninf ELSE fin]] :
                    m \in (SUBSET (1..l)) \ {{}, 1..l}}
          \cup {[kind |-> "allneginf", v |-> [i \in 1..l |-> ninf]]}
          \cup {[kind |-> "increasing", v |-> [i \in 1..l |-> i + o]] : o \in offs(l)}
          \cup {[kind |-> "decreasing", v |-> [i \in 1..l |-> (l + 1 - i) + o]] : o \in offs(l)}
          : l \in 1..MaxLen}
        \cup UNION {{[kind |-> "any", v |-> w] : w \in SeqsOver(alph, l)} : l \in 1..MaxAny}

\* np.cumsum
CumSum(p) == [i \in DOMAIN p |-> FoldFunction(+, 0, [j \in 1..i |-> p[j]])]

\* first index (0-based) of a true entry, 0 if there is none (np.argmax of a mask)
ArgmaxMask(mask) ==
    IF \E i \in DOMAIN mask : mask[i]
    THEN (CHOOSE i \in DOMAIN mask : mask[i] /\ \A j \in 1..(i - 1) : ~mask[j]) - 1
    ELSE 0

\* the index rule of determine_threshold_quantile: np.argmax(a >= cutoff)
ArgmaxGE(a, c) == ArgmaxMask([i \in DOMAIN a |-> a[i] >= c])

\* determine_threshold_entropy(samples, q = a/b, use_log_weights = ~linear)
\* on the vector p (= log_weights or exp(log_weights)) of integers
EntropyCut(p, linear, a, b) ==
    IF ~linear /\ \E i \in DOMAIN p : p[i] = NI
    THEN 0     \* cdf[-1] = -inf: every ratio is nan or -0.0 >= q only at index 0
    ELSE LET S    == CumSum(p)
             T    == FoldFunction(+, 0, S)                     \* cdf.sum()
             c    == IF T = 0 THEN [i \in DOMAIN p |-> i - 1] ELSE S   \* np.arange
             last == c[Len(p)]
             \* c[i] / last >= a / b in IEEE arithmetic
             ge   == [i \in DOMAIN p |->
                        IF last > 0 THEN c[i] * b >= a * last
                        ELSE IF last < 0 THEN c[i] * b <= a * last
                        ELSE c[i] > 0]                         \* x/0 = +-inf or nan
         IN  ArgmaxMask(ge)

\* exact equality with q somewhere: a floating-point instantiation that is not
\* exact (exp of a log) may fall on either side
EntropyTie(p, linear, a, b) ==
    IF ~linear /\ \E i \in DOMAIN p : p[i] = NI THEN FALSE
    ELSE LET S == CumSum(p)
             T == FoldFunction(+, 0, S)
             c == IF T = 0 THEN [i \in DOMAIN p |-> i - 1] ELSE S
         IN  \E i \in DOMAIN p : c[i] * b = a * c[Len(p)]

InitCut ==
    /\ lin \in BOOLEAN
    /\ \E s \in Shapes(lin) : kind = s.kind /\ v = s.v
    /\ \E q \in Quantiles : qn = q[1] /\ qd = q[2]
    /\ cut = -1 /\ pc = "shape"
    /\ size = 1 /\ minS = 1 /\ minR = 1 /\ maxS = 0 /\ nlive = 1 /\ const = FALSE
    /\ n0 = -1 /\ n = -1 /\ res = NoRes

CutStep ==
    /\ pc = "shape"
    /\ cut' = EntropyCut(v, lin, qn, qd) /\ pc' = "cutdone"
    /\ UNCHANGED <<cvars, n0, n, res, kind, v, lin, qn, qd>>

NextCut == CutStep
SpecCut == InitCut /\ [][NextCut]_vars /\ WF_vars(NextCut)
TerminatesCut == <>(pc = "cutdone")

\* C17, clause 1 for the entropy method: the cut is an index of the live set
ThCutInRange == (pc = "cutdone") => (0 <= cut /\ cut < Len(v))

\* for proper weights (linear mode, not all zero, 0 < q <= 1) the cut is where
\* the cumulative weight fraction first reaches q
ThCutFraction ==
    (pc = "cutdone" /\ lin /\ qn > 0 /\ \E i \in DOMAIN v : v[i] > 0) =>
        LET S == CumSum(v)
            tot == S[Len(v)]
        IN  /\ S[cut + 1] * qd >= qn * tot
            /\ (cut > 0) => S[cut] * qd < qn * tot

\* the index rule of the quantile method on rank vectors (a cutoff above every
\* value gives the all-false mask, hence 0)
ThArgmaxGE ==
    (pc = "cutdone") =>
        \A c \in {-1000, -2, 0, 1, 3, 1001} :
            LET k == ArgmaxGE(v, c)
            IN  /\ 0 <= k /\ k < Len(v)
                /\ (\E i \in DOMAIN v : v[i] >= c) => (v[k + 1] >= c /\ \A j \in 1..k : v[j] < c)

ExportCut ==
    (pc' = "cutdone" /\ pc = "shape") =>
        PrintT("SHAPE " \o ToJson(
            [kind |-> kind, v |-> v, lin |-> lin, qn |-> qn, qd |-> qd, cut |-> cut',
             tie |-> EntropyTie(v, lin, qn, qd)]))
=============================================================================
