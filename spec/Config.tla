------------------------------- MODULE Config -------------------------------
(***************************************************************************)
(* The algorithmic options of both samplers with finite domains (default,  *)
(* every documented alternative, one invalid value) and the up-front       *)
(* validation of the code transcribed as RejectedUpFront.  TLC enumerates  *)
(* the configurations that differ from the default in one option (Pairs =  *)
(* FALSE) or in two (Pairs = TRUE); each is exported and run for real.     *)
(*                                                                         *)
(* Values are tokens decoded by vf/c20.py:                                 *)
(*   none | b:T | b:F | n:<number> | s:<string> | j:<key>  (j: a named     *)
(*   dictionary of the harness, e.g. a reparameterisation map)             *)
(* The first value of every option is the default.                         *)
(***************************************************************************)
EXTENDS Integers, Sequences, FiniteSets, TLC, Json

CONSTANTS Pairs

Opt(s, w, n, vs) == [sampler |-> s, where |-> w, name |-> n, values |-> vs]

\* where: "sampler" = keyword of FlowSampler, "flow" / "training" = entry of
\* flow_config / training_config, "run" = keyword of FlowSampler.run
Options == <<
  Opt("std", "sampler", "shrinkage_expectation", <<"s:logt", "s:t", "s:bogus">>),
  Opt("std", "sampler", "analytic_priors", <<"b:F", "b:T">>),
  Opt("std", "sampler", "maximum_uninformed", <<"n:50", "b:F", "n:10", "n:100000">>),
  Opt("std", "sampler", "uninformed_acceptance_threshold", <<"none", "n:0.9">>),
  Opt("std", "sampler", "training_frequency", <<"none", "n:20", "s:inf">>),
  Opt("std", "sampler", "train_on_empty", <<"b:T", "b:F">>),
  Opt("std", "sampler", "cooldown", <<"n:200", "n:5">>),
  Opt("std", "sampler", "memory", <<"b:F", "n:20">>),
  Opt("std", "sampler", "reset_weights", <<"b:F", "b:T", "n:2", "s:bogus">>),
  Opt("std", "sampler", "reset_permutations", <<"b:F", "n:2">>),
  Opt("std", "sampler", "reset_flow", <<"b:F", "n:2">>),
  Opt("std", "sampler", "retrain_acceptance", <<"b:T", "b:F">>),
  Opt("std", "sampler", "reset_acceptance", <<"b:F", "b:T">>),
  Opt("std", "sampler", "acceptance_threshold", <<"n:0.01", "n:0.5">>),
  Opt("std", "sampler", "checkpoint_on_training", <<"b:F", "b:T">>),
  Opt("std", "sampler", "prior_sampling", <<"b:F", "b:T">>),
  Opt("std", "sampler", "flow_proposal_class", <<"none", "s:flowproposal", "s:augmentedflowproposal",
                                                  "s:clusteringflowproposal", "s:bogus">>),
  Opt("std", "flow", "ftype", <<"s:realnvp", "s:maf", "s:nsf", "s:bogus">>),
  Opt("std", "flow", "batch_norm_between_layers", <<"b:F", "b:T">>),
  Opt("std", "flow", "linear_transform", <<"none", "s:lu", "s:permutation", "s:svd">>),
  Opt("std", "training", "noise_type", <<"none", "s:constant", "s:adaptive">>),
  Opt("std", "training", "annealing", <<"b:F", "b:T">>),
  Opt("std", "training", "val_size", <<"n:0.1", "n:0.0", "n:0.5">>),
  Opt("std", "training", "use_dataloader", <<"b:F", "b:T">>),
  Opt("std", "training", "clip_grad_norm", <<"n:5.0", "none">>),
  Opt("std", "training", "batch_size", <<"none", "n:11">>),
  Opt("std", "sampler", "latent_prior", <<"s:truncated_gaussian", "s:gaussian", "s:uniform", "s:uniform_nsphere",
                                           "s:uniform_nball", "s:flow", "s:bogus">>),
  Opt("std", "sampler", "constant_volume_mode", <<"b:T", "b:F">>),
  Opt("std", "sampler", "volume_fraction", <<"n:0.95", "n:0.5">>),
  Opt("std", "sampler", "fuzz", <<"n:1.0", "n:1.5">>),
  Opt("std", "sampler", "fixed_radius", <<"b:F", "n:2.0">>),
  Opt("std", "sampler", "drawsize", <<"none", "n:37">>),
  Opt("std", "sampler", "truncate_log_q", <<"b:F", "b:T">>),
  Opt("std", "sampler", "expansion_fraction", <<"n:4.0", "n:0.0", "none">>),
  Opt("std", "sampler", "min_radius", <<"b:F", "n:1.0">>),
  Opt("std", "sampler", "max_radius", <<"n:50.0", "n:2.0", "b:F">>),
  Opt("std", "sampler", "max_poolsize_scale", <<"n:10", "n:2">>),
  Opt("std", "sampler", "update_poolsize", <<"b:T", "b:F">>),
  Opt("std", "sampler", "accumulate_weights", <<"b:F", "b:T">>),
  Opt("std", "sampler", "check_acceptance", <<"b:F", "b:T">>),
  Opt("std", "sampler", "save_training_data", <<"b:F", "b:T">>),
  Opt("std", "sampler", "compute_radius_with_all", <<"b:F", "b:T">>),
  Opt("std", "sampler", "reparameterisations", <<"none", "j:rtb_logit", "j:inversion", "j:zscore_offset",
                                                  "j:null", "j:bogus">>),
  Opt("std", "sampler", "fallback_reparameterisation", <<"s:zscore", "s:rescaletobounds", "none", "s:bogus">>),
  Opt("std", "sampler", "use_default_reparameterisations", <<"none", "b:T", "b:F">>),
  Opt("std", "sampler", "reverse_reparameterisations", <<"b:F", "b:T">>),
  Opt("std", "run", "posterior_sampling_method", <<"none", "s:rejection_sampling", "s:multinomial_resampling",
                                                    "s:importance_sampling", "s:bogus">>),
  Opt("ins", "sampler", "threshold_method", <<"s:entropy", "s:quantile", "s:bogus">>),
  Opt("ins", "sampler", "threshold_kwargs", <<"none", "j:q05", "j:q09">>),
  Opt("ins", "sampler", "draw_constant", <<"b:T", "b:F">>),
  Opt("ins", "sampler", "min_samples", <<"n:20", "n:90", "n:1000">>),
  Opt("ins", "sampler", "min_remove", <<"n:1", "n:30", "n:1000">>),
  Opt("ins", "sampler", "max_samples", <<"none", "n:250">>),
  Opt("ins", "sampler", "strict_threshold", <<"b:F", "b:T">>),
  Opt("ins", "sampler", "replace_all", <<"b:F", "b:T">>),
  Opt("ins", "sampler", "stopping_criterion", <<"s:ratio", "s:ratio_ns", "s:Z_err", "s:log_dZ", "s:ess",
                                                 "s:fractional_error", "s:evidence_error", "s:bogus">>),
  Opt("ins", "sampler", "check_criteria", <<"s:any", "s:all", "s:bogus">>),
  Opt("ins", "sampler", "n_update", <<"none", "n:30">>),
  Opt("ins", "sampler", "draw_iid_live", <<"b:T", "b:F">>),
  Opt("ins", "sampler", "bootstrap", <<"b:F", "b:T">>),
  Opt("ins", "sampler", "train_final_flow", <<"b:F", "b:T">>),
  Opt("ins", "sampler", "weighted_kl", <<"b:T", "b:F">>),
  Opt("ins", "sampler", "reparameterisation", <<"s:logit", "none", "s:bogus">>),
  Opt("ins", "sampler", "reset_flow", <<"b:T", "b:F", "n:2">>),
  Opt("ins", "sampler", "clip", <<"b:F", "b:T">>),
  Opt("ins", "sampler", "save_log_q", <<"b:F", "b:T">>),
  Opt("ins", "flow", "ftype", <<"s:realnvp", "s:maf", "s:nsf">>),
  Opt("ins", "run", "redraw_samples", <<"b:F", "b:T">>),
  Opt("ins", "run", "posterior_sampling_method", <<"none", "s:rejection_sampling", "s:multinomial_resampling",
                                                    "s:bogus">>)
>>

NOpt == Len(Options)

VARIABLES cfg      \* a set of <<option index, value index>> changes from the default
vars == <<cfg>>

SameSampler(i, j) == Options[i].sampler = Options[j].sampler

\* option values that are only accepted together with another non-default value: without the
\* companion the single-option configuration is rejected up front and the value would never run
Idx(s, n) == CHOOSE k \in 1..NOpt : Options[k].sampler = s /\ Options[k].name = n
Companions ==
    {{<<Idx("std", "latent_prior"), a>>, <<Idx("std", "constant_volume_mode"), 2>>} : a \in 2..6}
    \* an interacting pair: a batch size that leaves a last training batch of one sample, with batch norm
    \cup {{<<Idx("std", "batch_size"), 2>>, <<Idx("std", "batch_norm_between_layers"), 2>>}}

Init ==
    \/ cfg = {}
    \/ cfg \in Companions
    \/ \E i \in 1..NOpt : \E a \in 2..Len(Options[i].values) : cfg = {<<i, a>>}
    \/ /\ Pairs
       /\ \E i, j \in 1..NOpt : i < j /\ SameSampler(i, j) /\
            \E a \in 2..Len(Options[i].values), b \in 2..Len(Options[j].values) : cfg = {<<i, a>>, <<j, b>>}

Next == UNCHANGED cfg
Spec == Init /\ [][Next]_vars

Val(c, s, n) ==     \* value token of option (s, n) in configuration c
    LET i == CHOOSE k \in 1..NOpt : Options[k].sampler = s /\ Options[k].name = n
    IN  IF \E p \in c : p[1] = i THEN Options[i].values[(CHOOSE p \in c : p[1] = i)[2]]
        ELSE Options[i].values[1]

Sampler(c) == IF c = {} THEN "std" ELSE Options[(CHOOSE p \in c : TRUE)[1]].sampler

\* ---- the validation the code performs before any sampling starts
RejectedUpFront(c) ==
    LET s == Sampler(c) IN
    IF s = "std" THEN
        \/ Val(c, s, "shrinkage_expectation") = "s:bogus"              \* _NSIntegralState
        \/ Val(c, s, "reset_weights") = "s:bogus"                      \* configure_flow_reset
        \/ Val(c, s, "flow_proposal_class") = "s:bogus"                \* get_flow_proposal_class
        \/ Val(c, s, "ftype") = "s:bogus"                              \* configure flow
        \/ Val(c, s, "latent_prior") = "s:bogus"                       \* configure_latent_prior
        \/ (Val(c, s, "latent_prior") \in {"s:gaussian", "s:uniform", "s:flow"}      \* configure_constant_volume
              /\ Val(c, s, "constant_volume_mode") = "b:T")
        \/ Val(c, s, "reparameterisations") = "j:bogus"
        \/ (Val(c, s, "fallback_reparameterisation") = "s:bogus"          \* only looked up for parameters
              /\ Val(c, s, "reparameterisations") = "none")                \* without an explicit entry
        \/ (Val(c, s, "ftype") = "s:maf" /\ Val(c, s, "linear_transform") # "none")      \* MAF takes no linear transform
        \/ (Val(c, s, "flow_proposal_class") = "s:augmentedflowproposal"               \* the augment mask needs RealNVP
              /\ Val(c, s, "ftype") \in {"s:maf", "s:nsf"})
        \/ Val(c, s, "posterior_sampling_method") = "s:bogus"         \* FlowSampler.run_standard_sampler
    ELSE
        \/ Val(c, s, "stopping_criterion") = "s:bogus"                 \* configure_stopping_criterion
        \/ Val(c, s, "check_criteria") = "s:bogus"
        \/ Val(c, s, "min_samples") = "n:1000"                         \* check_configuration (> nlive)
        \/ Val(c, s, "min_remove") = "n:1000"
        \/ Val(c, s, "reparameterisation") = "s:bogus"               \* ImportanceFlowProposal.__init__
        \/ Val(c, s, "threshold_method") = "s:bogus"                 \* ImportanceNestedSampler.__init__
        \/ Val(c, s, "posterior_sampling_method") = "s:bogus"        \* FlowSampler.run_importance_nested_sampler

Export ==
    PrintT("CFG " \o ToJson([sampler |-> Sampler(cfg),
                             changes |-> [p \in cfg |-> [where |-> Options[p[1]].where, name |-> Options[p[1]].name,
                                                         value |-> Options[p[1]].values[p[2]]]],
                             rejected |-> RejectedUpFront(cfg)]))

\* every option of the table has a default and at least one alternative
WellFormed == \A i \in 1..NOpt : Len(Options[i].values) >= 2
Exported == WellFormed /\ Export
=============================================================================
