---------------------- MODULE TraceImportanceSampler ----------------------
(***************************************************************************)
(* Trace validation of real runs of the importance nested sampler against  *)
(* ImportanceSampler.tla (bookkeeping, stopping rule, checkpoint/resume)   *)
(* with the numeric facts of C03/C05/C15 evaluated by vf/oracle_ins.py and  *)
(* the structural facts of C04 evaluated on both stores.                   *)
(*                                                                         *)
(* Events: start, ins_init (initial samples drawn), ins_iter (end of the   *)
(* body of one iteration, before iteration += 1), ckpt, resume, ins_final  *)
(* (finalise returned), done / done_again, kill, signal.                   *)
(* The variables follow the logged state; P-clauses are evaluated on it.   *)
(***************************************************************************)
EXTENDS ImportanceSampler, IOUtils, Json, ScheduleOps

J   == JsonDeserialize(IOEnv.TRACE_FILE)
Ev  == J.ev
Win == J.win

VARIABLES tid, l, aux

tvars == <<vars, tid, l, aux>>

Say(k, p, c) == PrintT("TR " \o ToJson([k |-> k, p |-> p, tid |-> tid, l |-> l, c |-> c]))
P(p, c, cond) == IF cond THEN TRUE ELSE Say("P", p, c)
M(c, cond)    == IF cond THEN TRUE ELSE Say("M", "", c)

StoreOf(r) == [n |-> r.n, nl |-> IF r.n_live < 0 THEN 0 ELSE r.n_live, nc |-> r.ncols]

\* the sampler record of ImportanceSampler.tla rebuilt from an event
Logged(e, it, met) ==
    [it |-> it, nprop |-> e.nprop, wset |-> e.w_set, counts |-> e.counts,
     tr |-> StoreOf(e.tr), iid |-> IF Iid THEN StoreOf(e.iid) ELSE s.iid,
     met |-> met, fin |-> e.fin, evals |-> e.evals, nhist |-> e.n_hist]

TraceInit ==
    /\ tid \in 1..Len(Win) /\ l = Win[tid][1]
    /\ s = InitS /\ pc = "trace" /\ loc = [nrem |-> 0, nadd |-> 0]
    /\ disk = <<>> /\ levels = 0 /\ proc = [st |-> "run", stops |-> 0]
    /\ aux = [met |-> <<>>, reached |-> FALSE, doneSeen |-> FALSE]

Keep == UNCHANGED <<pc, loc, proc>>

\* ---- the clauses of C03 / C04 on one store of an event
StoreClauses(r, e, name) ==
    /\ P("C03", name \o ": stored per-proposal densities = saved proposals re-evaluated", r.densities_ok)
    /\ P("C03", name \o ": densities of samples within eps of the unit-hypercube boundary", r.clip_ok)
    /\ P("C03", name \o ": meta-proposal density = mixture with weights counts/total", r.logQ_ok)
    /\ P("C03", name \o ": log-weight = unit-hypercube prior - meta-proposal", r.logW_ok /\ r.logU_ok)
    /\ P("C03", name \o ": samples in the unit hypercube", r.in_unit)
    /\ P("C03", name \o ": stored log-likelihood = model at the physical point", r.logL_ok)
    /\ P("C03", name \o ": one density column per proposal", r.ncols = e.nprop /\ r.rows = r.n)
    /\ P("C04", name \o ": strict threshold: live set = the samples at or above it", r.strict_ok)
    /\ P("C04", name \o ": sorted", r.sorted)
    /\ P("C04", name \o ": partition", r.partition)
    /\ P("C04", name \o ": live+nested = all", (IF r.n_live < 0 THEN 0 ELSE r.n_live) + r.n_nested = r.n)

WeightClauses(e, main) ==
    /\ P("C03", "weights = fraction of samples drawn from each proposal",
            e.w_set /\ e.w_exact /\ e.w_counts = e.counts /\ main.it_counts = e.counts)
    /\ P("C03", "weights sum to one", e.w_sum_one)

ReachedOf(met, any) == IF any THEN \E c \in DOMAIN met : met[c] ELSE \A c \in DOMAIN met : met[c]

EvStart(e) == UNCHANGED <<s, disk, levels, aux>>

EvInit(e) ==
    \E post \in {Logged(e, 0, [c \in 1..NCrit |-> FALSE])} :
        /\ s' = post
        /\ StoreClauses(e.tr, e, "training set")
        /\ (Iid => StoreClauses(e.iid, e, "independent set"))
        /\ P("C03", "initial counts", e.counts = <<NInit>> /\ e.n_initial = NInit)
        /\ M("init: not InitS", post.tr = InitS.tr /\ post.nprop = 1)
        /\ P("C12", "started_afresh_although_a_checkpoint_exists", disk = <<>>)
        /\ UNCHANGED <<disk, levels, aux>>

EvIter(e) ==
    \E post \in {Logged(e, e.it + 1, e.met)} :
        /\ s' = post /\ levels' = e.levels_on_disk
        /\ StoreClauses(e.tr, e, "training set")
        /\ (Iid => StoreClauses(e.iid, e, "independent set"))
        /\ WeightClauses(e, IF Iid THEN e.iid ELSE e.tr)
        /\ P("C03", "counts add up to the stored samples", CountsS(post))
        /\ P("C03", "columns match proposals", ColumnsS(post))
        \* ---- C17
        /\ P("C17", "threshold is the likelihood of a live sample", e.pre_remove.thr_is_live)
        \* exactly min_samples kept when the method's choice would leave fewer, otherwise >= min_remove removed
        /\ P("C17", "at least min_remove removed (or exactly min_samples kept), not all",
                e.replace_all \/ (/\ e.n_removed < e.pre_remove.n_live
                                  /\ \/ e.n_removed >= e.min_remove
                                     \/ e.pre_remove.n_live - e.n_removed = e.min_samples))
        /\ P("C17", "trained on at least min_samples", e.train_n >= e.min_samples)
        /\ P("C04", "reported number removed",
                e.n_removed = (IF e.replace_all THEN e.pre_remove.n_live ELSE e.pre_remove.n_below))
        \* ---- C09 (importance proposal): exactly the requested number of new samples
        /\ P("C09", "ins_draw_returns_exactly_n",
                e.n_added = (IF e.draw_constant \/ e.replace_all THEN e.nlive_cfg ELSE e.n_removed))
        \* ---- C05 / counts
        /\ P("C05", "samples = sum of the draws of every level", e.n_main = Sum(e.counts))
        \* ---- C15
        /\ P("C15", "iterated although the stopping rule was met",
                ~(aux.reached /\ e.it >= e.min_it) /\ (e.max_it < 0 \/ e.it < e.max_it))
        /\ P("C15", "iteration counter", e.it = s.it)
        /\ P("C15", "criteria = standard definitions",
                e.crit.ess_ok /\ e.crit.log_dZ_ok /\ e.crit.Z_err_ok /\ e.crit.ratio_ok /\ e.crit.logZ_ok)
        /\ P("C15", "fractional_error = standard definition", e.crit.frac_err_ok)
        /\ P("C15", "compared values are the reported ones", e.crit.reported_ok /\ e.crit.compared_is_reported)
        \* ---- C12
        /\ P("C12", "evaluations_cumulative", e.evals_ok)
        \* ---- M: bookkeeping steps of ImportanceSampler.tla
        /\ M("iter: nprop / counts / sizes do not follow Train;SetWeight;Insert",
             /\ post.nprop = s.nprop + 1
             /\ post.counts = Append(s.counts, e.n_added)
             /\ post.tr.n = s.tr.n + e.n_added
             /\ LevelsS([post EXCEPT !.it = e.it + 1]))
        /\ M("iter: level weights missing on disk", e.levels_on_disk >= e.nprop - 1)
        /\ aux' = [aux EXCEPT !.met = e.met, !.reached = ReachedOf(e.met, e.stop_any)]
        /\ UNCHANGED disk

EvCkpt(e) ==
    \* (the forced checkpoint at the end of finalise() is written before finalise returns)
    /\ disk' = IF e.in_finalise
               THEN <<[s EXCEPT !.evals = e.evals, !.tr.nl = 0, !.iid.nl = 0, !.fin = TRUE]>>
               ELSE <<[s EXCEPT !.evals = e.evals]>>
    /\ P("C12", "sampling_time_cumulative", e.time_ok)
    /\ M("ckpt: not at an iteration boundary", e.it = s.it /\ e.nprop = s.nprop)
    /\ UNCHANGED <<s, levels, aux>>

\* every call of checkpoint(periodic, force): the schedule of Schedule.tla
EvCkptCall(e) ==
    LET due == Due(e.cur, e.last0, e.interval) IN
    /\ M("schedule: a file is written iff the call is a signal's, forced, or due (ScheduleOps.Writes)",
         e.near \/ e.wrote = Writes(e.periodic, e.force, due))
    /\ M("schedule: _last_checkpoint after the call is not ScheduleOps.LastAfter",
         e.near \/ e.last1 = LastAfter(e.periodic, e.force, due, e.cur, e.last0))
    /\ M("schedule: _last_checkpoint lies in the future", e.last0 <= e.cur)
    /\ UNCHANGED <<s, disk, levels, aux>>

EvResume(e) ==
    /\ P("C12", "resumed_from_a_checkpoint", disk # <<>>)
    /\ IF disk # <<>>
       THEN /\ s' = disk[1]
            /\ P("C12", "restored_iteration", e.it = disk[1].it)
            /\ P("C12", "restored_counts", e.counts = disk[1].counts /\ e.nprop = disk[1].nprop)
            /\ P("C12", "restored_stores", StoreOf(e.tr) = disk[1].tr /\ (Iid => StoreOf(e.iid) = disk[1].iid))
            /\ P("C12", "restored_evaluations", e.evals = disk[1].evals)
            /\ P("C12", "restored_digest:" \o e.digest_diff, e.digest_ok)
            /\ M("schedule: restored _last_checkpoint is not the pickled one", e.sched_ok)
       ELSE s' = s
    \* the stored densities were computed with the proposals in memory: the ones read back from disk are the same
    /\ P("C03", "proposals restored from disk are the proposals the stored densities were computed with", e.flows_ok)
    \* the re-derived density tables (float32) and everything else of C03
    /\ StoreClauses(e.tr, e, "training set after resume")
    /\ (Iid => StoreClauses(e.iid, e, "independent set after resume"))
    /\ WeightClauses(e, IF Iid THEN e.iid ELSE e.tr)
    /\ UNCHANGED <<disk, levels, aux>>

EvFinal(e) ==
    \E post \in {Logged(e, e.it, aux.met)} :
        /\ s' = post
        /\ StoreClauses(e.tr, e, "training set after finalise")
        /\ (Iid => StoreClauses(e.iid, e, "independent set after finalise"))
        /\ WeightClauses(e, IF Iid THEN e.iid ELSE e.tr)
        /\ P("C04", "finalise consumed the live samples", e.tr.n_live < 0 /\ e.tr.n_nested = e.tr.n)
        /\ P("C15", "stopped without the rule being met",
                (aux.reached /\ e.it >= e.min_it) \/ (e.max_it >= 0 /\ e.it >= e.max_it))
        /\ UNCHANGED <<disk, levels, aux>>

Facts(e) ==
    /\ P("C05", "ascending", e.ascending)
    /\ P("C05", "number_of_samples", e.count_ok /\ e.counts_match_samples /\ e.n_returned = Sum(e.counts))
    /\ P("C05", "evidence_recomputed", e.logZ_ok)
    /\ P("C05", "uncertainty_recomputed", e.logZ_err_ok)
    /\ P("C05", "weights_recomputed", e.weights_ok)
    /\ P("C05", "likelihoods_match_model", e.logL_model_ok)
    /\ P("C05", "priors_match_model", e.logP_model_ok)
    /\ P("C05", "returned samples are the stored ones in physical space", e.returned_are_physical)
    /\ P("C05", "result_dictionary", e.dict_ok)

EvDone(e) ==
    /\ Facts(e)
    /\ P("C15", "resume_after_finish_same_result", e.same_as_done)
    /\ P("C12", "evaluations_cumulative", e.evals_ok)
    /\ P("C12", "sampling_time_cumulative", e.time_ok)
    /\ aux' = [aux EXCEPT !.doneSeen = TRUE]
    /\ UNCHANGED <<s, disk, levels>>

EvDoneAgain(e) ==
    /\ Facts(e)
    /\ P("C15", "run_again_same_result", e.same_as_done)
    /\ UNCHANGED <<s, disk, levels, aux>>

EvOutside(e) ==
    /\ P("C09", "likelihood_called_outside_support", FALSE)
    /\ UNCHANGED <<s, disk, levels, aux>>

EvOther(e) == UNCHANGED <<s, disk, levels, aux>>

TraceStep ==
    /\ l <= Win[tid][2]
    /\ LET e == Ev[l] IN
         CASE e.ev = "start"      -> EvStart(e)
           [] e.ev = "ins_init"   -> EvInit(e)
           [] e.ev = "ins_iter"   -> EvIter(e)
           [] e.ev = "ckpt"       -> EvCkpt(e)
           [] e.ev = "ckpt_call"  -> EvCkptCall(e)
           [] e.ev = "resume"     -> EvResume(e)
           [] e.ev = "ins_final"  -> EvFinal(e)
           [] e.ev = "done"       -> EvDone(e)
           [] e.ev = "done_again" -> EvDoneAgain(e)
           [] e.ev = "ll_outside" -> EvOutside(e)
           [] OTHER               -> EvOther(e)
    /\ l' = l + 1 /\ tid' = tid /\ Keep

TraceDone ==
    /\ l = Win[tid][2] + 1
    /\ Say("done", "", "")
    /\ l' = l + 1
    /\ UNCHANGED <<vars, tid, aux>>

TraceNext == TraceStep \/ TraceDone
TraceSpec == TraceInit /\ [][TraceNext]_tvars
=============================================================================
