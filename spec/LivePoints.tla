----------------------------- MODULE LivePoints -----------------------------
(***************************************************************************)
(* Live points (nessai.livepoint, nessai.config.livepoints,                *)
(* nessai.model.Model.unstructured_view).                                  *)
(*                                                                         *)
(* STATE.  The only state is the process-global registry of extra          *)
(* non-sampling fields,                                                    *)
(*     extra = sequence of <<name, default>>                               *)
(* (config.livepoints.extra_parameters / extra_parameters_defaults) and    *)
(* the two cached properties derived from it that the conversions read,    *)
(*     cN = config.livepoints._non_sampling_parameters (and _dtype)        *)
(*     cD = config.livepoints._non_sampling_defaults                       *)
(* (<<>> stands for None).  `held` are arrays built earlier and kept by    *)
(* the caller; `hist` is the sequence of calls so far (hidden from the     *)
(* fingerprint by VIEW, used to export a path with every edge).            *)
(*                                                                         *)
(* VALUES.  There are no floats here.  A structured array is               *)
(*     [fields |-> Seq(name), n |-> Nat, col |-> Seq(Seq(Int))]            *)
(* with col[k] the column of field k.  The entry for point i, parameter k  *)
(* of a d-parameter input is the integer (i-1)*d + k (all distinct, so any *)
(* transposition or shift is visible); NAN = -1 is the default float       *)
(* value, 0 the default iteration, integers >= 100 stand for explicitly    *)
(* registered defaults.  The harness (vf/c18.py) instantiates names and    *)
(* values (NaN, +-inf, subnormals, extremes ...) and compares the real     *)
(* results with the ones computed here.                                    *)
(***************************************************************************)
EXTENDS Integers, Sequences, FiniteSets, TLC, Json

CONSTANTS ENames,    \* names that can be registered as extra fields (strings)
          DVals,     \* explicit default values (naturals >= 100)
          MaxAdd,    \* longest list of names handed to one Add
          MaxD,      \* parameter-name lists <<p1..pd>>, d in 1..MaxD
          MaxN,      \* numbers of points 0..MaxN
          MaxHeld    \* number of earlier arrays kept in the state

VARIABLES extra, cN, cD, held, hist

vars == <<extra, cN, cD, held, hist>>
view == <<extra, cN, cD, held>>

NAN  == -1
NONE == <<-2>>          \* default_values=None
Core         == <<"logP", "logL", "it">>
CoreDefaults == <<NAN, NAN, 0>>

Range(s) == {s[i] : i \in DOMAIN s}
NoDup(s) == \A i, j \in DOMAIN s : i # j => s[i] # s[j]
Idx(F, f) == CHOOSE j \in DOMAIN F : F[j] = f
Min(a, b) == IF a <= b THEN a ELSE b

ENamesOf(e)    == [i \in DOMAIN e |-> e[i][1]]
EDefaultsOf(e) == [i \in DOMAIN e |-> e[i][2]]

-----------------------------------------------------------------------------
(* The registry, as pure functions on the record                           *)
(*     s = [extra, cN, cD]                                                  *)

St == [extra |-> extra, cN |-> cN, cD |-> cD]

\* the cached properties non_sampling_parameters / non_sampling_defaults
NSNames(s)    == IF s.cN # <<>> THEN s.cN ELSE Core \o ENamesOf(s.extra)
NSDefaults(s) == IF s.cD # <<>> THEN s.cD ELSE CoreDefaults \o EDefaultsOf(s.extra)
\* reading a property fills its cache
ReadN(s) == [s EXCEPT !.cN = NSNames(s)]
ReadD(s) == [s EXCEPT !.cD = NSDefaults(s)]

\* add_extra_parameters_to_live_points(ns, ds): zip(ns, ds) -- the shorter
\* list decides --; a name already registered (or repeated in ns) is skipped
\* and keeps its position and its old default; then reset_properties()
Zip(ns, ds) ==
    LET dv == IF ds = NONE THEN [i \in DOMAIN ns |-> NAN] ELSE ds
    IN  [i \in 1..Min(Len(ns), Len(dv)) |-> <<ns[i], dv[i]>>]

AddF(s, ns, ds) ==
    LET z    == Zip(ns, ds)
        old  == Range(ENamesOf(s.extra))
        keep == {i \in DOMAIN z : z[i][1] \notin old /\ \A j \in 1..(i - 1) : z[j][1] # z[i][1]}
        Nth(k) == CHOOSE i \in keep : Cardinality({j \in keep : j < i}) = k - 1
    IN  [extra |-> s.extra \o [k \in 1..Cardinality(keep) |-> z[Nth(k)]],
         cN |-> <<>>, cD |-> <<>>]

\* reset_extra_live_points_parameters()
ResetF(s) == [extra |-> <<>>, cN |-> <<>>, cD |-> <<>>]

\* what building an array reads:
\*   "plain"  non_sampling_parameters=False: nothing
\*   "names"  an empty array with non-sampling fields (only the dtype is built)
\*   "all"    one or more points with non-sampling fields, or a data frame
Kinds == {"plain", "names", "all"}
TouchF(s, kind) ==
    CASE kind = "plain" -> s
      [] kind = "names" -> ReadN(s)
      [] kind = "all"   -> ReadD(ReadN(s))

-----------------------------------------------------------------------------
(* Arrays and conversions on abstract values                               *)

PN(d)     == [k \in 1..d |-> "p" \o ToString(k)]                 \* parameter names
Mat(n, d) == [i \in 1..n |-> [k \in 1..d |-> (i - 1) * d + k]]   \* n x d plain array

\* get_dtype(names, non_sampling_parameters=nsp)
Fields(names, s, nsp) == IF nsp THEN names \o NSNames(s) ELSE names

\* empty_structured_array(n, names, non_sampling_parameters=nsp)
Empty(n, names, s, nsp) ==
    LET F == Fields(names, s, nsp)
    IN  [fields |-> F, n |-> n,
         col |-> [k \in DOMAIN F |-> [i \in 1..n |->
                    IF k <= Len(names) THEN NAN ELSE NSDefaults(s)[k - Len(names)]]]]

\* field-by-field fill of the leading (parameter) columns
Fill(E, cols) ==
    [E EXCEPT !.col = [k \in DOMAIN E.fields |-> IF k <= Len(cols) THEN cols[k] ELSE E.col[k]]]

\* np.array([tuple, ...], dtype=F)
FromRows(rows, F) ==
    [fields |-> F, n |-> Len(rows),
     col |-> [k \in DOMAIN F |-> [i \in DOMAIN rows |-> rows[i][k]]]]

NSTail(s, nsp) == IF nsp THEN NSDefaults(s) ELSE <<>>
Column(M, k) == [i \in DOMAIN M |-> M[i][k]]

\* numpy_array_to_live_points(M, names, nsp); a 1-d input is one point
FromArray(M, names, s, nsp) ==
    Fill(Empty(Len(M), names, s, nsp), [k \in DOMAIN names |-> Column(M, k)])

\* a dictionary is [keys |-> Seq(name), vals |-> Seq(column)] (insertion order)
\* dict_to_live_points(D, nsp): the number of points is taken from the first
\* entry; one point goes through a row tuple, otherwise field by field
FromDict(D, s, nsp) ==
    LET n == Len(D.vals[1])
    IN  IF n = 1
        THEN FromRows(<<[k \in DOMAIN D.keys |-> D.vals[k][1]] \o NSTail(s, nsp)>>,
                      Fields(D.keys, s, nsp))
        ELSE Fill(Empty(n, D.keys, s, nsp), D.vals)

\* a data frame is [columns |-> Seq(name), rows |-> Seq(row)]
\* dataframe_to_live_points(DF, nsp)
FromDataFrame(DF, s, nsp) ==
    FromRows([i \in DOMAIN DF.rows |-> DF.rows[i] \o NSTail(s, nsp)], Fields(DF.columns, s, nsp))

\* parameters_to_live_point(p, names, nsp); no parameters -> empty array
FromParameters(p, names, s, nsp) ==
    IF Len(p) = 0 THEN Empty(0, names, s, nsp)
    ELSE FromRows(<<p \o NSTail(s, nsp)>>, Fields(names, s, nsp))

\* live_points_to_array(A, sel) / live_points_to_dict(A, sel)
ToArray(A, sel) == [i \in 1..A.n |-> [k \in DOMAIN sel |-> A.col[Idx(A.fields, sel[k])][i]]]
ToDict(A, sel)  == [keys |-> sel, vals |-> [k \in DOMAIN sel |-> A.col[Idx(A.fields, sel[k])]]]
DFOf(A, sel)    == [columns |-> sel, rows |-> ToArray(A, sel)]

\* ---- memory layout, for the unstructured view
Size(f)     == IF f = "it" THEN 4 ELSE 8                       \* i4, everything else f8
Off(F, k)   == 8 * (k - 1) - 4 * Cardinality({j \in 1..(k - 1) : F[j] = "it"})
ItemSize(F) == Off(F, Len(F) + 1)
\* _unstructured_view_dtype(x, names): the offsets of names inside x's dtype
ViewDtype(F, names) == [k \in DOMAIN names |-> Off(F, Idx(F, names[k]))]
\* Model._view_dtype: computed once from empty_structured_array(0, names)
ModelViewDtype(names, s) == ViewDtype(Fields(names, s, TRUE), names)
\* .view((f8, len)) needs the viewed record to be exactly len floats
ViewOK(offs) == \A k \in DOMAIN offs : offs[k] = 8 * (k - 1)
FieldAt(F, o) == CHOOSE j \in DOMAIN F : Off(F, j) = o /\ Size(F[j]) = 8
\* unstructured_view(A, dtype=offs): a window, row stride = ItemSize(A.fields)
View(A, offs) == [i \in 1..A.n |-> [k \in DOMAIN offs |-> A.col[FieldAt(A.fields, offs[k])][i]]]
\* writing v at [i, k] of the view
WriteView(A, offs, i, k, v) ==
    [A EXCEPT !.col[FieldAt(A.fields, offs[k])][i] = v]

-----------------------------------------------------------------------------
(* The state machine: every history of Add / Reset / Build                 *)

NameLists == UNION {[1..m -> ENames] : m \in 1..MaxAdd}
\* None, or a list of defaults as long as the names, one shorter or one longer
DefaultLists(ns) ==
    {NONE} \cup UNION {[1..m -> DVals] : m \in {Len(ns) - 1, Len(ns), Len(ns) + 1} \cap 0..(MaxAdd + 1)}

Init ==
    /\ extra = <<>> /\ cN = <<>> /\ cD = <<>> /\ held = <<>> /\ hist = <<>>

Apply(r) == extra' = r.extra /\ cN' = r.cN /\ cD' = r.cD

Op(name, ns, ds, kind) == [op |-> name, ns |-> ns, ds |-> ds, kind |-> kind]

Add(ns, ds) ==
    /\ \E r \in {AddF(St, ns, ds)} : Apply(r)
    /\ held' = held
    /\ hist' = Append(hist, Op("add", ns, ds, ""))

Reset ==
    /\ \E r \in {ResetF(St)} : Apply(r)
    /\ held' = held
    /\ hist' = Append(hist, Op("reset", <<>>, <<>>, ""))

\* a representative of what the caller keeps: one point, one parameter, with
\* the registry as the builder saw it
Held(s, kind) ==
    [nsp |-> kind # "plain",
     ns  |-> IF kind # "plain" THEN NSNames(s) ELSE <<>>,
     nd  |-> IF kind # "plain" THEN NSDefaults(s) ELSE <<>>,
     arr |-> FromArray(Mat(1, 1), PN(1), s, kind # "plain")]

Build(kind, keep) ==
    /\ \E r \in {TouchF(St, kind)} : Apply(r)
    /\ keep => Len(held) < MaxHeld
    /\ held' = IF keep THEN Append(held, Held(St, kind)) ELSE held
    /\ hist' = Append(hist, Op("build", <<>>, <<>>, kind))

Next ==
    \/ \E ns \in NameLists : \E ds \in DefaultLists(ns) : Add(ns, ds)
    \/ Reset
    \/ \E kind \in Kinds, keep \in BOOLEAN : Build(kind, keep)

Spec == Init /\ [][Next]_vars

-----------------------------------------------------------------------------
(* Theorems about the registry                                             *)

TypeOK ==
    /\ \A i \in DOMAIN extra : extra[i][1] \in ENames /\ extra[i][2] \in DVals \cup {NAN}
    /\ Len(held) <= MaxHeld

\* a name is registered at most once; field lists never contain a name twice
NoDuplicates ==
    /\ NoDup(ENamesOf(extra))
    /\ \A d \in 1..MaxD : NoDup(Fields(PN(d), St, TRUE))

\* a filled cache always equals what would be computed now, i.e. new arrays
\* always see the registry of the moment of their construction
CacheCoherent ==
    /\ cN # <<>> => cN = Core \o ENamesOf(extra)
    /\ cD # <<>> => cD = CoreDefaults \o EDefaultsOf(extra)
    /\ Len(NSNames(St)) = Len(NSDefaults(St))

\* Add only appends (registered names keep position and default); Reset
\* restores the core fields; Build does not change the registry
IsPrefix(a, b) == Len(a) <= Len(b) /\ \A i \in DOMAIN a : a[i] = b[i]
RegistryStep ==
    [][ LET o == hist'[Len(hist')] IN
        CASE o.op = "add" ->
               /\ IsPrefix(extra, extra')
               /\ Range(ENamesOf(extra')) \subseteq Range(ENamesOf(extra)) \cup Range(o.ns)
               \* with a default for every name, every name is registered afterwards
               /\ (o.ds = NONE \/ Len(o.ds) >= Len(o.ns))
                     => Range(o.ns) \subseteq Range(ENamesOf(extra'))
               \* a newly registered name has the default given with its first mention
               /\ \A i \in (Len(extra) + 1)..Len(extra') :
                     \E j \in DOMAIN o.ns :
                        /\ o.ns[j] = extra'[i][1]
                        /\ \A j2 \in 1..(j - 1) : o.ns[j2] # o.ns[j]
                        /\ extra'[i][2] = (IF o.ds = NONE THEN NAN ELSE o.ds[j])
          [] o.op = "reset" -> extra' = <<>> /\ NSNames(St') = Core /\ NSDefaults(St') = CoreDefaults
          [] o.op = "build" -> extra' = extra /\ NSNames(St') = NSNames(St)
                                              /\ NSDefaults(St') = NSDefaults(St)
    ]_vars

\* arrays built earlier are what they were, whatever happened to the registry
HeldUnchanged == [][\A i \in DOMAIN held : held'[i] = held[i]]_vars
HeldReflectBirth ==
    \A i \in DOMAIN held :
        LET h == held[i] IN
        /\ h.arr.fields = PN(1) \o h.ns
        /\ \A k \in DOMAIN h.ns : h.arr.col[1 + k] = <<h.nd[k]>>
        /\ ToArray(h.arr, PN(1)) = Mat(1, 1)

-----------------------------------------------------------------------------
(* Theorems about the conversions, in every registry state, for every     *)
(* parameter list, shape and both settings of non_sampling_parameters      *)

Cases == {<<d, n, nsp>> : d \in 1..MaxD, n \in 0..MaxN, nsp \in BOOLEAN}

A0(c) == FromArray(Mat(c[2], c[1]), PN(c[1]), St, c[3])

\* names and order: the given names first, in the given order, then (only if
\* asked for) logP, logL, it and the registered extras in registration order
NamesAndOrder ==
    \A c \in Cases :
        /\ A0(c).fields = PN(c[1]) \o (IF c[3] THEN Core \o ENamesOf(extra) ELSE <<>>)
        /\ Empty(c[2], PN(c[1]), St, c[3]).fields = A0(c).fields
        /\ A0(c).n = c[2]
        /\ \A k \in DOMAIN A0(c).fields : Len(A0(c).col[k]) = c[2]

\* defaults: logP, logL NaN, it 0, every extra its registered default; an
\* empty array has NaN parameters
Defaults ==
    \A c \in Cases :
        LET d == c[1]  A == A0(c)  E == Empty(c[2], PN(d), St, c[3]) IN
        /\ \A k \in 1..d : \A i \in 1..c[2] : E.col[k][i] = NAN
        /\ c[3] => \A i \in 1..c[2] :
              /\ A.col[d + 1][i] = NAN /\ A.col[d + 2][i] = NAN /\ A.col[d + 3][i] = 0
              /\ \A j \in DOMAIN extra : A.col[d + 3 + j][i] = extra[j][2]
              /\ \A k \in (d + 1)..Len(A.fields) : E.col[k][i] = A.col[k][i]

\* values: every conversion and its way back are the identity
RoundTrips ==
    \A c \in Cases :
        LET d == c[1]  n == c[2]  nsp == c[3]  names == PN(d)  M == Mat(n, d)  A == A0(c) IN
        /\ ToArray(A, names) = M                                   \* array -> lp -> array
        /\ ToArray(A, A.fields) = [i \in 1..n |-> M[i] \o NSTail(St, nsp)]
        /\ ToDict(A, names).keys = names
        /\ \A k \in 1..d : ToDict(A, names).vals[k] = Column(M, k)
        /\ FromDict(ToDict(A, names), St, nsp) = A                 \* lp -> dict -> lp
        /\ ToDict(FromDict(ToDict(A, names), St, nsp), names) = ToDict(A, names)
        /\ FromDataFrame(DFOf(A, names), St, nsp) = A              \* lp -> frame -> lp
        /\ n = 1 => FromParameters(M[1], names, St, nsp) = A       \* one point
        /\ n = 0 => FromParameters(<<>>, names, St, nsp) = A       \* none
        /\ FromArray(ToArray(A, names), names, St, nsp) = A
        \* a permutation of the keys permutes the fields and nothing else
        /\ d >= 2 =>
              LET rev == [k \in 1..d |-> names[d + 1 - k]]
                  B   == FromDict(ToDict(A, rev), St, nsp)
              IN  /\ B.fields = rev \o (IF nsp THEN NSNames(St) ELSE <<>>)
                  /\ \A k \in 1..d : ToDict(B, names).vals[k] = Column(M, k)

\* the unstructured view: the dtype a model computed in ANY registry state
\* (here: the current one -- the invariant holds in all of them and the
\* offsets do not depend on the state) is a window on exactly the parameters
\* of an array built in any state with or without non-sampling fields
ViewIsWindow ==
    \A c \in Cases :
        LET d == c[1]  n == c[2]  names == PN(d)  A == A0(c)
            offs == ModelViewDtype(names, St) IN
        /\ offs = [k \in 1..d |-> 8 * (k - 1)]
        /\ offs = ViewDtype(A.fields, names)
        /\ ViewOK(offs)
        /\ View(A, offs) = Mat(n, d)
        /\ ItemSize(A.fields) = 8 * d + (IF c[3] THEN 20 + 8 * Len(extra) ELSE 0)
        /\ \A i \in 1..n, k \in 1..d :
              LET W == WriteView(A, offs, i, k, 77) IN
              /\ View(W, offs)[i][k] = 77
              /\ \A f \in DOMAIN A.fields, j \in 1..n :
                    (f # k \/ j # i) => W.col[f][j] = A.col[f][j]

-----------------------------------------------------------------------------
(* Export for replay into the real code                                    *)

\* every edge with a path from the initial state and what a new array must see
ExportEdge ==
    PrintT("EDGE " \o ToJson([h |-> hist', x |-> extra', cn |-> cN' # <<>>, cd |-> cD' # <<>>,
                              ns |-> NSNames(St'), nd |-> NSDefaults(St')]))

\* once per registry value: the results of the conversions
CaseOut(c) ==
    LET A == A0(c) IN
    [d |-> c[1], n |-> c[2], nsp |-> c[3],
     lp |-> A, empty |-> Empty(c[2], PN(c[1]), St, c[3]),
     arr_all |-> ToArray(A, A.fields), arr_par |-> ToArray(A, PN(c[1])),
     dict_all |-> ToDict(A, A.fields),
     view |-> View(A, ModelViewDtype(PN(c[1]), St)),
     itemsize |-> ItemSize(A.fields)]

\* the cases as a sequence: index j-1 = ((d-1)*(MaxN+1) + n)*2 + (1 if nsp)
CaseAt(j) == <<((j - 1) \div (2 * (MaxN + 1))) + 1, ((j - 1) \div 2) % (MaxN + 1), (j - 1) % 2 = 1>>

ExportState ==
    IF cN = <<>> /\ cD = <<>> /\ held = <<>>
    THEN PrintT("TAB " \o ToJson([ns |-> NSNames(St), nd |-> NSDefaults(St),
                                  cases |-> [j \in 1..(2 * MaxD * (MaxN + 1)) |-> CaseOut(CaseAt(j))]]))
    ELSE TRUE
=============================================================================
