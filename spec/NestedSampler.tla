---------------------------- MODULE NestedSampler ----------------------------
(***************************************************************************)
(* The standard nested sampler (nessai.samplers.nestedsampler.NestedSampler *)
(* driven by nessai.flowsampler.FlowSampler): the live set, the discarded  *)
(* ("dead") points, the evidence integrator's entries, insertion indices,  *)
(* the proposal pool, training, checkpointing, asynchronous termination    *)
(* signals, process kills, resuming and running again.                     *)
(*                                                                         *)
(* Abstraction.  A point is an id; rank[id] is the dense rank of its       *)
(* log-likelihood (ties preserved), ok[id] says its prior is finite and it  *)
(* lies inside the bounds.  The object that pickling saves is the record   *)
(* s; the locals of the running frame (program counter, worst, cand, idx,   *)
(* finalise index) are the record loc and are LOST by a checkpoint.        *)
(*                                                                         *)
(* One action per statement group of the code (consume_sample is a seven   *)
(* step critical section).  The operations are pure functions on records,  *)
(* so that TraceNestedSampler can apply the same text to states logged by  *)
(* the real sampler.                                                       *)
(*                                                                         *)
(* Deliberate deviations of the code from "the design" are switched by     *)
(* constants: MidIterSignal (the handler pickles whatever half-updated     *)
(* object the interrupted statement left) and CkptOnTraining (a periodic   *)
(* checkpoint taken inside the critical section).  With both FALSE the     *)
(* invariants hold; with either TRUE TLC produces the schedules that the   *)
(* harness then tries on the real code.                                    *)
(***************************************************************************)
EXTENDS Integers, Sequences, FiniteSets, TLC, Json

CONSTANTS NLive,          \* number of live points
          MaxRank,        \* likelihood ranks 1..MaxRank
          MaxIt,          \* exploration bound on the iteration counter
          PoolN,          \* points per population of the proposal pool
          CapIt,          \* max_iteration (0 = none)
          CkptOnTraining, \* checkpoint_on_training
          MidIterSignal,  \* signals/kills may arrive inside an iteration
          MaxStops        \* bound on signals + kills per behaviour

VARIABLES s,     \* the sampler object (what a checkpoint saves)
          loc,   \* locals of the running frame (lost by a checkpoint)
          rank,  \* id -> likelihood rank
          ok,    \* id -> prior finite and inside the bounds
          disk,  \* <<>> or <<snapshot of s>>
          proc   \* [st: run | exited | dead, stops: Nat, code: Nat]

vars == <<s, loc, rank, ok, disk, proc>>

-----------------------------------------------------------------------------
Range(q) == {q[i] : i \in DOMAIN q}
Last(q)  == q[Len(q)]
NoDup(q) == \A i, j \in DOMAIN q : i # j => q[i] # q[j]

RanksOf(q, rk) == [i \in DOMAIN q |-> rk[q[i]]]

\* np.searchsorted(a, v) (left) on a sequence of ranks
SearchSortedLeft(a, v) == Cardinality({i \in DOMAIN a : a[i] < v})

NonDecreasing(q) == \A i \in 1..(Len(q) - 1) : q[i] <= q[i + 1]

-----------------------------------------------------------------------------
(* The steps of one iteration, as functions                                *)

\* worst = live_points[0].copy(); logLmin = worst["logL"]
RemoveWorstF(st, rk) == [st EXCEPT !.lmin = rk[Head(st.live)]]

\* state.increment(worst["logL"])           (n defaults to nlive)
IncrementF(st, worst, rk, n) == [st EXCEPT !.integ = Append(@, <<rk[worst], n>>)]

\* nested_samples.append(worst)
AppendDeadF(st, worst) == [st EXCEPT !.dead = Append(@, worst)]

\* condition = logaddexp(logZ, logLmax - it/nlive) - logZ ; compared with tolerance
ConditionF(st, above) == [st EXCEPT !.above = above]

\* iteration += 1
IncIterF(st) == [st EXCEPT !.it = @ + 1]

\* insert_live_point, first statement: live[:index-1] = live[1:index]
\* (index is computed with the worst point still at position 0)
InsertIndex(st, cand, rk) == SearchSortedLeft(RanksOf(st.live, rk), rk[cand])
InsertShiftF(st, idx) ==
    [st EXCEPT !.live = [k \in DOMAIN st.live |->
                            IF k < idx THEN st.live[k + 1] ELSE st.live[k]]]
\* second statement: live[index-1] = new    (0-based index-1 is position idx)
InsertPlaceF(st, idx, cand) == [st EXCEPT !.live[idx] = cand]

\* insertion_indices.append(index - 1)
RecordIndexF(st, idx) == [st EXCEPT !.ins = Append(@, idx - 1)]

\* one whole accepted replacement, boundary to boundary
ConsumeF(st, cand, rk, above) ==
    LET worst == Head(st.live)
        a == IncIterF(ConditionF(AppendDeadF(IncrementF(RemoveWorstF(st, rk), worst, rk, NLive),
                                             worst), above))
        idx == InsertIndex(a, cand, rk)
    IN  RecordIndexF(InsertPlaceF(InsertShiftF(a, idx), idx, cand), idx)

\* finalise: the i-th remaining live point (0-based i) is consumed with
\* nlive - i points
FinaliseOneF(st, i, rk) ==
    LET p == st.live[i + 1]
    IN  [st EXCEPT !.integ = Append(@, <<rk[p], NLive - i>>), !.dead = Append(@, p)]

-----------------------------------------------------------------------------
(* The property clauses, as predicates on sampler records                  *)

LiveSizeS(st)   == Len(st.live) = NLive
LiveSortedS(st, rk) == NonDecreasing(RanksOf(st.live, rk))
LiveNoDupS(st)  == NoDup(st.live)
DeadMonotoneS(st, rk) == NonDecreasing(RanksOf(st.dead, rk))
DeadOnceS(st)   == NoDup(st.dead)
DeadNotLiveS(st) == Range(st.dead) \cap Range(st.live) = {}
CountsAgreeS(st) ==
    /\ Len(st.dead) = Len(st.integ)
    /\ (~st.fin) => (Len(st.dead) = st.it /\ Len(st.ins) = st.it)
    /\ st.fin => Len(st.ins) = st.it
IntegMatchesDeadS(st, rk) ==
    Len(st.integ) = Len(st.dead) =>
        \A k \in DOMAIN st.dead : st.integ[k][1] = rk[st.dead[k]]

\* the replacement clause between two iteration boundaries
ReplaceS(pre, post, rk, okf) ==
    LET worst == Head(pre.live)
        new == post.live[Last(post.ins) + 1]
    IN  /\ post.dead = Append(pre.dead, worst)                   \* minimum removed, recorded once
        /\ Len(post.ins) = Len(pre.ins) + 1
        /\ Last(post.ins) \in 0..(NLive - 1)
        /\ new \notin Range(pre.live)                             \* a new point ...
        /\ [k \in 1..(NLive - 1) |->                               \* ... every other one untouched
              post.live[IF k <= Last(post.ins) THEN k ELSE k + 1]] = Tail(pre.live)
        /\ rk[new] > rk[worst]                                     \* strictly above the removed one
        /\ okf[new]                                                \* finite prior, inside the bounds
        /\ post.it = pre.it + 1

-----------------------------------------------------------------------------
(* The state machine                                                       *)

Null == <<>>

NewLoc(pc) == [pc |-> pc, worst |-> 0, cand |-> 0, idx |-> 0, fi |-> 0]

SortedRankVectors ==
    {f \in [1..NLive -> 1..MaxRank] : \A i \in 1..(NLive - 1) : f[i] <= f[i + 1]}

FreshS(ids) ==
    [live |-> ids, dead |-> <<>>, integ |-> <<>>, ins |-> <<>>, it |-> 0, lmin |-> 0,
     above |-> TRUE, fin |-> FALSE, poolLeft |-> 0, trainCount |-> 0, nckpt |-> 0,
     evals |-> NLive]

\* populate_live_points: NLive accepted points, sorted
Init ==
    /\ \E f \in SortedRankVectors :
          /\ rank = f
          /\ ok = [i \in 1..NLive |-> TRUE]
    /\ s = FreshS([i \in 1..NLive |-> i])
    /\ loc = NewLoc("loop")
    /\ disk = Null
    /\ proc = [st |-> "run", stops |-> 0, code |-> 0]

Running == proc.st = "run"
At(pc)  == Running /\ loc.pc = pc
Goto(pc) == loc' = [loc EXCEPT !.pc = pc]
Same    == UNCHANGED <<rank, ok, disk, proc>>

\* ---- nested_sampling_loop entry (also after a resume and on run-again)
Top ==
    /\ At("top")
    /\ IF s.fin THEN Goto("done") ELSE Goto("loop")
    /\ UNCHANGED s /\ Same

\* while condition > tolerance:
LoopGuard ==
    /\ At("loop")
    /\ IF s.above /\ s.it < MaxIt THEN Goto("check") ELSE Goto("exitloop")
    /\ UNCHANGED s /\ Same

\* training (check_state / train_proposal); with checkpoint_on_training the
\* periodic checkpoint is written from inside train_proposal
TrainF(st) == [st EXCEPT !.trainCount = @ + 1, !.poolLeft = 0]

\* check_state() at the top of the loop body
CheckState ==
    /\ At("check")
    /\ \/ UNCHANGED <<s, disk>>
       \/ /\ s' = TrainF(s)
          /\ disk' = IF CkptOnTraining THEN <<s'>> ELSE disk
    /\ Goto("cs0")
    /\ UNCHANGED <<rank, ok, proc>>

RemoveWorst ==
    /\ At("cs0")
    /\ s' = RemoveWorstF(s, rank)
    /\ loc' = [loc EXCEPT !.pc = "cs1", !.worst = Head(s.live)]
    /\ Same

Increment ==
    /\ At("cs1")
    /\ s' = IncrementF(s, loc.worst, rank, NLive)
    /\ Goto("cs2") /\ Same

AppendDead ==
    /\ At("cs2")
    /\ s' = AppendDeadF(s, loc.worst)
    /\ Goto("cs3") /\ Same

Condition ==
    /\ At("cs3")
    /\ \E above \in BOOLEAN : s' = ConditionF(s, above)
    /\ Goto("cs4") /\ Same

IncIter ==
    /\ At("cs4")
    /\ s' = IncIterF(s)
    /\ Goto("draw") /\ Same

\* proposal.draw(): populate if the pool is empty, pop one candidate.  The
\* environment decides the outcome: a candidate that is rejected (prior not
\* finite / outside the bounds / likelihood not strictly above logLmin) gets no
\* id; an accepted one has a rank strictly above logLmin and a valid prior.
Draw ==
    /\ At("draw")
    /\ LET left == (IF s.poolLeft = 0 THEN PoolN ELSE s.poolLeft) - 1
           ev   == IF s.poolLeft = 0 THEN s.evals + PoolN ELSE s.evals
       IN  /\ s' = [s EXCEPT !.poolLeft = left, !.evals = ev]
           /\ \/ \E r \in (s.lmin + 1)..MaxRank :          \* accepted
                    /\ rank' = Append(rank, r)
                    /\ ok' = Append(ok, TRUE)
                    /\ loc' = [loc EXCEPT !.pc = "ins0", !.cand = Len(rank) + 1]
              \/ /\ UNCHANGED <<rank, ok>>                  \* rejected
                 /\ IF left > 0 THEN UNCHANGED loc ELSE Goto("rejected")
    /\ UNCHANGED <<disk, proc>>

\* the pool ran empty without an acceptable point: check_state() INSIDE the
\* critical section (may train, may checkpoint), then draw again
Rejected ==
    /\ At("rejected")
    /\ \/ UNCHANGED <<s, disk>>
       \/ /\ s' = TrainF(s)
          /\ disk' = IF CkptOnTraining THEN <<s'>> ELSE disk
    /\ Goto("draw")
    /\ UNCHANGED <<rank, ok, proc>>

InsertShift ==
    /\ At("ins0")
    /\ LET idx == InsertIndex(s, loc.cand, rank)
       IN  /\ s' = InsertShiftF(s, idx)
           /\ loc' = [loc EXCEPT !.pc = "ins1", !.idx = idx]
    /\ Same

InsertPlace ==
    /\ At("ins1")
    /\ s' = InsertPlaceF(s, loc.idx, loc.cand)
    /\ Goto("ins2") /\ Same

RecordIndex ==
    /\ At("ins2")
    /\ s' = RecordIndexF(s, loc.idx)
    /\ Goto("upd") /\ Same

\* update_state(): history, periodic checkpoint if due (environment decides)
UpdateState ==
    /\ At("upd")
    /\ \/ UNCHANGED disk
       \/ disk' = <<s>>
    /\ IF CapIt > 0 /\ s.it >= CapIt THEN Goto("exitloop") ELSE Goto("loop")
    /\ UNCHANGED <<s, rank, ok, proc>>

\* after the loop: finalise only if not finalised and converged
ExitLoop ==
    /\ At("exitloop")
    /\ IF ~s.fin /\ ~s.above
       THEN loc' = [loc EXCEPT !.pc = "fin", !.fi = 0]
       ELSE Goto("finalckpt")
    /\ UNCHANGED s /\ Same

FinaliseOne ==
    /\ At("fin") /\ loc.fi < Len(s.live)
    /\ s' = FinaliseOneF(s, loc.fi, rank)
    /\ loc' = [loc EXCEPT !.fi = @ + 1]
    /\ Same

FinaliseEnd ==
    /\ At("fin") /\ loc.fi = Len(s.live)
    /\ s' = [s EXCEPT !.live = <<>>, !.fin = TRUE]
    /\ Goto("finalckpt") /\ Same

\* checkpoint(periodic=True, force=True) at the end of nested_sampling_loop
FinalCheckpoint ==
    /\ At("finalckpt")
    /\ disk' = <<s>>
    /\ Goto("done")
    /\ UNCHANGED <<s, rank, ok, proc>>

\* run() again on the same object
RunAgain ==
    /\ At("done")
    /\ Goto("top")
    /\ UNCHANGED s /\ Same

BoundaryPcs == {"top", "loop", "done", "exitloop", "finalckpt"}

\* SIGTERM / SIGINT / SIGALRM: safe_exit -> checkpoint(periodic=False) of the
\* CURRENT object, then sys.exit(exit_code)
Signal ==
    /\ Running /\ proc.stops < MaxStops
    /\ MidIterSignal \/ loc.pc \in BoundaryPcs
    /\ disk' = <<[s EXCEPT !.nckpt = @ + 1]>>
    /\ proc' = [st |-> "exited", stops |-> proc.stops + 1, code |-> 130]
    /\ UNCHANGED <<s, loc, rank, ok>>

\* SIGKILL / power cut: nothing is written
Kill ==
    /\ Running /\ proc.stops < MaxStops
    /\ MidIterSignal \/ loc.pc \in BoundaryPcs
    /\ proc' = [st |-> "dead", stops |-> proc.stops + 1, code |-> 137]
    /\ UNCHANGED <<s, loc, rank, ok, disk>>

\* FlowSampler(resume=True) in a new process: the pickled object, the frame
\* restarts at the top of nested_sampling_loop whatever it was doing
Resume ==
    /\ proc.st \in {"exited", "dead"}
    /\ IF disk = Null
       THEN s' = FreshS([i \in 1..NLive |-> i])   \* no checkpoint yet: the run starts afresh
       ELSE s' = disk[1]
    /\ loc' = NewLoc("top")
    /\ proc' = [proc EXCEPT !.st = "run"]
    /\ UNCHANGED <<rank, ok, disk>>

Next ==
    \/ Top \/ LoopGuard \/ CheckState \/ RemoveWorst \/ Increment \/ AppendDead
    \/ Condition \/ IncIter \/ Draw \/ Rejected \/ InsertShift \/ InsertPlace
    \/ RecordIndex \/ UpdateState \/ ExitLoop \/ FinaliseOne \/ FinaliseEnd
    \/ FinalCheckpoint \/ RunAgain \/ Signal \/ Kill \/ Resume

Spec == Init /\ [][Next]_vars

-----------------------------------------------------------------------------
(* Training / proposal policy (beyond the listed properties).               *)
(*                                                                         *)
(* The policy of check_state / check_training / train_proposal /           *)
(* check_proposal_switch / update_state as predicates on two consecutive   *)
(* iteration-boundary observations                                         *)
(*   o = [it, phase, train, lastTrain, nhist, pool, poolsize]              *)
(* so that the trace specification can require them of real runs.  They    *)
(* are model-shape (M) clauses: a run that departs from them still has to  *)
(* satisfy the properties, but the exhaustive results no longer transfer.  *)

\* the sampler starts with the uninformed proposal and switches once
PhaseMonotone(pre, post) == pre.phase = "flow" => post.phase = "flow"

\* it switches no later than the iteration after maximum_uninformed
SwitchByMaximum(post, maxUninformed) ==
    (post.phase = "uninformed") => post.it <= maxUninformed

\* the flow is only trained once the flow proposal is in use
TrainOnlyInFlow(pre, post) == post.train > pre.train => post.phase = "flow"

\* at most one training per check_state and a forced one inside the critical section
TrainStep(pre, post) == post.train - pre.train \in {0, 1, 2}

\* cooldown: two trainings that are not forced by an empty pool are at least `cooldown' iterations apart;
\* a forced training (pool empty, train_on_empty) may come at any time
CooldownRespected(pre, post, cooldown, trainOnEmpty) ==
    (post.train > pre.train /\ pre.train > 0 /\ ~trainOnEmpty)
        => post.lastTrain - pre.lastTrain >= cooldown \/ post.lastTrain = pre.lastTrain

\* training empties the pool: the next draw repopulates (pool is full minus the draws since)
TrainingResetsPool(pre, post) ==
    (post.train > pre.train /\ post.phase = "flow") => post.pool <= post.poolsize

\* update_state: one history entry every nlive // 10 iterations
HistoryCadence(post, nlive) ==
    LET every == nlive \div 10 IN post.nhist >= post.it \div every

-----------------------------------------------------------------------------
(* Invariants (C01, C05, C13) at iteration boundaries                      *)

AtBoundary == Running /\ loc.pc \in {"loop", "done"}

LiveSize     == (AtBoundary /\ ~s.fin) => LiveSizeS(s)
LiveSorted   == (AtBoundary /\ ~s.fin) => LiveSortedS(s, rank)
LiveNoDup    == (AtBoundary /\ ~s.fin) => LiveNoDupS(s)
DeadMonotone == AtBoundary => DeadMonotoneS(s, rank)
DeadOnce     == AtBoundary => DeadOnceS(s)
DeadNotLive  == AtBoundary => DeadNotLiveS(s)
CountsAgree  == AtBoundary => CountsAgreeS(s)
IntegMatches == AtBoundary => IntegMatchesDeadS(s, rank)

\* terminal (C05): a finalised run returned iterations + live points samples,
\* a cap-stopped one iterations
Terminal ==
    (Running /\ loc.pc = "done") =>
        /\ s.fin => Len(s.dead) = s.it + NLive
        /\ ~s.fin => Len(s.dead) = s.it
        /\ \A k \in DOMAIN s.integ : k > s.it => s.integ[k][2] = NLive - (k - s.it - 1)
        /\ \A k \in DOMAIN s.integ : k <= s.it => s.integ[k][2] = NLive

\* C15: a finished run is idempotent under run-again / resume
Idempotent ==
    [][ (loc.pc = "done" /\ s.fin /\ Running /\ proc'.st = "run" /\ loc'.pc # "done")
            => UNCHANGED <<s, rank, disk>> ]_vars

\* C15: the loop body is entered only while the condition holds
StopRule ==
    [][ (loc.pc = "loop" /\ loc'.pc = "check") => s.above ]_vars

TypeOK ==
    /\ s.it \in 0..(MaxIt + 1)
    /\ Len(rank) = Len(ok)
    /\ s.poolLeft \in 0..PoolN

\* state constraint for TLC
Bounded ==
    /\ Len(rank) <= NLive + MaxIt + 1
    /\ s.trainCount <= 1
    /\ s.evals <= NLive + PoolN * (MaxIt + 1)
    /\ s.nckpt <= MaxStops
=============================================================================
