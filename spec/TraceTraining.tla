---------------------------- MODULE TraceTraining ----------------------------
(***************************************************************************)
(* Trace validation of real flow trainings against Training.tla.  One      *)
(* event per training: the validation losses per epoch as dense ranks,     *)
(* max_epochs, patience, whether validation was used, and the epoch whose  *)
(* weights the model holds afterwards (found by comparing digests).        *)
(* Everything here is model shape (M): training is not one of the listed   *)
(* properties.                                                             *)
(***************************************************************************)
EXTENDS Integers, Sequences, TLC, Json, IOUtils

J == JsonDeserialize(IOEnv.TRACE_FILE)
Ev == J.ev

VARIABLES l
vars == <<l>>

Say(c) == PrintT("TR " \o ToJson([k |-> "M", p |-> "", tid |-> 1, l |-> l, c |-> c]))
M(c, cond) == IF cond THEN TRUE ELSE Say(c)

\* the first epoch with the lowest validation loss
Best(h) == CHOOSE b \in 1..Len(h) : (\A k \in 1..Len(h) : h[k] >= h[b]) /\ (\A k \in 1..(b - 1) : h[k] > h[b])

\* the run of Training.tla that this loss sequence drives: it stops at the first epoch n with
\* n - best(n) > patience, or at max_epochs
StopsAt(h, patience, n) ==
    LET hn == SubSeq(h, 1, n) IN n - Best(hn) > patience

Init == l = 1

Step ==
    /\ l <= Len(Ev)
    /\ LET e == Ev[l]
           n == Len(e.losses)
       IN  /\ M("training: more epochs than max_epochs", n <= e.max_epochs /\ n >= 1)
           /\ (e.validate =>
                 /\ M("training: continued although the patience was exhausted",
                      \A k \in 1..(n - 1) : ~StopsAt(e.losses, e.patience, k))
                 /\ M("training: stopped early without exhausting the patience",
                      n = e.max_epochs \/ StopsAt(e.losses, e.patience, n))
                 /\ M("training: the weights kept are not those of the best epoch",
                      e.restored = Best(e.losses)))
           /\ (~e.validate => M("training: without validation the last weights are kept", e.restored = n))
    /\ l' = l + 1

Done == l = Len(Ev) + 1 /\ PrintT("TR " \o ToJson([k |-> "done", p |-> "", tid |-> 1, l |-> l, c |-> ""])) /\ l' = l + 1

Next == Step \/ Done
TraceSpec == Init /\ [][Next]_vars
=============================================================================
