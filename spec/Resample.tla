------------------------------ MODULE Resample ------------------------------
(***************************************************************************)
(* Drawing posterior samples from weighted nested samples                  *)
(* (nessai.posterior.draw_posterior_samples, nessai.utils.stats.           *)
(*  effective_sample_size, _BaseNSIntegralState.effective_n_posterior_     *)
(*  samples, ImportanceNestedSampler.draw_posterior_samples).              *)
(*                                                                         *)
(* THE RANDOM SOURCE IS AN INPUT.  A weight is the rational w[i] / WDen    *)
(* (the common denominator and every positive scaling cancel in all rules, *)
(* so only the numerators appear); 0 is a log-weight of -inf.  A uniform   *)
(* is the rational u / UDen in [0, 1).  Positions are 1-based here, the    *)
(* code's index is position - 1.  The input sample at position i is        *)
(* represented by SampleId(i).                                             *)
(*                                                                         *)
(*   rejection    one uniform per position; position i is kept iff         *)
(*                w[i] / max(w) > u[i].  The scan is written position by   *)
(*                position: the decision at i reads w[i], max(w), u[i] and *)
(*                nothing else ("independently").                          *)
(*   multinomial  the sampler (numpy.random.choice) receives the           *)
(*                population size, p = w / sum(w) and the number of draws: *)
(*                the requested n, or the integer part of Kish's effective *)
(*                sample size (sum w)^2 / sum w^2; what it returns (any    *)
(*                vector over the support) are the indices.                *)
(*                                                                         *)
(* The history of uniforms `us` is hidden by the VIEW: the state after     *)
(* position i depends on (w, i, kept) only, so the complete graph under    *)
(* the view covers every (weight vector, uniform vector) pair while every  *)
(* edge (w, i, kept, u) is exported once, with a path that reaches it.     *)
(***************************************************************************)
EXTENDS Integers, Sequences, FiniteSets, TLC, Json

CONSTANTS MaxLen,    \* weight vectors of length 1..MaxLen
          WNums,     \* alphabet of weight numerators (naturals, 0 = -inf)
          UNums,     \* grid of uniforms: numerators over UDen, all < UDen
          UDen,
          Reqs,      \* requested numbers of draws (naturals); None is added
          Scales     \* positive integers: scalings under which ESS is invariant

NoReq == -1          \* n = None

-----------------------------------------------------------------------------
(* The rules, as pure operators                                            *)

RECURSIVE SumTo(_, _)
SumTo(f, k) == IF k = 0 THEN 0 ELSE f[k] + SumTo(f, k - 1)

S1(w) == SumTo(w, Len(w))                                    \* sum w
S2(w) == SumTo([i \in DOMAIN w |-> w[i] * w[i]], Len(w))     \* sum w^2
MaxW(w) == CHOOSE m \in {w[i] : i \in DOMAIN w} : \A j \in DOMAIN w : w[j] <= m
Positive(w) == {i \in DOMAIN w : w[i] > 0}
Scaled(w, k) == [i \in DOMAIN w |-> k * w[i]]
Range(s) == {s[i] : i \in DOMAIN s}
SampleId(i) == 100 + i

\* log_w - max(log_w) > log(u)   <=>   w[i] / max(w) > u / UDen
Keep(w, i, u) == w[i] * UDen > u * MaxW(w)

\* np.where(log_w > log_u)[0] for a whole vector of uniforms
KeptOf(w, us) == SelectSeq([i \in DOMAIN w |-> i], LAMBDA i : Keep(w, i, us[i]))

\* Kish's effective sample size as the exact rational EssNum / EssDen
EssNum(w) == S1(w) * S1(w)
EssDen(w) == S2(w)
EssFloor(w) == EssNum(w) \div EssDen(w)                      \* int(ess)

\* the probability vector handed to the sampler: p[i] = <<w[i], sum w>>
PVec(w) == [i \in DOMAIN w |-> <<w[i], S1(w)>>]

SizeOf(w, n) == IF n = NoReq THEN EssFloor(w) ELSE n

\* The draws the sampler may return are ANY vector over the support; the
\* model explores a family: start at the first or the last element of the
\* support, then stay there (c = 0) or cycle through the support (c = 1).
Supp(w) == SelectSeq([i \in DOMAIN w |-> i], LAMBDA i : w[i] > 0)
DrawVec(w, n, s, c) ==
    [k \in 1..n |-> Supp(w)[((s - 1 + (k - 1) * c) % Len(Supp(w))) + 1]]
DrawFamily(w, n) == {DrawVec(w, n, s, c) : s \in {1, Len(Supp(w))}, c \in {0, 1}}

-----------------------------------------------------------------------------
VARIABLES w,        \* the weights (numerators)
          method,   \* "rejection" | "multinomial"
          nreq,     \* requested n, NoReq = None
          pc,       \* "build"* -> "start" -> "scan"* | "draw" -> "gather" -> "done"
          pos,      \* rejection: next position to decide
          us,       \* rejection: uniforms consumed so far (history, not in the VIEW)
          idx,      \* kept positions so far / the draws
          pvec,     \* multinomial: p as handed to the sampler
          size,     \* multinomial: number of draws handed to the sampler
          outIdx,   \* returned indices (as positions)
          outSmp    \* returned samples (ids)

vars == <<w, method, nreq, pc, pos, us, idx, pvec, size, outIdx, outSmp>>
view == <<w, method, nreq, pc, pos, idx, pvec, size, outIdx, outSmp>>

\* The input is chosen first (TLC computes initial states with one thread, so
\* the weight vector is built by actions rather than enumerated in Init).
Init ==
    /\ w = <<>> /\ method = "none" /\ nreq = NoReq
    /\ pc = "build" /\ pos = 0 /\ us = <<>> /\ idx = <<>> /\ pvec = <<>>
    /\ size = 0 /\ outIdx = <<>> /\ outSmp = <<>>

Build(x) ==
    /\ pc = "build" /\ Len(w) < MaxLen
    /\ w' = Append(w, x)
    /\ UNCHANGED <<method, nreq, pc, pos, us, idx, pvec, size, outIdx, outSmp>>

Choose(m, n) ==
    /\ pc = "build" /\ Len(w) >= 1
    /\ \E i \in DOMAIN w : w[i] > 0                 \* some finite log-weight
    /\ (m = "rejection" => n = NoReq)                \* n is ignored by rejection
    /\ method' = m /\ nreq' = n /\ pc' = "start"
    /\ UNCHANGED <<w, pos, us, idx, pvec, size, outIdx, outSmp>>

RejStart ==
    /\ pc = "start" /\ method = "rejection"
    /\ pc' = "scan" /\ pos' = 1
    /\ UNCHANGED <<w, method, nreq, us, idx, pvec, size, outIdx, outSmp>>

Scan(u) ==
    /\ pc = "scan"
    /\ idx' = IF Keep(w, pos, u) THEN Append(idx, pos) ELSE idx
    /\ us' = Append(us, u)
    /\ pos' = pos + 1
    /\ pc' = IF pos = Len(w) THEN "gather" ELSE "scan"
    /\ UNCHANGED <<w, method, nreq, pvec, size, outIdx, outSmp>>

MultStart ==
    /\ pc = "start" /\ method = "multinomial"
    /\ size' = SizeOf(w, nreq)
    /\ pvec' = PVec(w)
    /\ pc' = "draw"
    /\ UNCHANGED <<w, method, nreq, pos, us, idx, outIdx, outSmp>>

\* the sampler answers with d
Draw(d) ==
    /\ pc = "draw"
    /\ idx' = d
    /\ pc' = "gather"
    /\ UNCHANGED <<w, method, nreq, pos, us, pvec, size, outIdx, outSmp>>

\* samples = nested_samples[indices]
Gather ==
    /\ pc = "gather"
    /\ outIdx' = idx
    /\ outSmp' = [k \in DOMAIN idx |-> SampleId(idx[k])]
    /\ pc' = "done"
    /\ UNCHANGED <<w, method, nreq, pos, us, idx, pvec, size>>

Next ==
    \/ (pc = "build" /\ \E x \in WNums : Build(x))
    \/ \E m \in {"rejection", "multinomial"} : \E n \in {NoReq} \cup Reqs : Choose(m, n)
    \/ RejStart
    \/ (pc = "scan" /\ \E u \in UNums : Scan(u))
    \/ MultStart
    \/ (pc = "draw" /\ \E d \in DrawFamily(w, size) : Draw(d))   \* (guard first: TLC enumerates the set before the action)
    \/ Gather

Spec == Init /\ [][Next]_vars /\ WF_vars(Next)

-----------------------------------------------------------------------------
(* Theorems checked by TLC                                                 *)

TypeOK ==
    /\ pc \in {"build", "start", "scan", "draw", "gather", "done"}
    /\ pc # "build" => (Len(w) \in 1..MaxLen /\ Positive(w) # {})
    /\ \A i \in DOMAIN w : w[i] \in WNums
    /\ \A u \in UNums : u >= 0 /\ u < UDen

\* --- rejection -------------------------------------------------------------
\* for EVERY uniform of the grid: a maximum-weight sample is kept, a
\* zero-weight sample is not (quantified over the grid, independent of paths)
MaxAlwaysZeroNever ==
    pc = "start" =>
        \A i \in DOMAIN w : \A u \in UNums :
            /\ (w[i] = MaxW(w) => Keep(w, i, u))
            /\ (w[i] = 0 => ~Keep(w, i, u))

\* a larger weight is kept whenever a smaller one is, at the same uniform
KeepMonotone ==
    pc = "start" =>
        \A i, j \in DOMAIN w : \A u \in UNums :
            (w[i] <= w[j] /\ Keep(w, i, u)) => Keep(w, j, u)

\* on the behaviour: what has been decided so far
RejectionSoFar ==
    (method = "rejection" /\ pc \notin {"build", "start"}) =>
        /\ Len(us) = pos - 1
        /\ \A k \in 1..(Len(idx) - 1) : idx[k] < idx[k + 1]       \* strictly increasing
        /\ \A k \in DOMAIN idx : idx[k] \in 1..(pos - 1)
        /\ \A i \in 1..(pos - 1) : (i \in Range(idx)) <=> Keep(w, i, us[i])
        /\ \A i \in 1..(pos - 1) : (w[i] = MaxW(w) => i \in Range(idx))
        /\ \A i \in 1..(pos - 1) : (w[i] = 0 => i \notin Range(idx))

\* deciding position by position is the vectorised comparison
RejectionWhole ==
    (method = "rejection" /\ pc \in {"gather", "done"}) =>
        /\ idx = KeptOf(w, us)
        /\ Len(idx) >= 1

\* the same, on EVERY transition (invariants are evaluated on the
\* representative history of a view-state only)
ScanRule ==
    pc = "scan" =>
        /\ (Keep(w, pos, us'[pos]) => idx' = Append(idx, pos))
        /\ (~Keep(w, pos, us'[pos]) => idx' = idx)
        /\ (w[pos] = MaxW(w) => idx' # idx)
        /\ (w[pos] = 0 => idx' = idx)
StepOK == [][ScanRule]_vars

\* --- effective sample size (theorems about w alone: evaluated once per weight
\* vector, in its initial states) ------------------------------------------
EssBounds ==
    pc = "start" =>
        /\ EssDen(w) > 0
        /\ EssDen(w) <= EssNum(w)                                    \* 1 <= ESS
        /\ EssNum(w) <= Cardinality(Positive(w)) * EssDen(w)         \* ESS <= #{w > 0}
        /\ 1 <= EssFloor(w) /\ EssFloor(w) <= Cardinality(Positive(w))

\* ESS(k w) = ESS(w): a constant added to all log-weights
EssScaleInvariant ==
    pc = "start" =>
        \A k \in Scales :
            EssNum(Scaled(w, k)) * EssDen(w) = EssNum(w) * EssDen(Scaled(w, k))

\* ESS = #{w > 0} exactly when all positive weights are equal
EssExtremes ==
    pc = "start" =>
        ((EssNum(w) = Cardinality(Positive(w)) * EssDen(w))
            <=> (\A i, j \in Positive(w) : w[i] = w[j]))

\* --- multinomial -----------------------------------------------------------
PVecOK ==
    (method = "multinomial" /\ pc \notin {"build", "start"}) =>
        /\ Len(pvec) = Len(w)
        /\ SumTo([i \in DOMAIN pvec |-> pvec[i][1]], Len(pvec)) = pvec[1][2]   \* sums to one
        /\ \A i \in DOMAIN w : pvec[i][2] = pvec[1][2] /\ pvec[i][2] > 0
        /\ \A i \in DOMAIN w : (pvec[i][1] = 0) <=> (w[i] = 0)
        /\ \A i, j \in DOMAIN w : pvec[i][1] * w[j] = pvec[j][1] * w[i]         \* p proportional to w

SizeOK ==
    (method = "multinomial" /\ pc \notin {"build", "start"}) =>
        /\ (nreq # NoReq => size = nreq)
        /\ (nreq = NoReq => size = EssFloor(w) /\ size >= 1 /\ size <= Cardinality(Positive(w)))
        /\ (pc \in {"gather", "done"} =>
                /\ Len(idx) = size
                /\ \A k \in DOMAIN idx : idx[k] \in Positive(w))

\* --- both ------------------------------------------------------------------
Returned ==
    pc = "done" =>
        /\ \A k \in DOMAIN outIdx : outIdx[k] \in DOMAIN w             \* elements of the input
        /\ Len(outSmp) = Len(outIdx)
        /\ \A k \in DOMAIN outIdx : outSmp[k] = SampleId(outIdx[k])    \* indices identify them
        /\ (method = "multinomial" => Len(outSmp) = size)
        /\ (method = "rejection" => outIdx = KeptOf(w, us))

\* every call returns (an all-zero vector is never chosen as an input)
Terminates == (pc = "start") ~> (pc = "done")

-----------------------------------------------------------------------------
(* Export for replay.  One line per edge of the rejection scan (the path   *)
(* of uniforms that reaches it and the positions kept so far), one per     *)
(* (weights, request, draw vector), one per weight vector for the ESS.     *)
Export ==
    /\ (pc = "scan" =>
            PrintT("REJ " \o ToJson([w |-> w, us |-> us', kept |-> idx'])))
    /\ (pc = "draw" =>
            PrintT("MUL " \o ToJson([w |-> w, none |-> (nreq = NoReq),
                                      nreq |-> IF nreq = NoReq THEN 0 ELSE nreq,
                                      size |-> size,
                                      pnum |-> [i \in DOMAIN pvec |-> pvec[i][1]],
                                      pden |-> pvec[1][2],
                                      draws |-> idx'])))
    /\ ((pc = "start" /\ method = "rejection") =>
            PrintT("ESS " \o ToJson([w |-> w, num |-> EssNum(w), den |-> EssDen(w),
                                      floor |-> EssFloor(w),
                                      npos |-> Cardinality(Positive(w))])))
=============================================================================
