---------------------------- MODULE TracePoolLife ----------------------------
(***************************************************************************)
(* Trace validation of the multiprocessing-pool operations of real runs    *)
(* (wrappers on multiprocessing.pool.Pool, vf/runner.py trace_pool)        *)
(* against PoolLife.tla.  Events: start, pool_new, pool_map, pool_close,   *)
(* pool_terminate, pool_join, signal, ckpt, done, proc_end.  All clauses   *)
(* are M-clauses (the pool life cycle is beyond the listed properties).    *)
(***************************************************************************)
EXTENDS PoolLife, IOUtils, Json

J   == JsonDeserialize(IOEnv.TRACE_FILE)
Ev  == J.ev
Win == J.win

VARIABLES tid, l

tvars == <<vars, tid, l>>

Say(k, p, c) == PrintT("TR " \o ToJson([k |-> k, p |-> p, tid |-> tid, l |-> l, c |-> c]))
M(c, cond)    == IF cond THEN TRUE ELSE Say("M", "", c)

TraceInit ==
    /\ tid \in 1..Len(Win) /\ l = Win[tid][1]
    /\ pool = "none" /\ phase = "init" /\ todo = <<>> /\ sig = 0
    /\ evals = 0 /\ stops = 0 /\ pickled = "absent" /\ ckptInHandler = FALSE

Op(e, op) ==
    \E nxt \in {PoolStep(pool, op)} :
        /\ M("pool: " \o op \o " is not a step of PoolLife.PoolStep from state " \o pool, nxt # "error")
        /\ pool' = IF nxt = "error" THEN pool ELSE nxt
        \* inside a close_pool call the operations come in the order of CloseOps(code)
        /\ IF op \in {"close", "terminate", "join"}
           THEN /\ M("pool: close_pool(code) does not perform CloseOps(code) (terminate only for SIGINT)",
                     (todo # <<>> /\ Head(todo) = op) \/ (todo = <<>> /\ op = Head(CloseOps(sig))))
                /\ todo' = IF todo # <<>> THEN Tail(todo) ELSE Tail(CloseOps(sig))
           ELSE UNCHANGED todo
        /\ UNCHANGED <<phase, sig, evals, stops, pickled, ckptInHandler>>

EvStart(e) ==
    /\ pool' = "none" /\ phase' = "sampling" /\ todo' = <<>> /\ sig' = 0 /\ ckptInHandler' = FALSE
    /\ UNCHANGED <<evals, stops, pickled>>

EvSignal(e) ==
    /\ sig' = e.signum /\ phase' = "handler"
    /\ UNCHANGED <<pool, todo, evals, stops, pickled, ckptInHandler>>

EvCkpt(e) ==
    /\ M("pool: the pickled sampler contains the pool", e.pool_none)
    /\ M("pool: the handler wrote the checkpoint before the pool was closed and joined",
         phase = "handler" => (pool \in {"none", "joined"} /\ todo = <<>>))
    /\ pickled' = "none"
    /\ ckptInHandler' = (ckptInHandler \/ phase = "handler")
    /\ UNCHANGED <<pool, phase, todo, sig, evals, stops>>

EvDone(e) ==
    /\ M("pool: run ended with close_pool=True but the pool is still open", e.close_pool => pool \in {"none", "joined"})
    /\ M("pool: run ended with close_pool=False but the pool was closed",
         (~e.close_pool /\ e.n_pool > 0) => pool = "open")
    /\ phase' = "done"
    /\ UNCHANGED <<pool, todo, sig, evals, stops, pickled, ckptInHandler>>

EvProcEnd(e) ==
    /\ M("pool: the handler exited without writing a checkpoint", phase = "handler" => ckptInHandler)
    /\ M("pool: the handler exited with the pool open", phase = "handler" => pool \in {"none", "joined"})
    /\ M("pool: exit code of the handler", phase = "handler" => e.code = e.expected_code)
    /\ phase' = "exited"
    /\ UNCHANGED <<pool, todo, sig, evals, stops, pickled, ckptInHandler>>

EvOther(e) == UNCHANGED vars

TraceStep ==
    /\ l <= Win[tid][2]
    /\ LET e == Ev[l] IN
         CASE e.ev = "start"          -> EvStart(e)
           [] e.ev = "pool_new"       -> Op(e, "new")
           [] e.ev = "pool_map"       -> Op(e, "map")
           [] e.ev = "pool_close"     -> Op(e, "close")
           [] e.ev = "pool_terminate" -> Op(e, "terminate")
           [] e.ev = "pool_join"      -> Op(e, "join")
           [] e.ev = "signal"         -> EvSignal(e)
           [] e.ev = "ckpt"           -> EvCkpt(e)
           [] e.ev = "done"           -> EvDone(e)
           [] e.ev = "proc_end"       -> EvProcEnd(e)
           [] OTHER                   -> EvOther(e)
    /\ l' = l + 1 /\ tid' = tid

TraceDone ==
    /\ l = Win[tid][2] + 1
    /\ Say("done", "", "")
    /\ l' = l + 1
    /\ UNCHANGED <<vars, tid>>

TraceNext == TraceStep \/ TraceDone
TraceSpec == TraceInit /\ [][TraceNext]_tvars
=============================================================================
