------------------------------ MODULE BatchEval ------------------------------
(***************************************************************************)
(* Batched / chunked / pooled evaluation of a user function               *)
(* (nessai.utils.multiprocessing.batch_evaluate_function,                  *)
(*  nessai.utils.structures.array_split_chunksize,                         *)
(*  nessai.model.Model.batch_evaluate_log_likelihood and friends).         *)
(*                                                                         *)
(* A batch is the index range 0..n-1; "f(x_i)" is represented by i.  A     *)
(* call is a half-open range <<lo, hi>> of indices handed to the function  *)
(* at once (vectorised) or a single index (non-vectorised).  With a pool   *)
(* the calls may be executed in ANY order (Pool.map only fixes where each  *)
(* result is put), which is the schedule quantifier of the property.       *)
(***************************************************************************)
EXTENDS Integers, Sequences, FiniteSets, TLC, Json

CONSTANTS MaxN,       \* batch sizes 0..MaxN
          MaxChunk,   \* chunk sizes 1..MaxChunk, 0 = None
          MaxPool     \* n_pool 1..MaxPool, 0 = None

VARIABLES n, chunk, npool, vec, pool,   \* the configuration (fixed by Init)
          pc,         \* "split" -> "eval" -> "concat" -> "count" -> "done"
          secs,       \* the sequence of calls, in argument order
          pending,    \* indices into secs not yet executed
          results,    \* results[k] = output of call k (sequence of f-values)
          ncalls,     \* how often each batch index has been evaluated
          out,        \* the returned array
          evals       \* the likelihood-evaluation counter (delta)

vars == <<n, chunk, npool, vec, pool, pc, secs, pending, results, ncalls, out, evals>>
cfgv == <<n, chunk, npool, vec, pool>>

-----------------------------------------------------------------------------
\* np.array_split(x, range(c, n, c)): cut at c, 2c, ... < n.  Always at least
\* one section (an empty batch gives ONE empty section).
ChunkSplit(nn, c) ==
    LET cuts == {k \in 1..nn : k % c = 0 /\ k < nn}       \* c, 2c, ... below n
        m    == Cardinality(cuts) + 1
    IN  [i \in 1..m |-> <<(i - 1) * c, IF i = m THEN nn ELSE i * c>>]

\* np.array_split(x, k): k sections, the first n mod k one longer
EvenSplit(nn, k) ==
    LET q == nn \div k
        r == nn % k
        Lo(i) == IF i - 1 <= r THEN (i - 1) * (q + 1) ELSE r * (q + 1) + (i - 1 - r) * q
    IN  [i \in 1..k |-> <<Lo(i), Lo(i + 1)>>]

Singles(nn) == [i \in 1..nn |-> <<i - 1, i>>]

\* the six branches of batch_evaluate_function
Sections ==
    IF ~vec THEN Singles(n)
    ELSE IF chunk > 0 THEN ChunkSplit(n, chunk)
    ELSE IF pool THEN EvenSplit(n, npool)
    ELSE <<<<0, n>>>>

Iota(lo, hi) == [k \in 1..(hi - lo) |-> lo + k - 1]

RECURSIVE Concat(_, _)
Concat(rs, k) == IF k > Len(rs) THEN <<>> ELSE rs[k] \o Concat(rs, k + 1)

-----------------------------------------------------------------------------
Init ==
    /\ n \in 0..MaxN /\ chunk \in 0..MaxChunk /\ npool \in 0..MaxPool
    /\ vec \in BOOLEAN /\ pool \in BOOLEAN
    \* what configure_pool guarantees: a vectorised function is only mapped
    \* over a pool without a chunk size when the number of processes is known
    /\ (pool /\ vec /\ chunk = 0) => npool > 0
    /\ pc = "split" /\ secs = <<>> /\ pending = {} /\ results = <<>>
    /\ ncalls = [i \in 0..(n - 1) |-> 0] /\ out = <<>> /\ evals = 0

Split ==
    /\ pc = "split"
    /\ secs' = Sections
    /\ pending' = 1..Len(Sections)
    /\ results' = [k \in 1..Len(Sections) |-> <<>>]
    /\ pc' = "eval"
    /\ UNCHANGED <<cfgv, ncalls, out, evals>>

\* one call of the user function; sequential map runs them in order, a pool in
\* any order
Call(k) ==
    /\ pc = "eval" /\ k \in pending
    /\ pool \/ \A j \in pending : k <= j
    /\ results' = [results EXCEPT ![k] = Iota(secs[k][1], secs[k][2])]
    /\ ncalls' = [i \in DOMAIN ncalls |->
                    IF secs[k][1] <= i /\ i < secs[k][2] THEN ncalls[i] + 1 ELSE ncalls[i]]
    /\ pending' = pending \ {k}
    /\ UNCHANGED <<cfgv, pc, secs, out, evals>>

Concatenate ==
    /\ pc = "eval" /\ pending = {}
    /\ out' = Concat(results, 1)
    /\ pc' = "count"
    /\ UNCHANGED <<cfgv, secs, pending, results, ncalls, evals>>

\* Model.batch_evaluate_log_likelihood: likelihood_evaluations += x.size
Count ==
    /\ pc = "count"
    /\ evals' = evals + n
    /\ pc' = "done"
    /\ UNCHANGED <<cfgv, secs, pending, results, ncalls, out>>

Next == Split \/ (\E k \in pending : Call(k)) \/ Concatenate \/ Count

Spec == Init /\ [][Next]_vars /\ WF_vars(Next)

-----------------------------------------------------------------------------
(* The property (C10)                                                      *)

\* the calls partition the batch, in order
Partitioned ==
    pc # "split" =>
        /\ Len(secs) > 0 \/ n = 0
        /\ \A k \in DOMAIN secs : secs[k][1] <= secs[k][2]
        /\ (Len(secs) > 0) => (secs[1][1] = 0 /\ secs[Len(secs)][2] = n)
        /\ \A k \in 1..(Len(secs) - 1) : secs[k][2] = secs[k + 1][1]

\* no chunk is larger than the requested chunk size
ChunkBound ==
    (pc # "split" /\ vec /\ chunk > 0) => \A k \in DOMAIN secs : secs[k][2] - secs[k][1] <= chunk

AtMostOnce == \A i \in DOMAIN ncalls : ncalls[i] <= 1

Pointwise ==
    pc \in {"count", "done"} =>
        /\ out = Iota(0, n)                             \* same values, same order
        /\ \A i \in DOMAIN ncalls : ncalls[i] = 1        \* each point exactly once

CountedOnce == (pc = "done" => evals = n) /\ (pc # "done" => evals = 0)

Terminates == <>(pc = "done")

-----------------------------------------------------------------------------
(* Export for replay: one line per configuration with the predicted calls. *)
ExportDone ==
    (pc' = "eval" /\ pc = "split") =>
        PrintT("CFG " \o ToJson([n |-> n, chunk |-> chunk, npool |-> npool, vec |-> vec,
                                  pool |-> pool, secs |-> secs']))
=============================================================================
