------------------------------ MODULE Schedule ------------------------------
(***************************************************************************)
(* The checkpoint schedule of both samplers                                *)
(* (BaseNestedSampler.checkpoint and its three kinds of caller):           *)
(*                                                                         *)
(*   boundary   checkpoint(periodic=True) at the end of every iteration    *)
(*              (NestedSampler.update_state, the INS loop body)            *)
(*   training   checkpoint(periodic=True) inside an iteration when         *)
(*              checkpoint_on_training is set (standard sampler)           *)
(*   final      checkpoint(periodic=True, force=True) when the loop ends   *)
(*   signal     checkpoint(periodic=False) from the signal handler         *)
(*                                                                         *)
(* together with kills, signals and resumes.  Time is a virtual clock that *)
(* also advances while no process is running (downtime).                   *)
(*                                                                         *)
(* What a user relies on: with checkpoint_on_iteration a kill loses fewer  *)
(* than checkpoint_interval completed iterations (LossBoundIt); in time     *)
(* mode no more than checkpoint_interval seconds plus one iteration pass   *)
(* between two files (LossBoundTime); a file is only rewritten when due    *)
(* (NoSpuriousWrite); the schedule survives a resume (the restored         *)
(* _last_checkpoint is the pickled one, never in the future).              *)
(***************************************************************************)
EXTENDS ScheduleOps, Sequences, TLC

CONSTANTS Interval,        \* checkpoint_interval
          OnIteration,     \* checkpoint_on_iteration
          CkptOnTraining,
          MaxIt, MaxTime, MaxStep, MaxStops

VARIABLES it, now, last, disk, pc, proc, startT

vars == <<it, now, last, disk, pc, proc, startT>>

Null == <<>>
Cur == IF OnIteration THEN it ELSE now

Init ==
    /\ it = 0 /\ now = 0 /\ last = 0 /\ startT = 0
    /\ disk = Null /\ pc = "start"
    /\ proc = [st |-> "run", stops |-> 0]

Running == proc.st = "run"
Snap == [it |-> it, last |-> last, t |-> now]

\* one pass of the loop body up to the point where training may fire
Body ==
    /\ Running /\ pc \in {"start", "after"} /\ it < MaxIt
    /\ it' = it + 1
    /\ \E d \in 0..MaxStep : now' = now + d
    /\ pc' = "mid"
    /\ UNCHANGED <<last, disk, proc, startT>>

\* a periodic call, shared by the boundary and the training call sites
PeriodicCall(next) ==
    LET due == Due(Cur, last, Interval)
        l2 == LastAfter(TRUE, FALSE, due, Cur, last)
    IN  /\ last' = l2
        /\ disk' = IF Writes(TRUE, FALSE, due) THEN <<[Snap EXCEPT !.last = l2]>> ELSE disk
        /\ pc' = next
        /\ UNCHANGED <<it, now, proc, startT>>

Training ==
    /\ Running /\ pc = "mid"
    /\ \/ (CkptOnTraining /\ PeriodicCall("call"))
       \/ (pc' = "call" /\ UNCHANGED <<it, now, last, disk, proc, startT>>)

Boundary ==
    /\ Running /\ pc = "call"
    /\ PeriodicCall("after")

Final ==
    /\ Running /\ pc = "after" /\ it = MaxIt
    /\ disk' = <<Snap>>
    /\ pc' = "done"
    /\ UNCHANGED <<it, now, last, proc, startT>>

Signal ==
    /\ Running /\ proc.stops < MaxStops /\ pc # "done"
    /\ disk' = <<Snap>>
    /\ proc' = [st |-> "exited", stops |-> proc.stops + 1]
    /\ UNCHANGED <<it, now, last, pc, startT>>

Kill ==
    /\ Running /\ proc.stops < MaxStops /\ pc # "done"
    /\ proc' = [st |-> "dead", stops |-> proc.stops + 1]
    /\ UNCHANGED <<it, now, last, pc, disk, startT>>

\* the pickled schedule is restored; without a file the run starts afresh
\* (in time mode _last_checkpoint is the construction time)
Resume ==
    /\ proc.st \in {"dead", "exited"}
    /\ \E d \in 0..MaxStep :
          /\ now' = now + d
          /\ IF disk = Null
             THEN /\ it' = 0 /\ startT' = now + d
                  /\ last' = IF OnIteration THEN 0 ELSE now + d
             ELSE /\ it' = disk[1].it /\ last' = disk[1].last /\ UNCHANGED startT
    /\ pc' = "start"
    /\ proc' = [proc EXCEPT !.st = "run"]
    /\ UNCHANGED disk

Next == Body \/ Training \/ Boundary \/ Final \/ Signal \/ Kill \/ Resume

Spec == Init /\ [][Next]_vars

Bounded == now <= MaxTime

-----------------------------------------------------------------------------
DiskIt == IF disk = Null THEN 0 ELSE disk[1].it
DiskT  == IF disk = Null THEN startT ELSE disk[1].t
Slack == IF Interval > 0 THEN Interval - 1 ELSE 0

\* after every boundary call fewer than Interval completed iterations are not on disk
LossBoundIt ==
    (OnIteration /\ Running /\ pc = "after") => it - DiskIt <= Slack

\* in time mode: after every boundary call the file is younger than Interval
LossBoundTime ==
    (~OnIteration /\ Running /\ pc = "after") => now - DiskT <= Slack

\* the schedule never points into the future and never goes backwards in a process
LastSane == last <= Cur /\ (disk # Null => disk[1].last <= (IF OnIteration THEN disk[1].it ELSE disk[1].t))
LastMonotone == [][ (Running /\ proc'.st = "run") => last' >= last ]_vars

\* a periodic, unforced call rewrites the file only when due
NoSpuriousWrite ==
    [][ (pc \in {"mid", "call"} /\ Running /\ proc'.st = "run" /\ disk' # disk)
            => Due(Cur, last, Interval) ]_vars

\* a finished run has its final state on disk
FinalOnDisk == pc = "done" => (disk # Null /\ disk[1].it = it)

\* a resume never loses a completed checkpoint
ResumeKeeps == [][ (proc.st # "run" /\ proc'.st = "run" /\ disk # Null) => it' = disk[1].it ]_vars
=============================================================================
