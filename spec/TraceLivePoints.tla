--------------------------- MODULE TraceLivePoints ---------------------------
(***************************************************************************)
(* Trace validation for LivePoints: long random histories of               *)
(*   add_extra_parameters_to_live_points / reset_extra_live_points_        *)
(*   parameters / building an array                                        *)
(* executed on the REAL global registry (vf/c18.py) are checked against    *)
(* the operations of LivePoints.tla.                                       *)
(*                                                                         *)
(* All traces are packed in one JSON document                              *)
(*   { "ev": [event...], "win": [[first, last]...] }                       *)
(* Each event carries the call (op, ns, ds, kind) and what was observed    *)
(* after it: the registry (xn names, xd defaults as codes), the cached     *)
(* properties (cn, cd; ck = they could be observed) and, for a build, the  *)
(* field list of the new array and the values of its non-sampling fields   *)
(* (fields, dflts; names abstracted to p1..pd / e1..).                      *)
(*                                                                         *)
(* The state variables FOLLOW THE LOGGED STATE.                            *)
(*   P-clauses: clauses of property C18 on what the code produced          *)
(*   M-clauses: the logged state / array is exactly what the specification *)
(*              computes from the previous logged state                    *)
(* A failing clause is printed ("TR {json}") and the walk continues.       *)
(***************************************************************************)
EXTENDS LivePoints, IOUtils

J   == JsonDeserialize(IOEnv.TRACE_FILE)
Ev  == J.ev
Win == J.win

VARIABLES tid, l

tvars == <<vars, tid, l>>

Say(k, c) == PrintT("TR " \o ToJson([k |-> k, tid |-> tid, l |-> l, c |-> c]))
Check(k, c, cond) == IF cond THEN TRUE ELSE Say(k, c)

Predicted(e) ==
    CASE e.op = "add"   -> AddF(St, e.ns, e.ds)
      [] e.op = "reset" -> ResetF(St)
      [] e.op = "build" -> TouchF(St, e.kind)

\* where the caches could not be observed they follow the specification
Logged(e, pred) ==
    [extra |-> [i \in DOMAIN e.xn |-> <<e.xn[i], e.xd[i]>>],
     cN    |-> IF e.ck THEN e.cn ELSE pred.cN,
     cD    |-> IF e.ck THEN e.cd ELSE pred.cD]

DefaultOf(f, ex) ==
    CASE f = "logP" -> NAN
      [] f = "logL" -> NAN
      [] f = "it"   -> 0
      [] OTHER -> IF \E i \in DOMAIN ex : ex[i][1] = f
                  THEN ex[CHOOSE i \in DOMAIN ex : ex[i][1] = f][2]
                  ELSE -99

\* the k-th name of the call comes with a default of its own / with default v
HasDefault(e, k) == e.ds = NONE \/ k <= Len(e.ds)
Given(e, k, v)   == HasDefault(e, k) /\ v = (IF e.ds = NONE THEN NAN ELSE e.ds[k])

TraceInit ==
    /\ Init
    /\ tid \in 1..Len(Win)
    /\ l = Win[tid][1]

TraceStep ==
    /\ l <= Win[tid][2]
    /\ LET e    == Ev[l]
           pred == Predicted(e)
           post == Logged(e, pred)
           new  == ENamesOf(post.extra)
           pn   == PN(e.d)
       IN
       /\ Apply(post) /\ held' = held /\ hist' = hist
       \* ---- P-clauses: registering / resetting changes the registry accordingly
       \* (where the statement is silent -- a registered name mentioned again with
       \* another default, names without a default of their own, the order of the
       \* extra fields -- only the M-clauses below speak)
       /\ Check("P", "add_keeps_registered",
                e.op = "add" =>
                   \A i \in DOMAIN extra : \E j \in DOMAIN post.extra :
                      /\ post.extra[j][1] = extra[i][1]
                      /\ \/ post.extra[j][2] = extra[i][2]
                         \/ \E k \in DOMAIN e.ns : e.ns[k] = extra[i][1] /\ Given(e, k, post.extra[j][2]))
       /\ Check("P", "add_registers",
                (e.op = "add" /\ (e.ds = NONE \/ Len(e.ds) >= Len(e.ns)))
                    => Range(e.ns) \subseteq Range(new))
       /\ Check("P", "add_nothing_else",
                e.op = "add" => /\ Range(new) \subseteq Range(ENamesOf(extra)) \cup Range(e.ns)
                                /\ NoDup(new))
       /\ Check("P", "add_default",
                e.op = "add" =>
                   \A i \in DOMAIN post.extra :
                      (/\ post.extra[i][1] \notin Range(ENamesOf(extra))
                       /\ \A k \in DOMAIN e.ns : e.ns[k] = post.extra[i][1] => HasDefault(e, k))
                      => \E k \in DOMAIN e.ns : e.ns[k] = post.extra[i][1] /\ Given(e, k, post.extra[i][2]))
       /\ Check("P", "reset_restores_core", e.op = "reset" => post.extra = <<>>)
       /\ Check("P", "build_keeps_registry", e.op = "build" => post.extra = extra)
       \* ---- P-clauses: the new array reflects the registry of this moment
       /\ Check("P", "new_array_names",
                e.op = "build" =>
                   /\ SelectSeq(e.fields, LAMBDA f : f \in Range(pn)) = pn
                   /\ Range(e.fields) = Range(pn) \cup
                         (IF e.nsp THEN Range(Core) \cup Range(new) ELSE {})
                   /\ NoDup(e.fields))
       /\ Check("P", "new_array_defaults",
                (e.op = "build" /\ e.nsp /\ e.n > 0 /\ Len(e.dflts) = Len(e.fields) - e.d) =>
                   \A k \in 1..Len(e.dflts) : e.dflts[k] = DefaultOf(e.fields[e.d + k], post.extra))
       \* ---- M-clauses
       /\ Check("M", "state after " \o e.op \o " differs from the specification", post = pred)
       /\ Check("M", "field list of the new array differs from the specification",
                e.op = "build" => e.fields = Fields(pn, St, e.nsp))
       /\ Check("M", "non-sampling values of the new array differ from the specification",
                (e.op = "build" /\ e.nsp /\ e.n > 0) => e.dflts = NSDefaults(St))
    /\ l' = l + 1
    /\ tid' = tid

TraceDone ==
    /\ l = Win[tid][2] + 1
    /\ Say("done", "")
    /\ l' = l + 1
    /\ UNCHANGED <<vars, tid>>

TraceNext == TraceStep \/ TraceDone

TraceSpec == TraceInit /\ [][TraceNext]_tvars

=============================================================================
