---------------------------- MODULE MC_Schedule ----------------------------
(* Apalache wrapper: inductive invariant of Schedule.tla for ALL values of   *)
(* the constants (checkpoint_interval, mode, bounds) - unbounded safety of   *)
(* the loss bounds.                                                          *)
(*   apalache-mc check --cinit=ConstInit --init=Init    --inv=IndInv --length=0 MC_Schedule.tla *)
(*   apalache-mc check --cinit=ConstInit --init=IndInit --inv=IndInv --length=1 MC_Schedule.tla *)
(*   apalache-mc check --cinit=ConstInit --init=IndInit --inv=Goal   --length=0 MC_Schedule.tla *)
EXTENDS Integers, Sequences, Apalache

CONSTANTS
    \* @type: Int;
    Interval,
    \* @type: Bool;
    OnIteration,
    \* @type: Bool;
    CkptOnTraining,
    \* @type: Int;
    MaxIt,
    \* @type: Int;
    MaxTime,
    \* @type: Int;
    MaxStep,
    \* @type: Int;
    MaxStops

VARIABLES
    \* @type: Int;
    it,
    \* @type: Int;
    now,
    \* @type: Int;
    last,
    \* @type: Seq({it: Int, last: Int, t: Int});
    disk,
    \* @type: Str;
    pc,
    \* @type: {st: Str, stops: Int};
    proc,
    \* @type: Int;
    startT

INSTANCE Schedule

ConstInit ==
    /\ Interval \in Nat /\ OnIteration \in BOOLEAN /\ CkptOnTraining \in BOOLEAN
    /\ MaxIt \in Nat /\ MaxTime \in Nat /\ MaxStep \in Nat /\ MaxStops \in Nat

TypeInv ==
    /\ it \in Nat /\ now \in Nat /\ last \in Nat /\ startT \in Nat
    /\ Len(disk) <= 1
    /\ (disk # <<>> => (disk[1].it \in Nat /\ disk[1].last \in Nat /\ disk[1].t \in Nat))
    /\ pc \in {"start", "mid", "call", "after", "done"}
    /\ proc.st \in {"run", "dead", "exited"} /\ proc.stops \in Nat

\* the inductive strengthening of LossBoundIt / LossBoundTime / LastSane / FinalOnDisk
IndInv ==
    /\ TypeInv
    /\ last <= Cur
    /\ startT <= now
    /\ (disk # <<>> => /\ disk[1].last <= (IF OnIteration THEN disk[1].it ELSE disk[1].t)
                       /\ disk[1].it <= it /\ disk[1].t <= now)
    /\ (OnIteration => DiskIt >= last)
    /\ (~OnIteration => DiskT >= last)
    /\ ((proc.st = "run" /\ pc = "after") => Cur - last <= Slack)
    /\ (pc = "done" => (disk # <<>> /\ disk[1].it = it))

IndInit ==
    /\ it \in Nat /\ now \in Nat /\ last \in Nat /\ startT \in Nat
    /\ disk = Gen(1)
    /\ pc \in {"start", "mid", "call", "after", "done"}
    /\ \E st \in {"run", "dead", "exited"}, k \in Nat : proc = [st |-> st, stops |-> k]
    /\ IndInv

\* what the user relies on follows from the inductive invariant
Goal == LossBoundIt /\ LossBoundTime /\ LastSane /\ FinalOnDisk
=============================================================================
