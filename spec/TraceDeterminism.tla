-------------------------- MODULE TraceDeterminism --------------------------
(***************************************************************************)
(* Lock-step comparison of the traces of two real runs (C14).  The JSON    *)
(* document holds pairs: pairs[k] = [a |-> events, b |-> events, what].    *)
(* Every event carries 31-bit digests of: the nested samples so far, the   *)
(* live points, the integrator state, the evaluation counter, numpy's and  *)
(* torch's generator state.  The walk continues after a difference so that *)
(* the FIRST differing event and field are reported.                       *)
(***************************************************************************)
EXTENDS Integers, Sequences, TLC, Json, IOUtils

J == JsonDeserialize(IOEnv.TRACE_FILE)
Pairs == J.pairs

VARIABLES tid, l, diverged

vars == <<tid, l, diverged>>

Say(k, c) == PrintT("TR " \o ToJson([k |-> k, p |-> "C14", tid |-> tid, l |-> l, c |-> c]))

Fields == {"ev", "it", "dead", "live", "integ", "evals", "np", "torch"}
FinalFields == {"samples", "weights", "logZ", "evals"}

Init == tid \in 1..Len(Pairs) /\ l = 1 /\ diverged = FALSE

Differ(a, b) == {f \in DOMAIN a : f \in DOMAIN b /\ a[f] # b[f]}

Step ==
    /\ l <= Len(Pairs[tid].a) /\ l <= Len(Pairs[tid].b)
    /\ LET a == Pairs[tid].a[l]
           b == Pairs[tid].b[l]
           d == Differ(a, b)
       IN  /\ IF d # {} /\ ~diverged
              THEN Say("P", IF a.ev = "done" THEN "final results differ" ELSE "first divergence at a boundary")
              ELSE TRUE
           /\ diverged' = (diverged \/ d # {})
    /\ l' = l + 1 /\ tid' = tid

Done ==
    /\ l = Len(Pairs[tid].a) + 1 \/ l = Len(Pairs[tid].b) + 1
    /\ l <= Len(Pairs[tid].a) + 1 /\ l <= Len(Pairs[tid].b) + 1
    /\ IF Len(Pairs[tid].a) # Len(Pairs[tid].b) /\ ~diverged
       THEN Say("P", "different number of events") ELSE TRUE
    /\ Say("done", "")
    /\ l' = Len(Pairs[tid].a) + Len(Pairs[tid].b) + 5 /\ UNCHANGED <<tid, diverged>>

Next == Step \/ Done
TraceSpec == Init /\ [][Next]_vars
=============================================================================
