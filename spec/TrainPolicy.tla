---------------------------- MODULE TrainPolicy ----------------------------
(***************************************************************************)
(* When the standard sampler trains its flow and what it resets first      *)
(* (NestedSampler.check_training, train_proposal, check_flow_model_reset), *)
(* beyond the listed properties.  The decision functions are pure          *)
(* operators, shared by a small design model (all orders of iterations,    *)
(* pool exhaustion and low-acceptance episodes) and by the trace           *)
(* specification, which evaluates them on every real call.                 *)
(*                                                                         *)
(*   check_training() -> (train, force), first match wins:                 *)
(*     1 training was interrupted (not completed_training)   (TRUE, TRUE)  *)
(*     2 pool not populated, train_on_empty, not populating  (TRUE, TRUE)  *)
(*     3 acceptance below threshold and retrain_acceptance   (TRUE, FALSE) *)
(*     4 iteration - last_updated = training_frequency       (TRUE, FALSE) *)
(*     otherwise                                             (FALSE, FALSE)*)
(*   train_proposal(force): trains unless cooling down and not forced      *)
(*   check_flow_model_reset(): nothing before the first training; both     *)
(*     weights and permutations when reset_acceptance and acceptance low;  *)
(*     else weights every reset_weights-th, permutations every             *)
(*     reset_permutations-th training                                      *)
(*   training data = live points (+ the last `memory' dead points once     *)
(*     there are that many)                                                *)
(***************************************************************************)
EXTENDS TrainPolicyOps, Sequences, TLC

-----------------------------------------------------------------------------
(* design model: a run as a sequence of iterations with an adversarial pool *)
(* and acceptance                                                           *)
CONSTANTS Freq, Cooldown, RW, RP, TrainOnEmpty, RetrainAcc, ResetAcc, MaxIt

VARIABLES it, last, tc, populated, accLow, lastReset, trainedAt

vars == <<it, last, tc, populated, accLow, lastReset, trainedAt>>

Init ==
    /\ it = 0 /\ last = 0 /\ tc = 0 /\ populated = FALSE /\ accLow = FALSE
    /\ lastReset = <<FALSE, FALSE>> /\ trainedAt = <<>>

\* check_state() at the top of the loop body, then consume_sample
Step ==
    /\ it < MaxIt
    /\ \E pop \in BOOLEAN, low \in BOOLEAN :
          LET d == Decision(TRUE, pop, TrainOnEmpty, FALSE, low, RetrainAcc, it, last, Freq)
              doTrain == d[1] /\ Trains(d[2], it, last, Cooldown)
          IN  /\ accLow' = low
              /\ IF doTrain
                 THEN /\ lastReset' = ResetFlags(tc, ResetAcc, low, RW, RP)
                      /\ tc' = tc + 1 /\ last' = it
                      /\ trainedAt' = Append(trainedAt, it)
                      /\ populated' = TRUE          \* the next draw repopulates
                 ELSE /\ UNCHANGED <<lastReset, tc, last, trainedAt>>
                      /\ populated' = TRUE
    /\ it' = it + 1

Next == Step
Spec == Init /\ [][Next]_vars

\* two trainings closer than the cooldown: only if forced by an empty pool
CooldownHolds ==
    \A k \in 2..Len(trainedAt) :
        (trainedAt[k] - trainedAt[k - 1] < Cooldown) => TrainOnEmpty
\* the flow is never reset before it was trained once
NoResetBeforeTraining == tc <= 1 => lastReset = <<FALSE, FALSE>>
\* with a training frequency and no cooldown conflict the flow is retrained at least every Freq iterations
RetrainedInTime ==
    (Cooldown <= Freq /\ Freq > 0) => it - last <= Freq
TypeOK == tc = Len(trainedAt) /\ last <= it
=============================================================================
