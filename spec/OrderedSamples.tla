--------------------------- MODULE OrderedSamples ---------------------------
(***************************************************************************)
(* The sample store of the importance nested sampler                       *)
(* (nessai.samplers.importancesampler.OrderedSamples), transcribed method  *)
(* by method.  Indices are 0-based as in the code; TLA+ sequences are      *)
(* 1-based, so samples[i + 1] is the code's samples[i].                    *)
(*                                                                         *)
(* Every sample carries a unique id.  The per-proposal density table       *)
(* (log_q) is modelled by the sequence of row OWNERS: rows[k] is the id of  *)
(* the sample the k-th row was computed for.  "Each row stays attached to  *)
(* its sample" is rows[k] = samples[k].id.                                 *)
(*                                                                         *)
(* Enabling conditions are the protocol the sampler follows: a threshold   *)
(* is the likelihood of a current live sample and is set before a removal  *)
(* or a strict insertion; removal needs a live set.                        *)
(***************************************************************************)
EXTENDS Integers, Sequences, FiniteSets, TLC, Json

CONSTANTS Strict,       \* strict_threshold
          ReplaceAll,   \* replace_all
          LVals,        \* alphabet of likelihood values (naturals)
          MaxBatch,     \* largest batch handed to an insertion
          MaxSamples,   \* bound on the number of stored samples (makes the graph finite)
          OwnThreshold  \* TRUE: a threshold is the likelihood of one of the store's own live samples
                        \* (the protocol of the property); FALSE: any value - what the sampler does to
                        \* the store that is not its main one, and where np.argmax of an all-False
                        \* mask (= 0) becomes reachable

VARIABLES samples,   \* Seq([id, L])        the structured array, in order
          rows,      \* Seq(id)             owners of the rows of log_q
          live,      \* Seq(0-based index)  live_points_indices
          liveNone,  \* BOOLEAN             live_points_indices is None
          nested,    \* Seq(0-based index)  nested_samples_indices
          thr,       \* 0 = None, else the log-likelihood threshold
          nextId,    \* ids handed out so far + 1
          idL,       \* id -> L at creation (to state "unmodified")
          ret,       \* return value of the last remove_samples (or -1)
          last,      \* name of the last operation
          hist       \* the operations so far (history variable; hidden by VIEW)

vars == <<samples, rows, live, liveNone, nested, thr, nextId, idL, ret, last, hist>>
\* The fingerprint ignores which id sits where among equal likelihoods (no
\* action looks at ids) but keeps whether the density rows are still aligned.
view == <<[i \in DOMAIN samples |-> samples[i].L], rows = [i \in DOMAIN samples |-> samples[i].id],
          live, liveNone, nested, thr, last, ret>>

-----------------------------------------------------------------------------
(* numpy primitives                                                        *)

Range(s) == {s[i] : i \in DOMAIN s}

\* np.searchsorted(a, v) (side="left") on an ascending sequence: 0-based index
SearchSortedLeft(a, v) == Cardinality({i \in DOMAIN a : a[i] < v})

\* stable sort of s by the naturals in keys (batches are short)
StableRank(keys, j) ==
    Cardinality({k \in DOMAIN keys : keys[k] < keys[j]})
    + Cardinality({k \in DOMAIN keys : k < j /\ keys[k] = keys[j]}) + 1
StableSortBy(s, keys) ==
    [k \in DOMAIN s |-> s[CHOOSE j \in DOMAIN s : StableRank(keys, j) = k]]

NonDecreasing(s) == \A i \in 1..(Len(s) - 1) : s[i] <= s[i + 1]

\* np.insert(old, pos, new) with one (0-based) position per new element, for
\* non-decreasing pos (all call sites pass positions of ascending values in an
\* ascending array).  numpy: the j-th new element (1-based) lands at final
\* index pos[j] + (j - 1); the old elements fill the other places in order.
NpInsert(old, pos, new) ==
    IF ~NonDecreasing(pos)
    THEN Assert(FALSE, "np.insert with unsorted positions is not modelled")
    ELSE LET m     == Len(new)
             fin   == [j \in 1..m |-> pos[j] + (j - 1)]
             taken == Range(fin)
         IN  [f1 \in 1..(Len(old) + m) |->
                LET c == Cardinality({j \in 1..m : fin[j] < f1 - 1})
                IN  IF (f1 - 1) \in taken THEN new[c + 1] ELSE old[f1 - c]]

\* np.argmax of a boolean sequence: first True (0-based), 0 if none
ArgMaxFirst(b) ==
    LET T == {i \in DOMAIN b : b[i]}
    IN  IF T = {} THEN 0 ELSE (CHOOSE i \in T : \A j \in T : i <= j) - 1

Ls(s)  == [i \in DOMAIN s |-> s[i].L]
Ids(s) == [i \in DOMAIN s |-> s[i].id]
Iota(a, b) == [k \in 1..(b - a) |-> a + k - 1]     \* np.arange(a, b)

\* get_inverse_indices(n, idx): ascending indices of 0..n-1 not in idx
Complement(n, idx) ==
    LET R == Range(idx) IN SelectSeq(Iota(0, n), LAMBDA i : i \notin R)

-----------------------------------------------------------------------------
(* The operations as functions on a state record, so that the same text     *)
(* serves the state machine below and the trace specification              *)
(* (TraceOrderedSamples), which applies them to states logged by the code. *)

St == [samples |-> samples, rows |-> rows, live |-> live, liveNone |-> liveNone,
       nested |-> nested, thr |-> thr, nextId |-> nextId, ret |-> ret]

WithIds(s, b) == [j \in DOMAIN b |-> [id |-> s.nextId + j - 1, L |-> b[j]]]

\* add_initial_samples(samples, log_q)
AddInitialF(s, b) ==
    LET srt == StableSortBy(WithIds(s, b), b)
    IN  [s EXCEPT !.samples = srt, !.rows = Ids(srt), !.live = Iota(0, Len(srt)),
                  !.liveNone = FALSE, !.nextId = s.nextId + Len(b)]

\* add_to_nested_samples(indices)
AddToNested(nst, ix) ==
    LET at == [j \in DOMAIN ix |-> SearchSortedLeft(nst, ix[j])]
    IN  NpInsert(nst, at, ix)

\* add_samples(samples, log_q)
AddF(s, b) ==
    LET new    == StableSortBy(WithIds(s, b), b)
        oldL   == Ls(s.samples)
        pos    == [j \in DOMAIN new |-> SearchSortedLeft(oldL, new[j].L)]
        merged == NpInsert(s.samples, pos, new)
        newIx  == [j \in DOMAIN new |-> pos[j] + (j - 1)]
        oldIx  == Complement(Len(merged), newIx)
        base   == [s EXCEPT !.samples = merged,
                            !.rows = NpInsert(s.rows, pos, Ids(new)),
                            !.nextId = s.nextId + Len(b),
                            !.liveNone = FALSE]
    IN  IF Strict
        THEN LET n == ArgMaxFirst([i \in DOMAIN merged |-> merged[i].L >= s.thr])
             IN  [base EXCEPT !.nested = Iota(0, n), !.live = Iota(n, Len(merged))]
        ELSE [base EXCEPT
                !.nested = [i \in DOMAIN s.nested |-> oldIx[s.nested[i] + 1]],
                !.live = IF s.liveNone THEN newIx
                         ELSE LET moved == [i \in DOMAIN s.live |-> oldIx[s.live[i] + 1]]
                                  ins == [j \in DOMAIN newIx |->
                                             SearchSortedLeft(moved, newIx[j])]
                              IN  NpInsert(moved, ins, newIx)]

ThresholdF(s, t) == [s EXCEPT !.thr = t]

\* remove_samples()
RemoveF(s) ==
    IF ReplaceAll
    THEN [s EXCEPT !.ret = Len(s.live), !.nested = AddToNested(s.nested, s.live),
                   !.live = <<>>, !.liveNone = TRUE]
    ELSE LET n == ArgMaxFirst([i \in DOMAIN s.live |-> s.samples[s.live[i] + 1].L >= s.thr])
         IN  [s EXCEPT !.ret = n, !.nested = AddToNested(s.nested, SubSeq(s.live, 1, n)),
                       !.live = SubSeq(s.live, n + 1, Len(s.live))]

\* finalise()
FinaliseF(s) ==
    [s EXCEPT !.nested = AddToNested(s.nested, s.live), !.live = <<>>, !.liveNone = TRUE]

\* protocol (enabling conditions)
AddInitialOK(s, lst, b) == lst = "init"
AddOK(s, lst, b)        == lst \notin {"init", "finalise"} /\ (Strict => s.thr # 0)
ThresholdOK(s, lst, t)  == /\ lst \notin {"init", "finalise", "threshold"}
                           /\ ~s.liveNone
                           /\ OwnThreshold => \E i \in DOMAIN s.live : s.samples[s.live[i] + 1].L = t
RemoveOK(s, lst)        == lst \notin {"init", "finalise"} /\ ~s.liveNone
                           /\ (ReplaceAll \/ s.thr # 0)
FinaliseOK(s, lst)      == lst \notin {"init", "finalise"} /\ ~s.liveNone

-----------------------------------------------------------------------------
(* The state machine                                                       *)

Batches == UNION {[1..n -> LVals] : n \in 1..MaxBatch}

Init ==
    /\ samples = <<>> /\ rows = <<>> /\ live = <<>> /\ liveNone = TRUE
    /\ nested = <<>> /\ thr = 0 /\ nextId = 1 /\ idL = <<>> /\ ret = -1
    /\ last = "init" /\ hist = <<>>

Apply(r, name) ==
    /\ samples' = r.samples /\ rows' = r.rows /\ live' = r.live
    /\ liveNone' = r.liveNone /\ nested' = r.nested /\ thr' = r.thr
    /\ nextId' = r.nextId /\ ret' = r.ret /\ last' = name

Record(op) == hist' = Append(hist, op)

AddInitial(b) ==
    /\ AddInitialOK(St, last, b) /\ Len(b) <= MaxSamples
    /\ \E r \in {AddInitialF(St, b)} : Apply(r, "add_initial")
    /\ idL' = idL \o b
    /\ Record([op |-> "add_initial", b |-> b, t |-> 0])

Add(b) ==
    /\ AddOK(St, last, b) /\ Len(samples) + Len(b) <= MaxSamples
    /\ \E r \in {AddF(St, b)} : Apply(r, "add")
    /\ idL' = idL \o b
    /\ Record([op |-> "add", b |-> b, t |-> 0])

UpdateThreshold(t) ==
    /\ ThresholdOK(St, last, t)
    /\ \E r \in {ThresholdF(St, t)} : Apply(r, "threshold")
    /\ idL' = idL
    /\ Record([op |-> "threshold", b |-> <<>>, t |-> t])

Remove ==
    /\ RemoveOK(St, last)
    /\ \E r \in {RemoveF(St)} : Apply(r, "remove")
    /\ idL' = idL
    /\ Record([op |-> "remove", b |-> <<>>, t |-> 0])

Finalise ==
    /\ FinaliseOK(St, last)
    /\ \E r \in {FinaliseF(St)} : Apply(r, "finalise")
    /\ idL' = idL
    /\ Record([op |-> "finalise", b |-> <<>>, t |-> 0])

Next ==
    \/ \E b \in Batches : AddInitial(b)
    \/ \E b \in Batches : Add(b)
    \/ \E t \in LVals : UpdateThreshold(t)
    \/ Remove
    \/ Finalise

Spec == Init /\ [][Next]_vars

-----------------------------------------------------------------------------
(* The property (C04), as predicates on a state record                     *)

StrictlyIncreasing(q) == \A i \in 1..(Len(q) - 1) : q[i] < q[i + 1]

SortedS(s) == \A i \in 1..(Len(s.samples) - 1) : s.samples[i].L <= s.samples[i + 1].L

PartitionS(s) ==
    /\ StrictlyIncreasing(s.live) /\ StrictlyIncreasing(s.nested)
    /\ Range(s.live) \cap Range(s.nested) = {}
    /\ Range(s.live) \cup Range(s.nested) = 0..(Len(s.samples) - 1)
    /\ s.liveNone => s.live = <<>>

\* every id handed out so far is present exactly once
AllPresentS(s) ==
    /\ Len(s.samples) = s.nextId - 1
    /\ {s.samples[i].id : i \in DOMAIN s.samples} = 1..(s.nextId - 1)

AlignedS(s) == s.rows = Ids(s.samples)

\* strict threshold: after an insertion, and after a partial removal, the live
\* set is exactly the samples at or above the threshold
StrictLiveS(s, lst) ==
    (Strict /\ (lst = "add" \/ (lst = "remove" /\ ~ReplaceAll)))
        => Range(s.live) = {i \in 0..(Len(s.samples) - 1) : s.samples[i + 1].L >= s.thr}

\* after a partial removal no live sample is below the threshold
RemovedBelowS(s, lst) ==
    (lst = "remove" /\ ~ReplaceAll)
        => \A i \in DOMAIN s.live : s.samples[s.live[i] + 1].L >= s.thr

\* the reported number removed, given the state before the removal
RemoveCountS(pre, post) ==
    /\ post.ret = (IF ReplaceAll THEN Len(pre.live)
                   ELSE Cardinality({i \in DOMAIN pre.live :
                                        pre.samples[pre.live[i] + 1].L < pre.thr}))
    /\ Len(post.nested) = Len(pre.nested) + post.ret

Sorted       == SortedS(St)
Partition    == PartitionS(St)
NothingLost  == AllPresentS(St) /\ \A i \in DOMAIN samples : samples[i].L = idL[samples[i].id]
Aligned      == AlignedS(St)
StrictLive   == StrictLiveS(St, last)
RemovedBelow == RemovedBelowS(St, last)
RemoveCount  == [][ (last' = "remove") => RemoveCountS(St, St') ]_vars

\* the live set is never empty while it exists (so np.argmax of an all-False
\* mask, which returns 0, is not reachable inside the protocol)
LiveNonEmpty == (~liveNone /\ last # "init") => Len(live) > 0

TypeOK ==
    /\ liveNone \in BOOLEAN
    /\ thr \in LVals \cup {0}
    /\ Len(rows) = Len(samples)

-----------------------------------------------------------------------------
(* Export of every edge of the state graph for replay into the real code.  *)
(* hist' is a path from the initial state to the post-state (the history   *)
(* variable is hidden from the fingerprint by VIEW, so each distinct       *)
(* abstract state is expanded once, but every edge into it is printed).    *)

Post == [samples |-> samples', rows |-> rows', live |-> live',
         liveNone |-> liveNone', nested |-> nested', thr |-> thr', ret |-> ret']

ExportEdge == PrintT("EDGE " \o ToJson([h |-> hist', s |-> Post]))

=============================================================================
