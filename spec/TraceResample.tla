--------------------------- MODULE TraceResample ---------------------------
(***************************************************************************)
(* Trace validation for Resample: calls of the real                        *)
(* draw_posterior_samples made with the REAL numpy generator are recorded  *)
(* (the uniforms numpy produced, the arguments numpy.random.choice         *)
(* received, what it answered, what the function returned) and walked      *)
(* through the actions of Resample.tla with the recorded random source.    *)
(*                                                                         *)
(* All calls are packed in one JSON document { "tr": [call...] } read once.*)
(* A call:                                                                 *)
(*   m     "rejection" | "multinomial"                                     *)
(*   w     weight numerators (the weights are exact dyadic rationals)      *)
(*   none, nreq   requested n                                              *)
(*   us    rejection: the recorded uniforms, each replaced by the grid     *)
(*         value of UNums in the same interval between the possible        *)
(*         ratios w[i]/max(w) (order-preserving projection)                *)
(*   size  multinomial: the number of draws the code asked numpy for       *)
(*   sizeok, intb   that number is the requested n / the integer part of   *)
(*         the ESS (evaluated by the projection on the floats at 1e-9);    *)
(*         intb: the exact ESS is an integer, where the float ESS may fall *)
(*         on either side                                                  *)
(*   pok   multinomial: the recorded p is w / sum(w) (evaluated by the     *)
(*         projection at 1e-9; the rule is PVec)                           *)
(*   ans   multinomial: what numpy.random.choice answered (positions)      *)
(*   idx   the returned indices, as positions                              *)
(*   smp   the ids of the returned samples                                 *)
(*                                                                         *)
(* P-clauses (clauses of the property on what the code returned) and       *)
(* M-clauses (the code follows the model's steps) are printed as           *)
(* "TR {json}" and the walk continues, so the verdict is total.            *)
(***************************************************************************)
EXTENDS Resample, IOUtils

J  == JsonDeserialize(IOEnv.TRACE_FILE)
Tr == J.tr

VARIABLES tid

tvars == <<vars, tid>>

Say(k, c) == PrintT("TR " \o ToJson([k |-> k, tid |-> tid, c |-> c]))
Check(k, c, cond) == IF cond THEN TRUE ELSE Say(k, c)

TraceInit ==
    /\ tid \in 1..Len(Tr)
    /\ w = Tr[tid].w
    /\ method = Tr[tid].m
    /\ nreq = IF Tr[tid].none THEN NoReq ELSE Tr[tid].nreq
    /\ pc = "start" /\ pos = 0 /\ us = <<>> /\ idx = <<>> /\ pvec = <<>>
    /\ size = 0 /\ outIdx = <<>> /\ outSmp = <<>>

\* the recorded uniform decides
TScan == pc = "scan" /\ Scan(Tr[tid].us[pos])

\* the sampler was asked for Tr.size draws with a p that is / is not PVec and
\* answered Tr.ans
TDraw ==
    /\ pc = "draw"
    /\ Check("P", "exact_size", Tr[tid].sizeok)
    /\ Check("M", "number of draws differs from the specification", Tr[tid].intb \/ Tr[tid].size = size)
    /\ Check("P", "proportional", Tr[tid].pok)
    /\ Check("M", "draw outside the support", \A k \in DOMAIN Tr[tid].ans : Tr[tid].ans[k] \in Positive(w))
    /\ Draw(Tr[tid].ans)

TGather ==
    /\ Gather
    /\ LET o == Tr[tid].idx
           R == Range(o) IN
       /\ Check("P", "membership", /\ \A k \in DOMAIN o : o[k] \in DOMAIN w
                                   /\ Len(Tr[tid].smp) = Len(o)
                                   /\ \A k \in DOMAIN o : Tr[tid].smp[k] = SampleId(o[k]))
       /\ (method = "rejection" =>
             /\ Check("P", "max_always", \A i \in DOMAIN w : w[i] = MaxW(w) => i \in R)
             /\ Check("P", "zero_never", \A i \in DOMAIN w : w[i] = 0 => i \notin R)
             /\ Check("P", "keep_rule", R = Range(idx) /\ Cardinality(R) = Len(o))
             /\ Check("M", "indices not in increasing order", o = idx))
       /\ (method = "multinomial" =>
             /\ Check("P", "exact_size", Len(o) = Tr[tid].size)
             /\ Check("M", "returned indices differ from the sampler's answer", o = idx))

TDone ==
    /\ pc = "done"
    /\ Say("done", "")
    /\ pc' = "reported"
    /\ UNCHANGED <<w, method, nreq, pos, us, idx, pvec, size, outIdx, outSmp>>

TraceNext ==
    /\ \/ RejStart
       \/ TScan
       \/ MultStart
       \/ TDraw
       \/ TGather
       \/ TDone
    /\ tid' = tid

TraceSpec == TraceInit /\ [][TraceNext]_tvars

=============================================================================
