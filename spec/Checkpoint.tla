----------------------------- MODULE Checkpoint -----------------------------
(***************************************************************************)
(* The on-disk checkpoint protocol of nessai and process kills.            *)
(*                                                                         *)
(*   writer: utils.io.safe_file_dump (called by BaseNestedSampler.         *)
(*           checkpoint) and FlowModel.save_weights (called at the end of  *)
(*           every training of the flow)                                   *)
(*   reader: FlowSampler.check_resume / _resume_from_file,                 *)
(*           FlowProposal.resume (weights)                                 *)
(*                                                                         *)
(* A file is absent, complete(v) or torn(v) (a strict prefix of version v; *)
(* a killed process leaves a prefix of the file it was writing).  Renames  *)
(* are atomic.  The sampler state has a version (number of the checkpoint) *)
(* and remembers how many trainings had completed (tc) and whether a       *)
(* weights file existed when it was pickled.                               *)
(*                                                                         *)
(* The writer is a program counter over the statements of the two          *)
(* functions; Kill is enabled between any two statements and between the   *)
(* chunks of a write.  Resume is the code's protocol with its exception    *)
(* filter.  AtomicWeights = TRUE replaces the in-place torch.save by       *)
(* write-to-temp + rename (the design that would satisfy the property);    *)
(* FALSE is what the code does.                                            *)
(***************************************************************************)
EXTENDS Integers, Sequences, FiniteSets, TLC, Json

CONSTANTS SaveExisting,    \* checkpoint(save_existing=...)
          AtomicWeights,   \* FALSE = the code: torch.save in place
          MaxCkpt,         \* checkpoints written by the run
          MaxTrain         \* trainings (weights saves) of the run

VARIABLES fs,      \* file -> [k: "absent" | "complete" | "torn", v: Nat]
          wpc,     \* writer program counter
          ver,     \* version of the sampler state being / last written
          tc,      \* trainings completed (version of the weights in memory)
          pkTc,    \* ver -> tc at the time that version was pickled
          done,    \* highest version whose checkpoint() call returned
          wdone,   \* highest weights version whose save returned
          proc,    \* "run" | "dead" | "resumed"
          outcome  \* result of the resume protocol

vars == <<fs, wpc, ver, tc, pkTc, done, wdone, proc, outcome>>

Files == {"pkl", "old", "temp", "pt", "ptold", "pttemp"}
Absent == [k |-> "absent", v |-> 0]
Complete(v) == [k |-> "complete", v |-> v]
Torn(v) == [k |-> "torn", v |-> v]

Init ==
    /\ fs = [f \in Files |-> Absent]
    /\ wpc = "idle" /\ ver = 0 /\ tc = 0 /\ pkTc = <<>> /\ done = 0 /\ wdone = 0
    /\ proc = "run" /\ outcome = "none"

Running == proc = "run"

\* ------------------------------------------------------------ checkpoint()
\* safe_file_dump(self, resume_file, pickle, save_existing)
BeginCkpt ==
    /\ Running /\ wpc = "idle" /\ ver < MaxCkpt
    /\ ver' = ver + 1
    /\ pkTc' = Append(pkTc, tc)
    /\ wpc' = "c_exists"
    /\ UNCHANGED <<fs, tc, done, wdone, proc, outcome>>

\* if save_existing and os.path.exists(filename): shutil.move(filename, filename + ".old")
MoveToOld ==
    /\ Running /\ wpc = "c_exists"
    /\ IF SaveExisting /\ fs["pkl"].k # "absent"
       THEN fs' = [fs EXCEPT !["old"] = fs["pkl"], !["pkl"] = Absent]
       ELSE UNCHANGED fs
    /\ wpc' = "c_open"
    /\ UNCHANGED <<ver, tc, pkTc, done, wdone, proc, outcome>>

\* open(temp, "wb") truncates
OpenTemp ==
    /\ Running /\ wpc = "c_open"
    /\ fs' = [fs EXCEPT !["temp"] = Torn(ver)]
    /\ wpc' = "c_write"
    /\ UNCHANGED <<ver, tc, pkTc, done, wdone, proc, outcome>>

\* module.dump(data, file); leaving the with block closes the file
WriteClose ==
    /\ Running /\ wpc = "c_write"
    /\ fs' = [fs EXCEPT !["temp"] = Complete(ver)]
    /\ wpc' = "c_rename"
    /\ UNCHANGED <<ver, tc, pkTc, done, wdone, proc, outcome>>

\* shutil.move(temp, filename)
Rename ==
    /\ Running /\ wpc = "c_rename"
    /\ fs' = [fs EXCEPT !["pkl"] = fs["temp"], !["temp"] = Absent]
    /\ wpc' = "idle" /\ done' = ver
    /\ UNCHANGED <<ver, tc, pkTc, wdone, proc, outcome>>

\* ---------------------------------------------------------- save_weights()
BeginTrain ==
    /\ Running /\ wpc = "idle" /\ tc < MaxTrain
    /\ wpc' = "w_exists"
    /\ UNCHANGED <<fs, ver, tc, pkTc, done, wdone, proc, outcome>>

\* if os.path.exists(weights_file): shutil.move(weights_file, weights_file + ".old")
MoveWeightsToOld ==
    /\ Running /\ wpc = "w_exists"
    /\ IF fs["pt"].k # "absent"
       THEN fs' = IF AtomicWeights
                  THEN [fs EXCEPT !["ptold"] = fs["pt"]]                   \* design: keep a copy
                  ELSE [fs EXCEPT !["ptold"] = fs["pt"], !["pt"] = Absent]  \* code: move
       ELSE UNCHANGED fs
    /\ wpc' = "w_open"
    /\ UNCHANGED <<ver, tc, pkTc, done, wdone, proc, outcome>>

\* torch.save(state_dict, weights_file): open (truncate) ...
OpenWeights ==
    /\ Running /\ wpc = "w_open"
    /\ fs' = IF AtomicWeights THEN [fs EXCEPT !["pttemp"] = Torn(tc + 1)]
             ELSE [fs EXCEPT !["pt"] = Torn(tc + 1)]
    /\ wpc' = "w_write"
    /\ UNCHANGED <<ver, tc, pkTc, done, wdone, proc, outcome>>

\* ... write and close
WriteWeights ==
    /\ Running /\ wpc = "w_write"
    /\ fs' = IF AtomicWeights THEN [fs EXCEPT !["pttemp"] = Complete(tc + 1)]
             ELSE [fs EXCEPT !["pt"] = Complete(tc + 1)]
    /\ wpc' = IF AtomicWeights THEN "w_rename" ELSE "w_done"
    /\ UNCHANGED <<ver, tc, pkTc, done, wdone, proc, outcome>>

RenameWeights ==
    /\ Running /\ wpc = "w_rename"
    /\ fs' = [fs EXCEPT !["pt"] = fs["pttemp"], !["pttemp"] = Absent]
    /\ wpc' = "w_done"
    /\ UNCHANGED <<ver, tc, pkTc, done, wdone, proc, outcome>>

EndTrain ==
    /\ Running /\ wpc = "w_done"
    /\ tc' = tc + 1 /\ wdone' = tc + 1
    /\ wpc' = "idle"
    /\ UNCHANGED <<fs, ver, pkTc, done, proc, outcome>>

\* --------------------------------------------------------------- the fault
Kill ==
    /\ Running
    /\ proc' = "dead"
    /\ UNCHANGED <<fs, wpc, ver, tc, pkTc, done, wdone, outcome>>

\* ------------------------------------------------------------------ resume
\* Loading the pickle at file f and then the weights it names.
\*   "fnf"      FileNotFoundError         (caught by the outer handler only)
\*   "runtime"  RuntimeError              (torch.load of a torn zip archive)
\*   "other"    EOFError / UnpicklingError (never caught)
LoadResult(f) ==
    IF fs[f].k = "absent" THEN "fnf"
    ELSE IF fs[f].k = "torn" THEN "other"
    ELSE LET v == fs[f].v
             needsWeights == pkTc[v] > 0          \* weights_file is not None
         IN  IF ~needsWeights THEN "ok"
             ELSE IF fs["pt"].k = "absent" THEN "ok_missing_weights"   \* os.path.exists is False: skipped silently
             ELSE IF fs["pt"].k = "torn" THEN "runtime"
             ELSE "ok"

Resume ==
    /\ proc = "dead"
    /\ proc' = "resumed"
    /\ outcome' =
         IF fs["pkl"].k = "absent" /\ fs["old"].k = "absent" THEN "fresh"
         ELSE LET first == LoadResult("pkl") IN
              IF first \in {"ok", "ok_missing_weights"} THEN first
              ELSE IF first = "other" THEN "failed"
              ELSE \* FileNotFoundError or RuntimeError: try <file>.old; only RuntimeError is caught there
                   LET second == LoadResult("old") IN
                   IF second \in {"ok", "ok_missing_weights"} THEN second
                   ELSE "failed"
    /\ UNCHANGED <<fs, wpc, ver, tc, pkTc, done, wdone>>

Next ==
    \/ BeginCkpt \/ MoveToOld \/ OpenTemp \/ WriteClose \/ Rename
    \/ BeginTrain \/ MoveWeightsToOld \/ OpenWeights \/ WriteWeights \/ RenameWeights \/ EndTrain
    \/ Kill \/ Resume

Spec == Init /\ [][Next]_vars

-----------------------------------------------------------------------------
(* C11 *)

\* a complete checkpoint is found and loaded (with complete weights), or the
\* run starts afresh when no checkpoint had ever completed
Resumable ==
    proc = "resumed" =>
        \/ outcome = "ok"
        \/ (outcome = "fresh" /\ done = 0)

\* the part of the property that does not involve the flow weights
PickleResumable ==
    proc = "resumed" =>
        \/ outcome \in {"ok", "ok_missing_weights"}
        \/ (outcome = "fresh" /\ done = 0)
        \/ (outcome = "failed" /\ fs["pt"].k = "torn")

\* the main pickle is never torn (rename is atomic)
MainNeverTorn == fs["pkl"].k # "torn" /\ fs["old"].k # "torn"

\* once a checkpoint completed, some complete pickle is always on disk
AlwaysOneComplete ==
    done > 0 => (fs["pkl"].k = "complete" \/ fs["old"].k = "complete")

\* export of every (state at kill, outcome) pair for comparison with the code
ExportOutcome ==
    (proc = "dead" /\ proc' = "resumed") =>
        PrintT("OUT " \o ToJson([wpc |-> wpc, ver |-> ver, tc |-> tc, done |-> done,
                                  fs |-> [f \in Files |-> fs[f].k],
                                  needPkl |-> (fs["pkl"].k = "complete" /\ pkTc[fs["pkl"].v] > 0),
                                  needOld |-> (fs["old"].k = "complete" /\ pkTc[fs["old"].v] > 0),
                                  outcome |-> outcome']))
=============================================================================
