-------------------------- MODULE SimNestedSampler --------------------------
(***************************************************************************)
(* Behaviour generation for spec -> code replay: NestedSampler.tla with a  *)
(* history variable that records every choice the ENVIRONMENT makes (the   *)
(* likelihood ranks of the initial points, the outcome of every proposal   *)
(* draw, whether the stopping condition still holds, whether a periodic    *)
(* checkpoint is due, run-again).  Each time a behaviour reaches "done"    *)
(* the script so far is printed together with the specification's state;   *)
(* vf/scripted.py replays it through the real NestedSampler with a         *)
(* scripted proposal and a scripted stopping condition.                    *)
(* Run with tlc -simulate (long behaviours at NLive = 10, the smallest     *)
(* value the code supports) or exhaustively for tiny constants.            *)
(***************************************************************************)
EXTENDS NestedSampler

VARIABLE hist

svars == <<vars, hist>>

Choice ==
    IF Len(rank') > Len(rank) THEN <<"acc", rank'[Len(rank')]>>
    ELSE IF loc.pc = "draw" /\ s'.poolLeft # s.poolLeft THEN <<"rej", 0>>
    ELSE IF loc.pc = "cs3" THEN <<"above", IF s'.above THEN 1 ELSE 0>>
    ELSE IF loc.pc = "upd" THEN <<"ckpt", IF disk' # disk THEN 1 ELSE 0>>
    ELSE IF loc.pc = "done" /\ loc'.pc = "top" THEN <<"again", 0>>
    ELSE <<"none", 0>>

\* initial likelihood ranks: non-decreasing with steps of 0 or 1 (ties included);
\* (enumerating all sorted vectors as in Init is infeasible for NLive = 10)
SimInit ==
    /\ \E d \in [1..NLive -> {0, 1}] :
          rank = [i \in 1..NLive |-> 1 + Cardinality({j \in 1..i : d[j] = 1})]
    /\ ok = [i \in 1..NLive |-> TRUE]
    /\ s = FreshS([i \in 1..NLive |-> i])
    /\ loc = NewLoc("loop")
    /\ disk = Null
    /\ proc = [st |-> "run", stops |-> 0, code |-> 0]
    /\ hist = <<<<"init", 0>>>>

SimNext ==
    /\ Next
    /\ hist' = IF Choice[1] = "none" THEN hist ELSE Append(hist, Choice)

SimSpec == SimInit /\ [][SimNext]_svars

\* no training, no asynchronous stops in scripted replays (one process)
SimConstraint == Bounded /\ s.trainCount = 0

PrintDone ==
    (loc'.pc = "done" /\ loc.pc # "done") =>
        PrintT("SIM " \o ToJson([init |-> [i \in 1..NLive |-> rank[i]], script |-> hist',
                                  live |-> s'.live, dead |-> s'.dead, ins |-> s'.ins, it |-> s'.it,
                                  fin |-> s'.fin, integ |-> s'.integ, rank |-> rank']))
=============================================================================
