----------------------------- MODULE TraceCodec -----------------------------
(***************************************************************************)
(* code -> spec for Codec: the dictionaries that REAL runs hand to         *)
(* FlowSampler.save_results / save_kwargs, projected to their kind-trees   *)
(* (entries [path, parent, kind]), are read from one JSON document         *)
(*   [ {call, fe, ea, ini, d: [entry...]} ... ]                            *)
(* Each must be in the language of Codec.tla; for those that are, the      *)
(* specification's own machine is run on them and its predictions (format, *)
(* file name, stored forms, read-back types, required / lost paths) are    *)
(* exported ("TR {json}") for comparison with what the real files hold.    *)
(* A tree outside the language is reported and not walked.                 *)
(***************************************************************************)
EXTENDS Codec, IOUtils

J == JsonDeserialize(IOEnv.TRACE_FILE)

VARIABLE tid
tvars == <<vars, tid>>

ToSet(s) == {s[i] : i \in DOMAIN s}
TreeOf(c) == {[path |-> e.path, parent |-> e.parent, kind |-> e.kind] : e \in ToSet(c.d)}

TraceInit ==
    \E i \in DOMAIN J :
        /\ tid = i
        /\ InitWith(J[i].call, J[i].fe, J[i].ea, J[i].ini, TreeOf(J[i]))

Reject ==
    /\ pc = "assemble" /\ ~ InLanguage(d)
    /\ PrintT("TR " \o ToJson([tid |-> tid, inlang |-> FALSE,
                                bad |-> {e.path : e \in {x \in d : x.kind \notin Kinds}}]))
    /\ pc' = "done" /\ status' = "-"
    /\ UNCHANGED <<casev, mem, fmt, fname, stored, back, lv, last>>

TraceNext == ((InLanguage(d) /\ Next) \/ Reject) /\ tid' = tid

TraceSpec == TraceInit /\ [][TraceNext]_tvars

TraceExport ==
    (pc' = "done" /\ pc # "done" /\ InLanguage(d))
        => PrintT("TR " \o ToJson([tid |-> tid, inlang |-> TRUE, c |-> CaseRecord]))
=============================================================================
