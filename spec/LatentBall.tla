----------------------------- MODULE LatentBall -----------------------------
(***************************************************************************)
(* The radial rule of the uniform draw inside the latent n-ball            *)
(* (nessai.utils.sampling.draw_nsphere, the candidate generator of         *)
(* FlowProposal for latent_prior = "uniform_nball" / "uniform_nsphere").   *)
(*                                                                         *)
(* "Uniform in the ball of radius R = fuzz * r" means: the radius of a     *)
(* draw is the one that encloses the fraction u of the ball's volume,      *)
(* where u is the uniform variate:  (rho / R)^D = u.  On the grid          *)
(* u = k^D / N^D this is exact in the integers:  rho / R = k / N.          *)
(* TLC enumerates the grid, checks that the rule is a monotone bijection   *)
(* of the grid onto itself and exports one case per (D, k) for the replay  *)
(* through the real function with the uniform variates scripted            *)
(* (vf/c09.py); the direction of the draw is left to the real generator.   *)
(***************************************************************************)
EXTENDS Integers, Sequences, TLC, Json

CONSTANTS MaxD,   \* dimensions 1..MaxD
          N       \* grid: u = k^D / N^D, k = 0..N

VARIABLES d, k
vars == <<d, k>>

Pow(b, e) == LET F[i \in 0..e] == IF i = 0 THEN 1 ELSE b * F[i - 1] IN F[e]

\* the radius (in units of R / N) enclosing the volume fraction unum / N^dim
Radial(dim, unum) == CHOOSE j \in 0..N : Pow(j, dim) = unum

Init == d \in 1..MaxD /\ k \in 0..N
Next == UNCHANGED vars
Spec == Init /\ [][Next]_vars

\* the rule is defined on the whole grid, monotone, and maps the end points to the end points
WellDefined == Radial(d, Pow(k, d)) = k
Monotone == \A a, b \in 0..N : a < b => Radial(d, Pow(a, d)) < Radial(d, Pow(b, d))
EndPoints == Radial(d, 0) = 0 /\ Radial(d, Pow(N, d)) = N

Export == PrintT("BALL " \o ToJson([d |-> d, k |-> k, n |-> N, unum |-> Pow(k, d), uden |-> Pow(N, d),
                                     radial |-> Radial(d, Pow(k, d))]))
=============================================================================
