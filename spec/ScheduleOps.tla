---------------------------- MODULE ScheduleOps ----------------------------
(***************************************************************************)
(* BaseNestedSampler.checkpoint(periodic, force): when a call writes a     *)
(* file and what it does to _last_checkpoint - as pure operators, shared   *)
(* by the design model (Schedule.tla) and the trace specifications.        *)
(*                                                                         *)
(*   if not periodic: (signal handler) always writes, schedule untouched   *)
(*   elif force:      (end of the loop) always writes, schedule untouched  *)
(*   else:            writes iff  now - last >= interval  where now/last   *)
(*                    are iterations (checkpoint_on_iteration) or seconds; *)
(*                    then last := now                                     *)
(***************************************************************************)
EXTENDS Integers

\* is the periodic checkpoint due?  (cur, last in the unit of the mode)
Due(cur, last, interval) == cur - last >= interval

Writes(periodic, force, due) == (~periodic) \/ force \/ due

\* the value of _last_checkpoint after the call
LastAfter(periodic, force, due, cur, last) ==
    IF periodic /\ ~force /\ due THEN cur ELSE last
=============================================================================
