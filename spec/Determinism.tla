----------------------------- MODULE Determinism -----------------------------
(***************************************************************************)
(* Self-composition of a sampler run for the 2-safety property C14:        *)
(* two runs with the same seed and configuration - possibly differing in   *)
(* the parallelisation settings only - make the same observations at every *)
(* iteration boundary.                                                     *)
(*                                                                         *)
(* The random source is a stream indexed by a position that is part of the *)
(* state (one position for numpy's global generator, one for torch's).     *)
(* Every action consumes a number of draws that may depend on the abstract *)
(* state only; the value produced by batched likelihood evaluation and the *)
(* evaluation count do not depend on (n_pool, pool, chunksize,             *)
(* parallelise_prior) - that is the theorem of BatchEval.tla - so the      *)
(* parallel settings only choose HOW a batch is split (Split below), which *)
(* no later action can observe.                                            *)
(*                                                                         *)
(* Leak = TRUE adds what a broken implementation would do: the number of   *)
(* chunks leaks into the random stream (e.g. one extra draw per chunk).    *)
(* TLC then finds the diverging pair of runs; with Leak = FALSE the        *)
(* property holds.                                                         *)
(***************************************************************************)
EXTENDS Integers, Sequences, TLC

CONSTANTS MaxIt,      \* iterations
          PoolN,      \* points per population
          MaxChunks,  \* each batch of each run is split into 1..MaxChunks chunks (any choice, every time)
          Leak

VARIABLES run    \* run[i] = [it, np, tr, pool, obs, evals], i \in 1..2

vars == <<run>>

\* the value of the k-th draw of a stream is a fixed function of (seed, k):
\* modelled by the position itself
Val(k) == (k * 7 + 3) % 5

InitRun == [it |-> 0, np |-> 0, tr |-> 0, pool |-> 0, obs |-> <<>>, evals |-> 0, split |-> 0]

Init == run = [i \in 1..2 |-> InitRun]

\* populate: PoolN candidates (numpy stream), one batch evaluation
Populate(r, c) ==
    [r EXCEPT !.np = @ + PoolN + (IF Leak THEN c ELSE 0),
              !.pool = PoolN, !.evals = @ + PoolN, !.split = c]

\* train: consumes the torch stream, amount depends on the iteration only
Train(r) == [r EXCEPT !.tr = @ + 2 + (r.it % 2)]

\* one iteration: draw from the pool (populate and train when empty), observe
Step(r, c) ==
    LET a == IF r.pool = 0 THEN Populate(Train(r), c) ELSE r
        b == [a EXCEPT !.pool = @ - 1, !.it = @ + 1]
    IN  [b EXCEPT !.obs = Append(@, <<Val(b.np), Val(b.tr), b.evals>>)]

\* lock-step
Next ==
    /\ run[1].it < MaxIt
    /\ \E c1, c2 \in 1..MaxChunks :
          run' = [i \in 1..2 |-> Step(run[i], IF i = 1 THEN c1 ELSE c2)]

Spec == Init /\ [][Next]_vars

\* C14: equal observations at every boundary, whatever the chunking
SameObservations == run[1].obs = run[2].obs /\ run[1].evals = run[2].evals
=============================================================================
