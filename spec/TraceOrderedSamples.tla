------------------------- MODULE TraceOrderedSamples -------------------------
(***************************************************************************)
(* Trace validation for OrderedSamples: executions recorded from the real  *)
(* object (random drivers, and both stores of real importance-sampler      *)
(* runs) are checked against the operations of OrderedSamples.tla.         *)
(*                                                                         *)
(* All traces of a batch are packed in one JSON document                   *)
(*   { "ev": [event...], "win": [[first, last]...] }                       *)
(* read once; trace number tid is the window win[tid] into ev.  Each event *)
(* carries the call (op, b = ranks of the batch, t = rank of the           *)
(* threshold) and the complete projected state after the call.            *)
(*                                                                         *)
(* The state variables FOLLOW THE LOGGED STATE.  At each step              *)
(*   P-clauses: the clauses of the property, evaluated on the logged state *)
(*   M-clauses: the logged state is what the specification's operation     *)
(*              computes from the previous logged state (up to the order   *)
(*              of ids among tied likelihoods), and the call was inside    *)
(*              the modelled protocol                                      *)
(* A failing clause is printed ("TR {json}") and the walk continues, so    *)
(* the verdict is total and names the clause.                              *)
(***************************************************************************)
EXTENDS OrderedSamples, IOUtils

J   == JsonDeserialize(IOEnv.TRACE_FILE)
Ev  == J.ev
Win == J.win

VARIABLES tid, l

tvars == <<vars, tid, l>>

Say(k, c) == PrintT("TR " \o ToJson([k |-> k, tid |-> tid, l |-> l, c |-> c]))
Check(k, c, cond) == IF cond THEN TRUE ELSE Say(k, c)   \* (a disjunction would make TLC branch)

Logged(e) ==
    [samples  |-> [i \in DOMAIN e.L |-> [id |-> e.ids[i], L |-> e.L[i]]],
     rows     |-> e.rows,
     live     |-> e.live,
     liveNone |-> e.liveNone,
     nested   |-> e.nested,
     thr      |-> e.thr,
     nextId   |-> nextId + Len(e.b),
     ret      |-> IF e.op = "remove" THEN e.ret ELSE ret]

Enabled(e) ==
    CASE e.op = "add_initial" -> AddInitialOK(St, last, e.b)
      [] e.op = "add"         -> AddOK(St, last, e.b)
      \* the sampler applies the threshold chosen on its MAIN store to both stores, so for
      \* the other store it need not be the likelihood of one of its own live samples
      [] e.op = "threshold"   -> last \notin {"init", "finalise"} /\ ~liveNone
      [] e.op = "remove"      -> RemoveOK(St, last)
      [] e.op = "finalise"    -> FinaliseOK(St, last)
      [] OTHER                -> FALSE

Predicted(e) ==
    CASE e.op = "add_initial" -> AddInitialF(St, e.b)
      [] e.op = "add"         -> AddF(St, e.b)
      [] e.op = "threshold"   -> ThresholdF(St, e.t)
      [] e.op = "remove"      -> RemoveF(St)
      [] e.op = "finalise"    -> FinaliseF(St)

\* equality up to the arrangement of ids among equal likelihoods
SameShape(a, b) ==
    /\ Ls(a.samples) = Ls(b.samples)
    /\ a.live = b.live /\ a.liveNone = b.liveNone /\ a.nested = b.nested
    /\ a.thr = b.thr /\ a.ret = b.ret /\ a.nextId = b.nextId

TraceInit ==
    /\ Init
    /\ tid \in 1..Len(Win)
    /\ l = Win[tid][1]

TraceStep ==
    /\ l <= Win[tid][2]
    /\ LET e == Ev[l] IN
       \E post \in {Logged(e)} :
          /\ Apply(post, e.op)
          /\ idL' = idL \o e.b
          /\ hist' = hist
          \* ---- P-clauses, on the state the code actually produced
          /\ Check("P", "sorted", SortedS(post))
          /\ Check("P", "partition", PartitionS(post))
          /\ Check("P", "nothing_lost", AllPresentS(post))
          /\ Check("P", "unmodified", e.content)
          /\ Check("P", "aligned", AlignedS(post))
          /\ Check("P", "strict_live", StrictLiveS(post, e.op))
          /\ Check("P", "removed_below", RemovedBelowS(post, e.op))
          /\ Check("P", "remove_count", e.op = "remove" => RemoveCountS(St, post))
          \* ---- M-clauses
          /\ IF Enabled(e)
             THEN Check("M", "post-state of " \o e.op \o " differs from the specification",
                        SameShape(Predicted(e), post))
             ELSE Say("M", e.op \o " called outside the modelled protocol")
    /\ l' = l + 1
    /\ tid' = tid

TraceDone ==
    /\ l = Win[tid][2] + 1
    /\ Say("done", "")
    /\ l' = l + 1
    /\ UNCHANGED <<vars, tid>>

TraceNext == TraceStep \/ TraceDone

TraceSpec == TraceInit /\ [][TraceNext]_tvars

=============================================================================
