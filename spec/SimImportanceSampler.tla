----------------------- MODULE SimImportanceSampler -----------------------
(***************************************************************************)
(* ImportanceSampler.tla plus a history of the environment's choices (which *)
(* stopping criteria are met after every iteration), for spec -> code       *)
(* replay: every behaviour up to the end of the loop is exported as        *)
(*   SIM {"hist": [[met...]...], "it": iterations completed}               *)
(* and replayed through the real ImportanceNestedSampler with the          *)
(* criterion values scripted (vf/runner.py, ins_script); the real loop      *)
(* must stop after exactly `it` iterations.  No kills / signals here       *)
(* (MaxStops = 0); one sample is removed per level (the sizes do not        *)
(* influence the stopping rule).                                           *)
(***************************************************************************)
EXTENDS ImportanceSampler, Json

VARIABLE hist

svars == <<vars, hist>>

SimInit == Init /\ hist = <<>>

SimCriteria ==
    /\ At("evidence")
    /\ \E m \in [1..NCrit -> BOOLEAN] :
          /\ s' = [s EXCEPT !.met = m]
          /\ hist' = Append(hist, m)
    /\ pc' = "history" /\ UNCHANGED loc /\ Same

SimNext ==
    \/ SimCriteria
    \/ /\ (Entry \/ Top \/ Remove \/ Train \/ SetWeight \/ Draw \/ UpdateColumns \/ Insert
              \/ IidDraw \/ History \/ Checkpoint \/ Finalise)
       /\ UNCHANGED hist

SimSpec == SimInit /\ [][SimNext]_svars

OneRemoved == (pc = "threshold" /\ pc' = "train") => loc'.nrem = 1

\* exported when the loop ends
PrintEnd ==
    (pc = "finalise" /\ pc' = "done") =>
        PrintT("SIM " \o ToJson([hist |-> hist, it |-> s.it]))

SimConstraintA == OneRemoved /\ PrintEnd
=============================================================================
