--------------------------- MODULE ScheduleProofs ---------------------------
(***************************************************************************)
(* TLAPS proofs (tlapm) of the arithmetic facts behind Schedule.tla, for   *)
(* unbounded integers: what one call of checkpoint(periodic=True) on the   *)
(* boundary guarantees, whatever the interval.                             *)
(***************************************************************************)
EXTENDS ScheduleOps, TLAPS

Slack(iv) == IF iv > 0 THEN iv - 1 ELSE 0

\* after a periodic, unforced call the distance to the last periodic write is below the interval
THEOREM AfterCallBound ==
    ASSUME NEW cur \in Int, NEW last \in Int, NEW iv \in Nat, last <= cur
    PROVE  cur - LastAfter(TRUE, FALSE, Due(cur, last, iv), cur, last) <= Slack(iv)
BY DEF LastAfter, Due, Slack

\* the schedule never moves backwards and never into the future
THEOREM LastMonotone ==
    ASSUME NEW cur \in Int, NEW last \in Int, NEW iv \in Nat, NEW p \in BOOLEAN, NEW f \in BOOLEAN, last <= cur
    PROVE  /\ last <= LastAfter(p, f, Due(cur, last, iv), cur, last)
           /\ LastAfter(p, f, Due(cur, last, iv), cur, last) <= cur
BY DEF LastAfter, Due

\* a file is written whenever the schedule moves, and always for signal / forced calls
THEOREM WritesWhenMoved ==
    ASSUME NEW cur \in Int, NEW last \in Int, NEW iv \in Nat, NEW p \in BOOLEAN, NEW f \in BOOLEAN
    PROVE  /\ (LastAfter(p, f, Due(cur, last, iv), cur, last) # last => Writes(p, f, Due(cur, last, iv)))
           /\ (~p \/ f => Writes(p, f, Due(cur, last, iv)))
BY DEF LastAfter, Due, Writes

\* interval 0: every periodic call writes
THEOREM IntervalZeroAlwaysWrites ==
    ASSUME NEW cur \in Int, NEW last \in Int, last <= cur
    PROVE  Writes(TRUE, FALSE, Due(cur, last, 0))
BY DEF Due, Writes
=============================================================================
