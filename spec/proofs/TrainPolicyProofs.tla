-------------------------- MODULE TrainPolicyProofs --------------------------
(***************************************************************************)
(* TLAPS proofs of facts about the training policy operators               *)
(* (TrainPolicyOps.tla) for unbounded integers.                            *)
(***************************************************************************)
EXTENDS TrainPolicyOps, TLAPS

\* a forced decision is a decision to train; an interrupted training or an empty pool forces
THEOREM ForceImpliesTrain ==
    ASSUME NEW c \in BOOLEAN, NEW pop \in BOOLEAN, NEW toe \in BOOLEAN, NEW popg \in BOOLEAN,
           NEW low \in BOOLEAN, NEW ra \in BOOLEAN, NEW it \in Int, NEW last \in Int, NEW freq \in Int
    PROVE  LET d == Decision(c, pop, toe, popg, low, ra, it, last, freq)
           IN  /\ (d[2] => d[1])
               /\ (~c => d = <<TRUE, TRUE>>)
               /\ ((c /\ ~pop /\ toe /\ ~popg) => d = <<TRUE, TRUE>>)
BY DEF Decision

\* a forced training always trains; an unforced one exactly when the cooldown has passed
THEOREM TrainsIffCooled ==
    ASSUME NEW f \in BOOLEAN, NEW it \in Int, NEW last \in Int, NEW cd \in Int
    PROVE  /\ (f => Trains(f, it, last, cd))
           /\ (~f => (Trains(f, it, last, cd) <=> it - last >= cd))
BY DEF Trains

\* nothing is reset before the first training; both are reset on low acceptance with reset_acceptance
THEOREM ResetFacts ==
    ASSUME NEW tc \in Nat, NEW ra \in BOOLEAN, NEW low \in BOOLEAN, NEW rw \in Nat, NEW rp \in Nat
    PROVE  /\ (tc = 0 => ResetFlags(tc, ra, low, rw, rp) = <<FALSE, FALSE>>)
           /\ ((tc > 0 /\ ra /\ low) => ResetFlags(tc, ra, low, rw, rp) = <<TRUE, TRUE>>)
           /\ ((rw = 0 /\ rp = 0 /\ ~(ra /\ low)) => ResetFlags(tc, ra, low, rw, rp) = <<FALSE, FALSE>>)
BY DEF ResetFlags

\* the training set is never smaller than the live set and grows by at most `memory'
THEOREM DataSizeBounds ==
    ASSUME NEW nl \in Nat, NEW nd \in Nat, NEW m \in Nat
    PROVE  /\ DataSize(nl, nd, m) >= nl
           /\ DataSize(nl, nd, m) <= nl + m
BY DEF DataSize
=============================================================================
