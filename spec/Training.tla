------------------------------ MODULE Training ------------------------------
(***************************************************************************)
(* The training loop of a normalising flow (nessai.flowmodel.base.         *)
(* FlowModel.train): epochs, validation loss, early stopping with          *)
(* patience, restoring the best weights, saving them.  Beyond the listed   *)
(* properties; bound to the code by trace validation in vf/c20.py's        *)
(* completed runs (TraceTraining.tla).                                     *)
(*                                                                         *)
(* The environment supplies the validation loss of every epoch as a rank   *)
(* (ties possible).  best is the epoch with the lowest validation loss so  *)
(* far (the FIRST such epoch: the code compares with <); training stops    *)
(* when epoch - best > patience or after MaxEpochs; with validation the    *)
(* weights of the best epoch are restored before they are saved.           *)
(***************************************************************************)
EXTENDS Integers, Sequences, TLC

CONSTANTS MaxEpochs, Patience, Losses, Validate

VARIABLES epoch, best, bestLoss, hist, pc, restored

vars == <<epoch, best, bestLoss, hist, pc, restored>>

Inf == 1000

Init == epoch = 0 /\ best = 0 /\ bestLoss = Inf /\ hist = <<>> /\ pc = "train" /\ restored = -1

\* one pass over the data, then the validation loss
Epoch ==
    /\ pc = "train" /\ epoch < MaxEpochs
    /\ \E l \in Losses :
          /\ epoch' = epoch + 1
          /\ hist' = Append(hist, l)
          /\ IF Validate /\ l < bestLoss
             THEN best' = epoch + 1 /\ bestLoss' = l
             ELSE UNCHANGED <<best, bestLoss>>
          \* if validate and (epoch - best_epoch > patience): break
          /\ pc' = IF Validate /\ (epoch + 1) - (IF l < bestLoss THEN epoch + 1 ELSE best) > Patience
                   THEN "finish" ELSE "train"
    /\ UNCHANGED restored

Exhausted ==
    /\ pc = "train" /\ epoch = MaxEpochs
    /\ pc' = "finish" /\ UNCHANGED <<epoch, best, bestLoss, hist, restored>>

\* load the best model (if validating), save the weights
Finish ==
    /\ pc = "finish"
    /\ restored' = IF Validate THEN best ELSE epoch
    /\ pc' = "done" /\ UNCHANGED <<epoch, best, bestLoss, hist>>

Next == Epoch \/ Exhausted \/ Finish
Spec == Init /\ [][Next]_vars /\ WF_vars(Next)

\* ---- properties
BestIsFirstMinimum ==
    (Validate /\ epoch > 0) =>
        /\ best \in 1..epoch /\ hist[best] = bestLoss
        /\ \A k \in 1..epoch : hist[k] >= bestLoss
        /\ \A k \in 1..(best - 1) : hist[k] > bestLoss
NeverPastPatience == (Validate /\ pc = "train") => epoch - best <= Patience
StopsByPatienceOrCap ==
    pc \in {"finish", "done"} => (epoch = MaxEpochs \/ (Validate /\ epoch - best > Patience))
RestoresBest == pc = "done" => restored = (IF Validate THEN best ELSE epoch)
Terminates == <>(pc = "done")
=============================================================================
