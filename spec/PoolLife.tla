------------------------------ MODULE PoolLife ------------------------------
(***************************************************************************)
(* Life cycle of the multiprocessing pool used for likelihood evaluation   *)
(* (Model.configure_pool / Model.close_pool, BaseNestedSampler.close_pool, *)
(*  NestedSampler.nested_sampling_loop, FlowSampler.run_* / terminate_run  *)
(*  / safe_exit), beyond the listed properties:                            *)
(*                                                                         *)
(*   - a pool is created at most once per process and only used while open *)
(*   - close_pool(code): terminate() for SIGINT (code 2), close()          *)
(*     otherwise, then join(), then the reference is dropped               *)
(*   - a run that ends with close_pool=True leaves no open pool; with      *)
(*     close_pool=False the pool stays usable                              *)
(*   - the signal handler closes the pool FIRST and then writes the        *)
(*     checkpoint, then exits: no worker outlives the handler and the      *)
(*     checkpoint is always written                                        *)
(*   - a pickled sampler never contains the pool                           *)
(*                                                                         *)
(* PoolStep is the transition function of the pool object itself; it is    *)
(* shared with the trace specification (TracePoolLife.tla).                *)
(***************************************************************************)
EXTENDS Integers, Sequences, TLC

CONSTANTS NPool,       \* n_pool (0 = no pool)
          ClosePool,   \* close_pool of the run
          MaxEval, MaxStops

PoolStep(p, op) ==
    CASE op = "new"       -> IF p \in {"none", "joined"} THEN "open" ELSE "error"
      [] op = "map"       -> IF p = "open" THEN "open" ELSE "error"
      [] op = "close"     -> IF p = "open" THEN "closing" ELSE "error"
      [] op = "terminate" -> IF p = "open" THEN "terminating" ELSE "error"
      [] op = "join"      -> IF p \in {"closing", "terminating"} THEN "joined" ELSE "error"
      [] OTHER            -> "error"

\* close_pool(code) as the sequence of pool operations it performs
CloseOps(code) == IF code = 2 THEN <<"terminate", "join">> ELSE <<"close", "join">>

VARIABLES pool,     \* state of the pool object of the running process
          phase,    \* "init" | "sampling" | "closing_end" | "handler" | "done" | "exited" | "dead"
          todo,     \* pool operations still to perform by the current close_pool call
          sig,      \* signal being handled (0 = none)
          evals, stops,
          pickled,  \* pool field of the last pickle: "none" always (Model.__getstate__)
          ckptInHandler

vars == <<pool, phase, todo, sig, evals, stops, pickled, ckptInHandler>>

Init ==
    /\ pool = "none" /\ phase = "init" /\ todo = <<>> /\ sig = 0
    /\ evals = 0 /\ stops = 0 /\ pickled = "absent" /\ ckptInHandler = FALSE

\* Model.configure_pool
Configure ==
    /\ phase = "init"
    /\ pool' = IF NPool > 0 THEN PoolStep(pool, "new") ELSE pool
    /\ phase' = "sampling"
    /\ UNCHANGED <<todo, sig, evals, stops, pickled, ckptInHandler>>

\* batch evaluation: through the pool while it is open, serial otherwise
Evaluate ==
    /\ phase = "sampling" /\ evals < MaxEval
    /\ pool' = IF pool \in {"none", "joined"} THEN pool ELSE PoolStep(pool, "map")
    /\ evals' = evals + 1
    /\ UNCHANGED <<phase, todo, sig, stops, pickled, ckptInHandler>>

\* periodic checkpoint
Checkpoint ==
    /\ phase = "sampling"
    /\ pickled' = "none"
    /\ UNCHANGED <<pool, phase, todo, sig, evals, stops, ckptInHandler>>

\* end of the run: final checkpoint, then close_pool() if requested
EndRun ==
    /\ phase = "sampling"
    /\ pickled' = "none"
    /\ IF ClosePool /\ pool = "open"
       THEN phase' = "closing_end" /\ todo' = CloseOps(0)
       ELSE phase' = "done" /\ UNCHANGED todo
    /\ UNCHANGED <<pool, sig, evals, stops, ckptInHandler>>

\* one pool operation of a close_pool call
CloseStep ==
    /\ phase \in {"closing_end", "handler"} /\ todo # <<>>
    /\ pool' = PoolStep(pool, Head(todo))
    /\ todo' = Tail(todo)
    /\ UNCHANGED <<phase, sig, evals, stops, pickled, ckptInHandler>>

CloseEnd ==
    /\ phase = "closing_end" /\ todo = <<>>
    /\ phase' = "done"
    /\ UNCHANGED <<pool, todo, sig, evals, stops, pickled, ckptInHandler>>

\* SIGTERM (15) / SIGINT (2) / SIGALRM (14): terminate_run(code) = close_pool(code); checkpoint()
Signal ==
    /\ phase = "sampling" /\ stops < MaxStops
    /\ \E c \in {2, 14, 15} :
          /\ sig' = c
          /\ todo' = IF pool = "open" THEN CloseOps(c) ELSE <<>>
    /\ phase' = "handler" /\ stops' = stops + 1
    /\ UNCHANGED <<pool, evals, pickled, ckptInHandler>>

HandlerCheckpointAndExit ==
    /\ phase = "handler" /\ todo = <<>>
    /\ pickled' = "none" /\ ckptInHandler' = TRUE
    /\ phase' = "exited"
    /\ UNCHANGED <<pool, todo, sig, evals, stops>>

Kill ==
    /\ phase \in {"sampling", "closing_end", "handler"} /\ stops < MaxStops
    /\ phase' = "dead" /\ stops' = stops + 1
    /\ UNCHANGED <<pool, todo, sig, evals, pickled, ckptInHandler>>

\* a new process: no pool object survives, it is configured again
Resume ==
    /\ phase \in {"exited", "dead"}
    /\ pool' = "none" /\ phase' = "init" /\ todo' = <<>> /\ sig' = 0 /\ ckptInHandler' = FALSE
    /\ UNCHANGED <<evals, stops, pickled>>

Next == Configure \/ Evaluate \/ Checkpoint \/ EndRun \/ CloseStep \/ CloseEnd \/ Signal
        \/ HandlerCheckpointAndExit \/ Kill \/ Resume

Spec == Init /\ [][Next]_vars

-----------------------------------------------------------------------------
NeverMisused == pool # "error"
NoLeakAtEnd  == (phase = "done" /\ ClosePool) => pool \in {"none", "joined"}
KeptOpen     == (phase = "done" /\ ~ClosePool /\ NPool > 0) => pool = "open"
HandlerLeavesNoWorker == phase = "exited" => pool \in {"none", "joined"}
HandlerCheckpoints    == phase = "exited" => (ckptInHandler /\ pickled = "none")
PickleHasNoPool == pickled \in {"absent", "none"}
TerminateOnlyForSigint ==
    [][ (pool = "open" /\ pool' = "terminating") => sig = 2 ]_vars
CloseBeforeCheckpoint ==
    [][ (phase = "handler" /\ phase' = "exited") => pool \in {"none", "joined"} ]_vars
=============================================================================
