------------------------------ MODULE Integral ------------------------------
(***************************************************************************)
(* The nested-sampling quadrature of nessai, written once.                 *)
(*   nessai.evidence._NSIntegralState  (increment / finalise /             *)
(*                                      log_posterior_weights)             *)
(*   nessai.posterior.compute_weights  (the one-pass form)                 *)
(*                                                                         *)
(* An ENTRY is a discarded point e_k = (l_k, n_k): l_k its likelihood      *)
(* symbol from the ordered alphabet 0 < 1 < ... < NSym (0 stands for       *)
(* log L = -inf, i.e. L = 0), n_k the number of live points when it was    *)
(* discarded.  The documented quadrature:                                  *)
(*                                                                         *)
(*   shrinkage      logt: log X_k = log X_{k-1} - 1/n_k     (<log t>)      *)
(*                  t   :     X_k = X_{k-1} * n_k/(n_k+1)   (<t>)          *)
(*                  X_0 = 1 (log X_0 = 0)                                  *)
(*   rectangle      T_k = L_k (X_{k-1} - X_k),  Z_rect = sum_k T_k         *)
(*                  (the running evidence while sampling)                  *)
(*   trapezoid      Z = sum_{i=0..m} (L_i + L_{i+1})/2 (X_i - X_{i+1})     *)
(*                  with L_0 = 0, L_{m+1} = L_m, X_{m+1} = 0               *)
(*                  (finalise / compute_weights; closing point at X = 0)   *)
(*   weights        w_k = T_k / Z            (k = 1..m)                    *)
(*                                                                         *)
(* Exactness.  In mode "t" every X_k is a rational and, reading symbol s   *)
(* as the likelihood L = s, so are T_k, Z_rect and Z; they are computed    *)
(* here as reduced pairs <<num, den>> (den > 0).  In mode "logt" the       *)
(* LOG-volumes are rationals and are what the variable vols holds; the     *)
(* value of the quadrature is then the term structure above with           *)
(* X_k = exp(vols[k+1]), which the replaying harness evaluates.            *)
(*                                                                         *)
(* Two ways of driving the integrator (kind):                              *)
(*   "const"  what NestedSampler does: Increment(l, nlive) while sampling, *)
(*            then finalise(): the nlive remaining live points with        *)
(*            n = nlive - i, then the trapezoid.                           *)
(*   "vary"   an arbitrary live count at every entry, then the trapezoid.  *)
(***************************************************************************)
EXTENDS Integers, Sequences, FiniteSets, TLC, Json

CONSTANTS MaxLen,       \* kind "const": longest entry sequence (>= nlive)
          MaxN,         \* kind "const": nlive in 1..MaxN
          NSym,         \* kind "const": symbols 0..NSym
          MaxLenVary,   \* kind "vary": longest entry sequence
          MaxNVary,     \* kind "vary": n in 1..MaxNVary
          NSymVary,     \* kind "vary": symbols 0..NSymVary
          Exact         \* TRUE: exact rational volumes and evidence.  FALSE: volumes
                        \* abstracted to their ordinal -k (only for validating long
                        \* recorded call sequences, whose rationals exceed TLC's
                        \* 32-bit integers; the numbers are then checked by the harness)

VARIABLES mode,     \* "logt" | "t"            expectation
          kind,     \* "const" | "vary"
          nlive,    \* base number of live points (0 for kind "vary")
          phase,    \* "sample" -> "final" -> "closed"
          fi,       \* live points already consumed by finalise
          logLs,    \* the code's logLs: <<0>> (= -inf) followed by the l_k
          ns,       \* the code's nlive list: the n_k
          vols,     \* the code's log_vols: X_0.. (mode t) / log X_0.. (mode logt)
          terms,    \* mode t: T_k
          zrect,    \* mode t: running rectangle evidence
          ztrap     \* mode t: trapezoidal evidence once closed

vars == <<mode, kind, nlive, phase, fi, logLs, ns, vols, terms, zrect, ztrap>>

-----------------------------------------------------------------------------
(* Exact rationals as reduced pairs <<num, den>>, den > 0.  Sums go over   *)
(* the least common denominator so that no intermediate exceeds 2^31 for   *)
(* the constants used (TLC reports an overflow as an error).               *)

Abs(x) == IF x < 0 THEN -x ELSE x

RECURSIVE GCD(_, _)
GCD(a, b) == IF b = 0 THEN a ELSE GCD(b, a % b)

Q(a, b) == LET g == GCD(Abs(a), b) IN <<a \div g, b \div g>>
Zero == <<0, 1>>
One  == <<1, 1>>

QAdd(p, q) == LET g == GCD(p[2], q[2])
              IN  Q(p[1] * (q[2] \div g) + q[1] * (p[2] \div g), (p[2] \div g) * q[2])
QNeg(p)    == <<-p[1], p[2]>>
QSub(p, q) == QAdd(p, QNeg(q))
QMul(p, q) == LET g1 == GCD(Abs(p[1]), q[2])
                  g2 == GCD(Abs(q[1]), p[2])
              IN  IF p[1] = 0 \/ q[1] = 0 THEN Zero
                  ELSE <<(p[1] \div g1) * (q[1] \div g2), (p[2] \div g2) * (q[2] \div g1)>>
QLess(p, q) == QSub(p, q)[1] < 0
QPos(p)     == p[1] > 0

RECURSIVE QSum(_, _)
QSum(s, k) == IF k = 0 THEN Zero ELSE QAdd(QSum(s, k - 1), s[k])

RECURSIVE Prod(_, _, _)
Prod(s, k, add) == IF k = 0 THEN 1 ELSE (s[k] + add) * Prod(s, k - 1, add)

RECURSIVE SumDiv(_, _, _)
SumDiv(s, k, d) == IF k = 0 THEN 0 ELSE (d \div s[k]) + SumDiv(s, k - 1, d)

Last(s) == s[Len(s)]

-----------------------------------------------------------------------------
(* The quadrature                                                          *)

Unit(m) == IF m = "logt" THEN Zero ELSE One          \* log X_0 = 0 / X_0 = 1

\* one shrinkage step
Shrink(m, v, n) == IF m = "logt" THEN QSub(v, <<1, n>>) ELSE QMul(v, <<n, n + 1>>)

\* the same volumes in closed (one-pass, "cumsum") form: after the first k entries
ClosedVol(m, nn, k) ==
    IF m = "logt" THEN LET d == Prod(nn, k, 0) IN Q(-SumDiv(nn, k, d), d)
    ELSE Q(Prod(nn, k, 0), Prod(nn, k, 1))

\* rectangle term of an entry (mode t)
Term(l, vPrev, vNew) == QMul(<<l, 1>>, QSub(vPrev, vNew))

\* _NSIntegralState.increment as a pure function on the record of lists
Inc(s, l, n) ==
    LET v == IF Exact THEN Shrink(s.mode, Last(s.vols), n) ELSE <<-(Len(s.ns) + 1), 1>>
        t == IF Exact /\ s.mode = "t" THEN Term(l, Last(s.vols), v) ELSE Zero
    IN  [s EXCEPT !.logLs = Append(@, l), !.ns = Append(@, n), !.vols = Append(@, v),
                  !.terms = Append(@, t), !.zrect = QAdd(@, t)]

\* trapezoid over (L_0 .. L_m, L_m) against (X_0 .. X_m, 0), likelihoods scaled by c
Trap(ll, xx, c) ==
    LET lx == Append(ll, Last(ll))
        vx == Append(xx, Zero)
        seg == [i \in 1..(Len(lx) - 1) |->
                   QMul(Q(c * (lx[i] + lx[i + 1]), 2), QSub(vx[i], vx[i + 1]))]
    IN  QSum(seg, Len(seg))

\* the schedule compute_weights(samples, nlive:int) builds in one pass:
\*   nlive * ones(m);  [-nlive:] = arange(nlive, 0, -1)
OnePass(m, N) == [k \in 1..m |-> IF k > m - N THEN m - k + 1 ELSE N]

St == [mode |-> mode, logLs |-> logLs, ns |-> ns, vols |-> vols, terms |-> terms, zrect |-> zrect]

Apply(r) ==
    /\ logLs' = r.logLs /\ ns' = r.ns /\ vols' = r.vols /\ terms' = r.terms /\ zrect' = r.zrect

-----------------------------------------------------------------------------
Init ==
    /\ mode \in {"logt", "t"}
    /\ kind \in {"const", "vary"}
    /\ nlive \in (IF kind = "const" THEN 1..MaxN ELSE {0})
    /\ phase = "sample" /\ fi = 0
    /\ logLs = <<0>> /\ ns = <<>> /\ vols = <<IF Exact THEN Unit(mode) ELSE Zero>> /\ terms = <<>>
    /\ zrect = Zero /\ ztrap = Zero

\* NestedSampler.consume_sample: state.increment(worst["logL"])   (n = nlive)
Sample(l) ==
    /\ kind = "const" /\ phase = "sample"
    /\ l >= Last(logLs)
    /\ Len(ns) + 1 + nlive <= MaxLen
    /\ \E r \in {Inc(St, l, nlive)} : Apply(r)
    /\ UNCHANGED <<mode, kind, nlive, phase, fi, ztrap>>

\* NestedSampler.finalise starts consuming the live points
StartFinal ==
    /\ kind = "const" /\ phase = "sample"
    /\ phase' = "final"
    /\ UNCHANGED <<mode, kind, nlive, fi, logLs, ns, vols, terms, zrect, ztrap>>

\* ... state.increment(p["logL"], nlive = self.nlive - i)
Final(l) ==
    /\ phase = "final" /\ fi < nlive
    /\ l >= Last(logLs)
    /\ \E r \in {Inc(St, l, nlive - fi)} : Apply(r)
    /\ fi' = fi + 1
    /\ UNCHANGED <<mode, kind, nlive, phase, ztrap>>

\* any live count at any entry
Vary(l, n) ==
    /\ kind = "vary" /\ phase = "sample"
    /\ l >= Last(logLs)
    /\ Len(ns) < MaxLenVary
    /\ \E r \in {Inc(St, l, n)} : Apply(r)
    /\ UNCHANGED <<mode, kind, nlive, phase, fi, ztrap>>

\* _NSIntegralState.finalise: the trapezoid
Close ==
    /\ \/ kind = "const" /\ phase = "final" /\ fi = nlive
       \/ kind = "vary" /\ phase = "sample" /\ Len(ns) >= 1
    /\ phase' = "closed"
    /\ ztrap' = IF Exact /\ mode = "t" THEN Trap(logLs, vols, 1) ELSE Zero
    /\ UNCHANGED <<mode, kind, nlive, fi, logLs, ns, vols, terms, zrect>>

Next ==
    \/ \E l \in 0..NSym : Sample(l) \/ Final(l)
    \/ StartFinal
    \/ \E l \in 0..NSymVary, n \in 1..MaxNVary : Vary(l, n)
    \/ Close

Spec == Init /\ [][Next]_vars

-----------------------------------------------------------------------------
(* What TLC checks on the quadrature itself                                *)

\* the three lists stay aligned: logLs and log_vols carry the extra leading point
Aligned ==
    /\ Len(logLs) = Len(vols)
    /\ Len(vols) = Len(ns) + 1
    /\ Len(terms) = Len(ns)
    /\ logLs[1] = 0

\* volumes start at X = 1 (log X = 0) ...
VolStart == vols[1] = Unit(mode) /\ (mode = "logt" => vols[1] = Zero) /\ (mode = "t" => vols[1] = One)

\* ... strictly decrease, and stay positive (mode t) / are the logs of such (mode logt)
VolDecreasing ==
    /\ \A k \in 1..(Len(vols) - 1) : QLess(vols[k + 1], vols[k])
    /\ mode = "t" => \A k \in DOMAIN vols : QPos(vols[k])

\* the incrementally accumulated volumes are the one-pass (cumulative) ones
VolOnePass == \A k \in 0..Len(ns) : vols[k + 1] = ClosedVol(mode, ns, k)

\* likelihoods never decrease
Monotone == \A k \in 1..(Len(logLs) - 1) : logLs[k] <= logLs[k + 1]

\* the running evidence is the sum of the rectangle terms, and each term is
\* L_k (X_{k-1} - X_k)
RectDef ==
    mode = "t" =>
        /\ zrect = QSum(terms, Len(terms))
        /\ \A k \in 1..Len(terms) : terms[k] = Term(logLs[k + 1], vols[k], vols[k + 1])

\* the schedule produced by sampling + finalise IS the one-pass schedule of
\* compute_weights(samples, nlive:int), for every length >= nlive
ScheduleOnePass ==
    (kind = "const" /\ phase = "closed") =>
        /\ Len(ns) >= nlive
        /\ ns = OnePass(Len(ns), nlive)

\* during finalise the counts run nlive, nlive-1, ...
ScheduleFinal ==
    (kind = "const") =>
        \A k \in 1..Len(ns) : ns[k] = (IF k <= Len(ns) - fi THEN nlive ELSE nlive - (k - (Len(ns) - fi)) + 1)

\* trapezoid: scaling every likelihood by a factor scales Z by that factor (the
\* weights T_k / Z are then unchanged: the shift clause of the property)
ScaleInvariant ==
    (mode = "t" /\ phase = "closed") =>
        /\ Trap(logLs, vols, 3) = QMul(<<3, 1>>, ztrap)
        /\ Trap(logLs, vols, 2) = QMul(<<2, 1>>, ztrap)

\* Z_trap = Z_rect - 1/2 sum_k (L_k - L_{k-1})(X_{k-1} - X_k) + L_m X_m
\* (an independent way of writing the same trapezoid)
TrapIdentity ==
    (mode = "t" /\ phase = "closed") =>
        LET m    == Len(ns)
            half == [k \in 1..m |-> QMul(Q(logLs[k + 1] - logLs[k], 2), QSub(vols[k], vols[k + 1]))]
        IN  ztrap = QAdd(QSub(zrect, QSum(half, m)), QMul(<<logLs[m + 1], 1>>, vols[m + 1]))

\* the weights T_k / Z are non-negative and sum to Z_rect / Z (NOT to one: the
\* documented weights are rectangle terms over the trapezoidal evidence)
WeightsDefined ==
    (mode = "t" /\ phase = "closed" /\ Last(logLs) > 0) =>
        /\ QPos(ztrap)
        /\ \A k \in 1..Len(terms) : terms[k][1] >= 0
        /\ QPos(zrect)

TypeOK ==
    /\ phase \in {"sample", "final", "closed"}
    /\ fi \in 0..MaxN
    /\ (kind = "vary") => (nlive = 0 /\ fi = 0 /\ phase # "final")

-----------------------------------------------------------------------------
(* Export: one line per closed case, with the spec's exact values.         *)
ExportCase ==
    (phase' = "closed" /\ phase # "closed") =>
        PrintT("CASE " \o ToJson([mode |-> mode, kind |-> kind, nlive |-> nlive,
                                   ls |-> Tail(logLs), ns |-> ns, vols |-> vols,
                                   terms |-> terms, zrect |-> zrect, ztrap |-> ztrap']))
=============================================================================
