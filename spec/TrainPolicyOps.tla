--------------------------- MODULE TrainPolicyOps ---------------------------
(***************************************************************************)
(* The pure decision functions of TrainPolicy.tla (see there), shared with *)
(* the trace specification of the standard sampler.                        *)
(***************************************************************************)
EXTENDS Integers

Decision(completed, populated, trainOnEmpty, populating, accLow, retrainAcc, it, last, freq) ==
    IF ~completed THEN <<TRUE, TRUE>>
    ELSE IF ~populated /\ trainOnEmpty /\ ~populating THEN <<TRUE, TRUE>>
    ELSE IF accLow /\ retrainAcc THEN <<TRUE, FALSE>>
    ELSE IF it - last = freq THEN <<TRUE, FALSE>>
    ELSE <<FALSE, FALSE>>

\* train_proposal(force)
Trains(force, it, last, cooldown) == force \/ ~(it - last < cooldown)

\* check_flow_model_reset: <<weights, permutations>>;  rw / rp = 0 means never
ResetFlags(tc, resetAcc, accLow, rw, rp) ==
    IF tc = 0 THEN <<FALSE, FALSE>>
    ELSE IF resetAcc /\ accLow THEN <<TRUE, TRUE>>
    ELSE <<rw > 0 /\ tc % rw = 0, rp > 0 /\ tc % rp = 0>>

DataSize(nlive, ndead, memory) == IF memory > 0 /\ ndead >= memory THEN nlive + memory ELSE nlive

=============================================================================
